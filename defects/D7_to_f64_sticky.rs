use num_bigint::BigUint;
use num_traits::{One, ToPrimitive};
#[test]
fn sticky_three_digits() {
    let one = BigUint::one();
    // 2^149 + 2^96 + 2^63: 2^96 is exactly half an ulp of 2^149 (ulp = 2^97), the 2^63 below makes it more than half
    let v = (&one << 149u32) + (&one << 96u32) + (&one << 63u32);
    let got = v.to_f64().unwrap();
    let want = 2f64.powi(149) + 2f64.powi(97);
    println!("got {:e} bits {:x}; want {:e} bits {:x}", got, got.to_bits(), want, want.to_bits());
    assert_eq!(got.to_bits(), want.to_bits());
}
#[test]
fn sticky_two_digits_control() {
    let one = BigUint::one();
    let v = (&one << 100u32) + (&one << 47u32) + (&one << 3u32);
    let got = v.to_f64().unwrap();
    let want = 2f64.powi(100) + 2f64.powi(48);
    assert_eq!(got.to_bits(), want.to_bits());
}
