//! Look-alike skeleton of the crate layout (module and type names only) carrying one positive example per rule whose
//! instance count on the real tree is zero.  `nbsa/selftest.py` runs those rules on the facts of this crate and fails the
//! check if a rule does not report its example: a rule that cannot fire proves nothing.
#![no_std]
extern crate alloc;

pub mod biguint {
    use alloc::vec::Vec;

    pub struct BigUint {
        pub(crate) data: Vec<u64>,
    }

    pub mod division {
        use super::BigUint;
        pub fn div_rem_core(a: BigUint, _b: &BigUint) -> (BigUint, BigUint) {
            let r = BigUint { data: a.data.clone() };
            (a, r)
        }
    }

    pub mod multiplication {
        use super::BigUint;
        use core::ops::Mul;

        // R8-mul-reaches-long-division: a product that divides back
        impl Mul<&BigUint> for &BigUint {
            type Output = BigUint;
            fn mul(self, other: &BigUint) -> BigUint {
                let p = BigUint { data: self.data.clone() };
                let (q, _) = super::division::div_rem_core(p, other);
                q
            }
        }
    }

    pub mod addition {
        use super::BigUint;
        use core::ops::AddAssign;

        // R1-constant-cut: the operand's digits above 2 are discarded
        impl AddAssign<u64> for BigUint {
            fn add_assign(&mut self, other: u64) {
                self.data.resize(2, 0);
                self.data[0] = self.data[0].wrapping_add(other);
            }
        }
    }

    pub mod iter {
        pub struct Halves<'a> {
            pub(crate) data: &'a [u64],
            pub(crate) hi_next: bool,
        }

        impl<'a> Halves<'a> {
            // R9-exhaustion-test: `self.data` is known non-empty inside the Some arm, the test can never be true
            pub fn take_back(&mut self) -> Option<u32> {
                if let Some((&last, rest)) = self.data.split_last() {
                    if self.data.is_empty() && !self.hi_next {
                        self.hi_next = true;
                        None
                    } else {
                        self.data = rest;
                        Some(last as u32)
                    }
                } else {
                    None
                }
            }

            // control: the field is updated first, the test looks at what is left
            pub fn take_back_ok(&mut self) -> Option<u32> {
                if let Some((&last, rest)) = self.data.split_last() {
                    self.data = rest;
                    if self.data.is_empty() && !self.hi_next {
                        self.hi_next = true;
                        None
                    } else {
                        Some(last as u32)
                    }
                } else {
                    None
                }
            }
        }
    }

    pub mod bits {
        fn negate_carry(a: u64, acc: &mut u128) -> u64 {
            *acc += u128::from(!a);
            let lo = *acc as u64;
            *acc >>= 64;
            lo
        }

        // R9-carry-exit: the loop stops when the first carry has settled, whatever the second one holds
        pub fn twice_negated(a: &mut [u64]) {
            let mut carry_a = 1;
            let mut carry_out = 1;
            for ai in a.iter_mut() {
                if carry_a == 0 {
                    break;
                }
                let t = negate_carry(*ai, &mut carry_a);
                *ai = negate_carry(t, &mut carry_out);
            }
        }

        // control: both carries are looked at
        pub fn twice_negated_ok(a: &mut [u64]) {
            let mut carry_a = 1;
            let mut carry_out = 1;
            for ai in a.iter_mut() {
                if carry_a == 0 && carry_out == 0 {
                    break;
                }
                let t = negate_carry(*ai, &mut carry_a);
                *ai = negate_carry(t, &mut carry_out);
            }
        }
    }

    pub mod shift {
        use super::BigUint;
        use core::ops::Shl;

        // R2-operand-narrowed: the shift amount loses its high bits
        impl Shl<u64> for BigUint {
            type Output = BigUint;
            fn shl(mut self, rhs: u64) -> BigUint {
                let k = rhs as u8;
                self.data.push(u64::from(k));
                self
            }
        }
    }

    pub mod power {
        use super::BigUint;

        impl BigUint {
            // R3c-operand-overflow: exp + 1 on a caller-supplied exponent that is never compared with anything
            pub fn top_bit_mask(&self, exp: u8) -> u8 {
                (exp + 1).next_power_of_two() >> 1
            }

            // R2-count-narrowed: the index of the first non-zero digit is truncated to 8 bits
            pub fn zero_digits(&self) -> u8 {
                match self.data.iter().position(|&d| d != 0) {
                    None => 0,
                    Some(i) => i as u8,
                }
            }

            // negative control for R2-count-narrowed: bounded before the cast
            pub fn zero_digits_mod(&self) -> u8 {
                (self.data.len() % 8) as u8
            }

            // R3c-shift-range: tz % 64 + 1 ranges over 1..=64, and 1u64 << 64 overflows
            pub fn low_mask(&self, tz: u64) -> u64 {
                (1u64 << (tz % 64 + 1)) - 1
            }

            // negative control: 63 - tz % 64 ranges over 0..=63
            pub fn low_mask_ok(&self, tz: u64) -> u64 {
                u64::MAX >> (63 - tz % 64)
            }

            // R3c-digit-step: a borrow taken from one digit without propagation
            pub fn borrow_one(&mut self, at: usize) {
                self.data[at] -= 1;
            }

            // negative control for R3c-digit-step: the digit is tested before the step
            pub fn bump_low(&mut self) {
                if let Some(d) = self.data.first_mut() {
                    if *d < u64::MAX {
                        *d += 1;
                    }
                }
            }

            // R3c-operand-overflow (abs form): |i64::MIN| does not exist in i64
            pub fn scale_by(&self, k: i64) -> u64 {
                if k >= 0 {
                    k as u64
                } else {
                    k.abs() as u64
                }
            }

            // negative control: unsigned_abs is total
            pub fn scale_by_total(&self, k: i64) -> u64 {
                k.unsigned_abs()
            }

            // negative control for R3c-operand-overflow: the parameter is range-checked first
            pub fn succ_checked(&self, exp: u8) -> u8 {
                assert!(exp < 200);
                exp + 1
            }
        }
    }
}
