// nbfacts: rustc_private driver that dumps a JSON fact base (MIR + HIR side tables) for
// selected crates and otherwise behaves like rustc.  Used as RUSTC_WORKSPACE_WRAPPER.
//
//   NBFACTS_OUT     directory for fact files (required for dumping; without it: plain rustc)
//   NBFACTS_CRATES  comma separated crate names to dump (default: num_bigint)
//   NBFACTS_TAG     tag used in the output file name (default: "facts")
#![feature(rustc_private)]
#![allow(clippy::all)]

extern crate rustc_abi;
extern crate rustc_ast;
extern crate rustc_driver;
extern crate rustc_hir;
extern crate rustc_interface;
extern crate rustc_middle;
extern crate rustc_session;
extern crate rustc_span;
extern crate rustc_target;

mod json;
use json::J;

use rustc_driver::{Callbacks, Compilation};
use rustc_hir::def::DefKind;
use rustc_hir::def_id::{DefId, LocalDefId};
use rustc_interface::interface::Compiler;
use rustc_middle::mir::{
    self, AggregateKind, BasicBlock, BinOp, Body, BorrowKind, CastKind, Const, ConstValue,
    InlineAsmOperand, Operand, Place, ProjectionElem, Rvalue, StatementKind, TerminatorKind,
    UnwindAction,
};
use rustc_middle::ty::print::{with_no_trimmed_paths, PrintTraitRefExt};
use rustc_middle::ty::{self, Instance, Ty, TyCtxt, TypingEnv};
use rustc_span::hygiene::{DesugaringKind, ExpnKind};
use rustc_span::Span;

struct Cb;

impl Callbacks for Cb {
    fn after_analysis<'tcx>(&mut self, _c: &Compiler, tcx: TyCtxt<'tcx>) -> Compilation {
        let out_dir = match std::env::var("NBFACTS_OUT") {
            Ok(d) => d,
            Err(_) => return Compilation::Continue,
        };
        let crates = std::env::var("NBFACTS_CRATES").unwrap_or_else(|_| "num_bigint".to_string());
        let name = tcx.crate_name(rustc_hir::def_id::LOCAL_CRATE).to_string();
        if !crates.split(',').any(|c| c == name) {
            return Compilation::Continue;
        }
        // do not dump for build scripts / test harness builds of the same crate name
        let tag = std::env::var("NBFACTS_TAG").unwrap_or_else(|_| "facts".to_string());
        let j = with_no_trimmed_paths!(dump_crate(tcx, &name));
        let mut s = String::with_capacity(1 << 24);
        j.write(&mut s);
        let is_test = tcx.sess.opts.test;
        let path = format!(
            "{}/{}-{}{}.json",
            out_dir,
            name,
            tag,
            if is_test { "-test" } else { "" }
        );
        std::fs::write(&path, s).expect("nbfacts: cannot write fact file");
        Compilation::Continue
    }
}

fn main() {
    let mut args: Vec<String> = std::env::args().collect();
    // as workspace wrapper: argv[1] is the path of the real rustc; run_compiler drops argv[0]
    if args.len() > 1 && (args[1].ends_with("rustc") || args[1].contains("/rustc")) {
        args.remove(0);
    }
    rustc_driver::run_compiler(&args, &mut Cb);
}

// ---------------------------------------------------------------------------------------------

fn loc(tcx: TyCtxt<'_>, span: Span) -> (String, usize) {
    let sm = tcx.sess.source_map();
    let lo = sm.lookup_char_pos(span.lo());
    let f = match &lo.file.name {
        rustc_span::FileName::Real(r) => match r.local_path() {
            Some(p) => p.to_string_lossy().to_string(),
            None => format!("{:?}", r),
        },
        other => format!("{:?}", other),
    };
    (f, lo.line)
}

/// span info: innermost non-macro call site (file, line), the macro expansion chain (innermost first)
fn span_json(tcx: TyCtxt<'_>, span: Span) -> J {
    let mut chain: Vec<J> = Vec::new();
    let mut sp = span;
    let mut guard = 0;
    while sp.from_expansion() && guard < 64 {
        let ed = sp.ctxt().outer_expn_data();
        match ed.kind {
            ExpnKind::Macro(_, name) => chain.push(J::s(name.to_string())),
            ExpnKind::Desugaring(k) => chain.push(J::s(format!(
                "#{}",
                match k {
                    DesugaringKind::ForLoop => "ForLoop".to_string(),
                    DesugaringKind::QuestionMark => "QuestionMark".to_string(),
                    DesugaringKind::WhileLoop => "WhileLoop".to_string(),
                    other => format!("{:?}", other),
                }
            ))),
            ExpnKind::AstPass(p) => chain.push(J::s(format!("#ast:{:?}", p))),
            ExpnKind::Root => break,
        }
        sp = ed.call_site;
        guard += 1;
    }
    let (f, l) = loc(tcx, sp);
    let (_, l0) = loc(tcx, span);
    let mut o = J::obj().set("file", J::s(f)).set("line", J::UInt(l as u128));
    if !chain.is_empty() {
        o.put("macros", J::Arr(chain));
        o.put("inner_line", J::UInt(l0 as u128));
    }
    o
}

fn ty_str<'tcx>(t: Ty<'tcx>) -> String {
    format!("{}", t)
}

fn place_json<'tcx>(tcx: TyCtxt<'tcx>, body: &Body<'tcx>, p: &Place<'tcx>) -> J {
    let mut proj: Vec<J> = Vec::new();
    let mut pty = mir::PlaceTy::from_ty(body.local_decls[p.local].ty);
    for elem in p.projection.iter() {
        let e = match elem {
            ProjectionElem::Deref => J::obj().set("k", J::s("deref")),
            ProjectionElem::Field(idx, fty) => {
                let mut o = J::obj().set("k", J::s("field")).set("idx", J::UInt(idx.as_u32() as u128));
                o.put("ty", J::s(ty_str(fty)));
                if let ty::Adt(adt, _) = pty.ty.kind() {
                    let vidx = pty.variant_index.unwrap_or(rustc_abi::FIRST_VARIANT);
                    if adt.is_struct() || adt.is_enum() || adt.is_union() {
                        if let Some(v) = adt.variants().get(vidx) {
                            if let Some(fd) = v.fields.get(idx) {
                                o.put("name", J::s(fd.name.to_string()));
                            }
                            if adt.is_enum() {
                                o.put("variant", J::s(v.name.to_string()));
                            }
                        }
                        o.put("adt", J::s(tcx.def_path_str(adt.did())));
                    }
                } else {
                    o.put("of", J::s(ty_str(pty.ty)));
                }
                o
            }
            ProjectionElem::Index(l) => J::obj().set("k", J::s("index")).set("local", J::UInt(l.as_u32() as u128)),
            ProjectionElem::ConstantIndex { offset, min_length, from_end } => J::obj()
                .set("k", J::s("constidx"))
                .set("offset", J::UInt(offset as u128))
                .set("min_length", J::UInt(min_length as u128))
                .set("from_end", J::Bool(from_end)),
            ProjectionElem::Subslice { from, to, from_end } => J::obj()
                .set("k", J::s("subslice"))
                .set("from", J::UInt(from as u128))
                .set("to", J::UInt(to as u128))
                .set("from_end", J::Bool(from_end)),
            ProjectionElem::Downcast(name, vidx) => J::obj()
                .set("k", J::s("downcast"))
                .set("variant", match name {
                    Some(n) => J::s(n.to_string()),
                    None => J::Null,
                })
                .set("vidx", J::UInt(vidx.as_u32() as u128)),
            ProjectionElem::OpaqueCast(_) => J::obj().set("k", J::s("opaquecast")),
            ProjectionElem::UnwrapUnsafeBinder(_) => J::obj().set("k", J::s("unwrapbinder")),
        };
        proj.push(e);
        pty = pty.projection_ty(tcx, elem);
    }
    J::obj()
        .set("local", J::UInt(p.local.as_u32() as u128))
        .set("proj", J::Arr(proj))
        .set("ty", J::s(ty_str(pty.ty)))
}

fn generic_args_json<'tcx>(args: ty::GenericArgsRef<'tcx>) -> J {
    J::Arr(args.iter().map(|a| J::s(format!("{}", a))).collect())
}

fn fn_ref_json<'tcx>(tcx: TyCtxt<'tcx>, owner: DefId, def_id: DefId, args: ty::GenericArgsRef<'tcx>) -> J {
    let mut o = J::obj();
    o.put("raw", J::s(tcx.def_path_str(def_id)));
    o.put("raw_full", J::s(tcx.def_path_str_with_args(def_id, args)));
    o.put("args", generic_args_json(args));
    o.put("raw_local", J::Bool(def_id.is_local()));
    if matches!(tcx.def_kind(def_id), DefKind::Fn | DefKind::AssocFn) {
        let sig = tcx.fn_sig(def_id).skip_binder();
        o.put("unsafe", J::Bool(sig.safety().is_unsafe()));
    }
    if let Some(tr) = tcx.trait_of_assoc(def_id) {
        o.put("raw_trait", J::s(tcx.def_path_str(tr)));
    }
    o.put("raw_name", J::s(tcx.item_name(def_id).to_string()));
    // resolve to a concrete instance where possible
    let env = TypingEnv::post_analysis(tcx, owner);
    let resolved = std::panic::catch_unwind(std::panic::AssertUnwindSafe(|| {
        Instance::try_resolve(tcx, env, def_id, args)
    }));
    if let Ok(Ok(Some(inst))) = resolved {
        let rid = inst.def_id();
        o.put("path", J::s(tcx.def_path_str(rid)));
        o.put("full", J::s(tcx.def_path_str_with_args(rid, inst.args)));
        o.put("local", J::Bool(rid.is_local()));
        o.put("inst_args", generic_args_json(inst.args));
        o.put("inst_kind", J::s(match inst.def {
            ty::InstanceKind::Item(_) => "item".to_string(),
            ty::InstanceKind::Intrinsic(_) => "intrinsic".to_string(),
            ty::InstanceKind::Virtual(..) => "virtual".to_string(),
            ty::InstanceKind::ClosureOnceShim { .. } => "closure_once".to_string(),
            ty::InstanceKind::FnPtrShim(..) => "fnptr_shim".to_string(),
            ty::InstanceKind::DropGlue(..) => "drop_glue".to_string(),
            ty::InstanceKind::CloneShim(..) => "clone_shim".to_string(),
            _ => "other".to_string(),
        }));
        if let Some(imp) = tcx.impl_of_assoc(rid) {
            let self_ty = tcx.type_of(imp).instantiate(tcx, inst.args);
            o.put("impl_self", J::s(ty_str(self_ty.skip_norm_wip())));
            if let Some(tr) = tcx.impl_opt_trait_ref(imp) {
                let tr = tr.instantiate(tcx, inst.args).skip_norm_wip();
                o.put("impl_trait", J::s(tcx.def_path_str(tr.def_id)));
                o.put("impl_trait_full", J::s(format!("{}", tr.print_only_trait_path())));
            }
        }
    } else {
        o.put("path", J::Null);
    }
    o
}

fn const_json<'tcx>(tcx: TyCtxt<'tcx>, owner: DefId, c: &mir::ConstOperand<'tcx>) -> J {
    let ty = c.const_.ty();
    let mut o = J::obj().set("k", J::s("const")).set("ty", J::s(ty_str(ty)));
    match ty.kind() {
        ty::FnDef(def_id, args) => {
            o.put("fn", fn_ref_json(tcx, owner, *def_id, args));
            return o;
        }
        _ => {}
    }
    if let Const::Unevaluated(u, _) = c.const_ {
        o.put("named", J::s(tcx.def_path_str(u.def)));
        if u.promoted.is_some() {
            o.put("promoted", J::Bool(true));
        }
    }
    // promoted constant of a generic function (cannot be const-evaluated: too generic): read the promoted MIR body,
    // which for `&LITERAL` is `_1 = const LITERAL; _0 = &_1`
    if let Const::Unevaluated(u, _) = c.const_ {
        if let (Some(pidx), ty::Ref(_, inner, _)) = (u.promoted, ty.kind()) {
            if matches!(inner.kind(), ty::Int(_) | ty::Uint(_) | ty::Bool) && u.def.is_local() {
                let pm = tcx.promoted_mir(u.def);
                if let Some(pb) = pm.get(pidx) {
                    for bbd in pb.basic_blocks.iter() {
                        for st in bbd.statements.iter() {
                            if let StatementKind::Assign(pr) = &st.kind {
                                if let Rvalue::Use(Operand::Constant(cc), _) = &pr.1 {
                                    let env0 = TypingEnv::post_analysis(tcx, owner);
                                    if let Some(si) = cc.const_.try_eval_scalar_int(tcx, env0) {
                                        let size = si.size();
                                        let bits = si.to_bits(size);
                                        match inner.kind() {
                                            ty::Int(_) => {
                                                let sh = 128 - size.bits();
                                                let sv = if size.bits() == 0 { 0 } else { ((bits << sh) as i128) >> sh };
                                                o.put("deref_val", J::Int(sv));
                                            }
                                            ty::Bool => o.put("deref_val", J::Bool(bits != 0)),
                                            _ => o.put("deref_val", J::UInt(bits)),
                                        }
                                    }
                                }
                            }
                        }
                    }
                }
            }
        }
    }
    let env = TypingEnv::post_analysis(tcx, owner);
    let evald = std::panic::catch_unwind(std::panic::AssertUnwindSafe(|| c.const_.eval(tcx, env, c.span)));
    if let Ok(Ok(v)) = evald {
        match v {
            ConstValue::Scalar(rustc_middle::mir::interpret::Scalar::Ptr(ptr, _)) => {
                // reference to a (promoted) constant: read the pointee if it is a primitive integer/bool
                if let ty::Ref(_, inner, _) = ty.kind() {
                    // reference to a fieldless enum constant (e.g. `&Sign::Plus`): read the tag
                    if let ty::Adt(adt, _) = inner.kind() {
                        if adt.is_enum() && adt.variants().iter().all(|v| v.fields.is_empty()) {
                            let env2 = TypingEnv::fully_monomorphized();
                            if let Ok(lay) = tcx.layout_of(env2.as_query_input(*inner)) {
                                let (prov, off) = ptr.into_raw_parts();
                                if let Some(rustc_middle::mir::interpret::GlobalAlloc::Memory(a)) = tcx.try_get_global_alloc(prov.alloc_id()) {
                                    let a = a.inner();
                                    let start = off.bytes() as usize;
                                    let n = lay.size.bytes() as usize;
                                    if n > 0 && start + n <= a.len() {
                                        let bytes = a.inspect_with_uninit_and_ptr_outside_interpreter(start..start + n);
                                        let mut bits: u128 = 0;
                                        for (i, b) in bytes.iter().enumerate() {
                                            bits |= (*b as u128) << (8 * i);
                                        }
                                        for (vidx, d) in adt.discriminants(tcx) {
                                            let mask: u128 = if n >= 16 { u128::MAX } else { (1u128 << (8 * n)) - 1 };
                                            if d.val & mask == bits {
                                                o.put("deref_enum", J::obj().set("adt", J::s(tcx.def_path_str(adt.did()))).set("variant", J::s(adt.variant(vidx).name.to_string())));
                                            }
                                        }
                                    }
                                }
                            }
                        }
                    }
                    if matches!(inner.kind(), ty::Int(_) | ty::Uint(_) | ty::Bool) {
                        let env2 = TypingEnv::fully_monomorphized();
                        if let Ok(lay) = tcx.layout_of(env2.as_query_input(*inner)) {
                            let (prov, off) = ptr.into_raw_parts();
                            if let Some(rustc_middle::mir::interpret::GlobalAlloc::Memory(a)) = tcx.try_get_global_alloc(prov.alloc_id()) {
                                let a = a.inner();
                                let start = off.bytes() as usize;
                                let n = lay.size.bytes() as usize;
                                if start + n <= a.len() {
                                    let bytes = a.inspect_with_uninit_and_ptr_outside_interpreter(start..start + n);
                                    let mut bits: u128 = 0;
                                    for (i, b) in bytes.iter().enumerate() {
                                        bits |= (*b as u128) << (8 * i);
                                    }
                                    match inner.kind() {
                                        ty::Int(_) => {
                                            let sh = 128 - 8 * n as u32;
                                            let sv = if n == 0 { 0 } else { ((bits << sh) as i128) >> sh };
                                            o.put("deref_val", J::Int(sv));
                                        }
                                        ty::Bool => o.put("deref_val", J::Bool(bits != 0)),
                                        _ => o.put("deref_val", J::UInt(bits)),
                                    }
                                }
                            }
                        }
                    }
                }
            }
            ConstValue::Scalar(s) => {
                if let Ok(si) = s.try_to_scalar_int() {
                    let size = si.size();
                    let bits = si.to_bits(size);
                    o.put("bits", J::UInt(bits));
                    o.put("size", J::UInt(size.bytes() as u128));
                    match ty.kind() {
                        ty::Int(_) => {
                            let sh = 128 - size.bits();
                            let sv = if size.bits() == 0 { 0 } else { ((bits << sh) as i128) >> sh };
                            o.put("val", J::Int(sv));
                        }
                        ty::Uint(_) => o.put("val", J::UInt(bits)),
                        ty::Bool => o.put("val", J::Bool(bits != 0)),
                        ty::Char => o.put("val", J::UInt(bits)),
                        ty::Float(_) => o.put("fbits", J::UInt(bits)),
                        _ => {}
                    }
                }
            }
            ConstValue::ZeroSized => o.put("zst", J::Bool(true)),
            ConstValue::Slice { .. } => {
                let is_str = match ty.kind() {
                    ty::Ref(_, inner, _) => inner.is_str() || matches!(inner.kind(), ty::Slice(t) if *t == tcx.types.u8),
                    _ => false,
                };
                if is_str {
                    if let Some(b) = v.try_get_slice_bytes_for_diagnostics(tcx) {
                        o.put("str", J::s(String::from_utf8_lossy(b).to_string()));
                    }
                }
            }
            ConstValue::Indirect { .. } => {
                o.put("indirect", J::Bool(true));
            }
        }
    }
    o
}

fn operand_json<'tcx>(tcx: TyCtxt<'tcx>, body: &Body<'tcx>, owner: DefId, op: &Operand<'tcx>) -> J {
    match op {
        Operand::Copy(p) => J::obj().set("k", J::s("copy")).set("place", place_json(tcx, body, p)),
        Operand::Move(p) => J::obj().set("k", J::s("move")).set("place", place_json(tcx, body, p)),
        Operand::Constant(c) => const_json(tcx, owner, c),
        Operand::RuntimeChecks(rc) => J::obj().set("k", J::s("runtime_checks")).set("what", J::s(format!("{:?}", rc))),
    }
}

fn binop_str(op: BinOp) -> &'static str {
    match op {
        BinOp::Add => "Add",
        BinOp::AddUnchecked => "AddUnchecked",
        BinOp::AddWithOverflow => "AddWithOverflow",
        BinOp::Sub => "Sub",
        BinOp::SubUnchecked => "SubUnchecked",
        BinOp::SubWithOverflow => "SubWithOverflow",
        BinOp::Mul => "Mul",
        BinOp::MulUnchecked => "MulUnchecked",
        BinOp::MulWithOverflow => "MulWithOverflow",
        BinOp::Div => "Div",
        BinOp::Rem => "Rem",
        BinOp::BitXor => "BitXor",
        BinOp::BitAnd => "BitAnd",
        BinOp::BitOr => "BitOr",
        BinOp::Shl => "Shl",
        BinOp::ShlUnchecked => "ShlUnchecked",
        BinOp::Shr => "Shr",
        BinOp::ShrUnchecked => "ShrUnchecked",
        BinOp::Eq => "Eq",
        BinOp::Lt => "Lt",
        BinOp::Le => "Le",
        BinOp::Ne => "Ne",
        BinOp::Ge => "Ge",
        BinOp::Gt => "Gt",
        BinOp::Cmp => "Cmp",
        BinOp::Offset => "Offset",
    }
}

fn rvalue_json<'tcx>(tcx: TyCtxt<'tcx>, body: &Body<'tcx>, owner: DefId, rv: &Rvalue<'tcx>) -> J {
    match rv {
        Rvalue::Use(op, _) => J::obj().set("k", J::s("use")).set("op", operand_json(tcx, body, owner, op)),
        Rvalue::Repeat(op, n) => J::obj()
            .set("k", J::s("repeat"))
            .set("op", operand_json(tcx, body, owner, op))
            .set("count", J::s(format!("{}", n))),
        Rvalue::Ref(_, bk, p) => J::obj()
            .set("k", J::s("ref"))
            .set("mut", J::Bool(matches!(bk, BorrowKind::Mut { .. })))
            .set("place", place_json(tcx, body, p)),
        Rvalue::ThreadLocalRef(d) => J::obj().set("k", J::s("tlsref")).set("def", J::s(tcx.def_path_str(*d))),
        Rvalue::RawPtr(kind, p) => J::obj()
            .set("k", J::s("rawptr"))
            .set("mut", J::Bool(format!("{:?}", kind).contains("Mut")))
            .set("place", place_json(tcx, body, p)),
        Rvalue::Cast(ck, op, to) => {
            let from = op.ty(&body.local_decls, tcx);
            let cks = match ck {
                CastKind::IntToInt => "IntToInt".to_string(),
                CastKind::FloatToInt => "FloatToInt".to_string(),
                CastKind::FloatToFloat => "FloatToFloat".to_string(),
                CastKind::IntToFloat => "IntToFloat".to_string(),
                CastKind::PtrToPtr => "PtrToPtr".to_string(),
                CastKind::FnPtrToPtr => "FnPtrToPtr".to_string(),
                CastKind::Transmute => "Transmute".to_string(),
                CastKind::PointerExposeProvenance => "PointerExposeProvenance".to_string(),
                CastKind::PointerWithExposedProvenance => "PointerWithExposedProvenance".to_string(),
                CastKind::PointerCoercion(pc, _) => format!("PointerCoercion({:?})", pc),
                #[allow(unreachable_patterns)]
                other => format!("{:?}", other),
            };
            J::obj()
                .set("k", J::s("cast"))
                .set("ck", J::s(cks))
                .set("op", operand_json(tcx, body, owner, op))
                .set("from", J::s(ty_str(from)))
                .set("to", J::s(ty_str(*to)))
        }
        Rvalue::BinaryOp(op, ab) => J::obj()
            .set("k", J::s("binop"))
            .set("op", J::s(binop_str(*op)))
            .set("a", operand_json(tcx, body, owner, &ab.0))
            .set("b", operand_json(tcx, body, owner, &ab.1)),
        Rvalue::UnaryOp(op, a) => J::obj()
            .set("k", J::s("unop"))
            .set("op", J::s(format!("{:?}", op)))
            .set("a", operand_json(tcx, body, owner, a)),
        Rvalue::Discriminant(p) => J::obj().set("k", J::s("discriminant")).set("place", place_json(tcx, body, p)),
        Rvalue::Aggregate(ak, ops) => {
            let mut o = J::obj().set("k", J::s("aggregate"));
            match &**ak {
                AggregateKind::Array(t) => {
                    o.put("akind", J::s("array"));
                    o.put("elem", J::s(ty_str(*t)));
                }
                AggregateKind::Tuple => o.put("akind", J::s("tuple")),
                AggregateKind::Adt(did, vidx, args, _, active) => {
                    o.put("akind", J::s("adt"));
                    o.put("adt", J::s(tcx.def_path_str(*did)));
                    o.put("adt_args", generic_args_json(args));
                    let adt = tcx.adt_def(*did);
                    let v = adt.variant(*vidx);
                    o.put("variant", J::s(v.name.to_string()));
                    o.put("vidx", J::UInt(vidx.as_u32() as u128));
                    o.put("fields", J::Arr(v.fields.iter().map(|f| J::s(f.name.to_string())).collect()));
                    if let Some(a) = active {
                        o.put("active_field", J::UInt(a.as_u32() as u128));
                    }
                }
                AggregateKind::Closure(did, _) => {
                    o.put("akind", J::s("closure"));
                    o.put("closure", J::s(tcx.def_path_str(*did)));
                }
                AggregateKind::RawPtr(t, m) => {
                    o.put("akind", J::s("rawptr"));
                    o.put("pointee", J::s(ty_str(*t)));
                    o.put("mut", J::Bool(m.is_mut()));
                }
                _ => o.put("akind", J::s("other")),
            }
            o.put("ops", J::Arr(ops.iter().map(|x| operand_json(tcx, body, owner, x)).collect()));
            o
        }
        Rvalue::CopyForDeref(p) => J::obj().set("k", J::s("copyforderef")).set("place", place_json(tcx, body, p)),
        Rvalue::WrapUnsafeBinder(op, _) => J::obj().set("k", J::s("wrapbinder")).set("op", operand_json(tcx, body, owner, op)),
        #[allow(unreachable_patterns)]
        other => J::obj().set("k", J::s("other")).set("dbg", J::s(format!("{:?}", other))),
    }
}

fn unwind_json(u: &UnwindAction) -> J {
    match u {
        UnwindAction::Continue => J::s("continue"),
        UnwindAction::Unreachable => J::s("unreachable"),
        UnwindAction::Terminate(_) => J::s("terminate"),
        UnwindAction::Cleanup(bb) => J::UInt(bb.as_u32() as u128),
    }
}

fn bb(b: BasicBlock) -> J {
    J::UInt(b.as_u32() as u128)
}

fn terminator_json<'tcx>(tcx: TyCtxt<'tcx>, body: &Body<'tcx>, owner: DefId, t: &mir::Terminator<'tcx>) -> J {
    let mut o = J::obj();
    match &t.kind {
        TerminatorKind::Goto { target } => {
            o.put("k", J::s("goto"));
            o.put("target", bb(*target));
        }
        TerminatorKind::SwitchInt { discr, targets } => {
            o.put("k", J::s("switch"));
            o.put("discr", operand_json(tcx, body, owner, discr));
            o.put("discr_ty", J::s(ty_str(discr.ty(&body.local_decls, tcx))));
            let mut ts = Vec::new();
            for (v, b) in targets.iter() {
                ts.push(J::Arr(vec![J::UInt(v), bb(b)]));
            }
            o.put("targets", J::Arr(ts));
            o.put("otherwise", bb(targets.otherwise()));
        }
        TerminatorKind::UnwindResume => o.put("k", J::s("resume")),
        TerminatorKind::UnwindTerminate(_) => o.put("k", J::s("terminate")),
        TerminatorKind::Return => o.put("k", J::s("return")),
        TerminatorKind::Unreachable => o.put("k", J::s("unreachable")),
        TerminatorKind::Drop { place, target, unwind, .. } => {
            o.put("k", J::s("drop"));
            o.put("place", place_json(tcx, body, place));
            o.put("target", bb(*target));
            o.put("unwind", unwind_json(unwind));
        }
        TerminatorKind::Call { func, args, destination, target, unwind, fn_span, .. } => {
            o.put("k", J::s("call"));
            o.put("func", operand_json(tcx, body, owner, func));
            o.put("args", J::Arr(args.iter().map(|a| operand_json(tcx, body, owner, &a.node)).collect()));
            o.put("dest", place_json(tcx, body, destination));
            o.put("target", match target {
                Some(b) => bb(*b),
                None => J::Null,
            });
            o.put("unwind", unwind_json(unwind));
            o.put("fn_span", span_json(tcx, *fn_span));
        }
        TerminatorKind::TailCall { func, args, .. } => {
            o.put("k", J::s("tailcall"));
            o.put("func", operand_json(tcx, body, owner, func));
            o.put("args", J::Arr(args.iter().map(|a| operand_json(tcx, body, owner, &a.node)).collect()));
        }
        TerminatorKind::Assert { cond, expected, msg, target, unwind } => {
            o.put("k", J::s("assert"));
            o.put("cond", operand_json(tcx, body, owner, cond));
            o.put("expected", J::Bool(*expected));
            let kind = format!("{:?}", msg);
            let short = kind.split(|c| c == '(' || c == ' ' || c == '{').next().unwrap_or("").to_string();
            o.put("msg", J::s(short));
            o.put("target", bb(*target));
            o.put("unwind", unwind_json(unwind));
        }
        TerminatorKind::InlineAsm { template, operands, options, targets, unwind, .. } => {
            o.put("k", J::s("asm"));
            let mut tp = Vec::new();
            for piece in template.iter() {
                match piece {
                    rustc_ast::InlineAsmTemplatePiece::String(s) => tp.push(J::obj().set("s", J::s(s.to_string()))),
                    rustc_ast::InlineAsmTemplatePiece::Placeholder { operand_idx, modifier, .. } => tp.push(
                        J::obj().set("op", J::UInt(*operand_idx as u128)).set(
                            "modifier",
                            match modifier {
                                Some(c) => J::s(c.to_string()),
                                None => J::Null,
                            },
                        ),
                    ),
                }
            }
            o.put("template", J::Arr(tp));
            let mut ops = Vec::new();
            for op in operands.iter() {
                ops.push(match op {
                    InlineAsmOperand::In { reg, value } => J::obj()
                        .set("class", J::s("in"))
                        .set("reg", J::s(format!("{:?}", reg)))
                        .set("value", operand_json(tcx, body, owner, value)),
                    InlineAsmOperand::Out { reg, late, place } => J::obj()
                        .set("class", J::s("out"))
                        .set("late", J::Bool(*late))
                        .set("reg", J::s(format!("{:?}", reg)))
                        .set("place", match place {
                            Some(p) => place_json(tcx, body, p),
                            None => J::Null,
                        }),
                    InlineAsmOperand::InOut { reg, late, in_value, out_place } => J::obj()
                        .set("class", J::s("inout"))
                        .set("late", J::Bool(*late))
                        .set("reg", J::s(format!("{:?}", reg)))
                        .set("value", operand_json(tcx, body, owner, in_value))
                        .set("place", match out_place {
                            Some(p) => place_json(tcx, body, p),
                            None => J::Null,
                        }),
                    InlineAsmOperand::Const { .. } => J::obj().set("class", J::s("const")),
                    InlineAsmOperand::SymFn { .. } => J::obj().set("class", J::s("symfn")),
                    InlineAsmOperand::SymStatic { .. } => J::obj().set("class", J::s("symstatic")),
                    InlineAsmOperand::Label { .. } => J::obj().set("class", J::s("label")),
                });
            }
            o.put("operands", J::Arr(ops));
            o.put("options", J::s(format!("{:?}", options)));
            o.put("targets", J::Arr(targets.iter().map(|b| bb(*b)).collect()));
            o.put("unwind", unwind_json(unwind));
        }
        TerminatorKind::FalseEdge { real_target, .. } => {
            o.put("k", J::s("goto"));
            o.put("target", bb(*real_target));
        }
        TerminatorKind::FalseUnwind { real_target, .. } => {
            o.put("k", J::s("goto"));
            o.put("target", bb(*real_target));
        }
        other => {
            o.put("k", J::s("other"));
            o.put("dbg", J::s(format!("{:?}", other)));
        }
    }
    o.put("span", span_json(tcx, t.source_info.span));
    o
}

fn body_json<'tcx>(tcx: TyCtxt<'tcx>, ldid: LocalDefId) -> J {
    let def_id = ldid.to_def_id();
    let body: &Body<'tcx> = tcx.optimized_mir(def_id);
    let kind = tcx.def_kind(def_id);
    let mut o = J::obj();
    o.put("path", J::s(tcx.def_path_str(def_id)));
    o.put("kind", J::s(format!("{:?}", kind)));
    let (f, l) = loc(tcx, tcx.def_span(def_id));
    o.put("file", J::s(f));
    o.put("line", J::UInt(l as u128));
    let sp = tcx.def_span(def_id);
    if sp.from_expansion() {
        o.put("def_span", span_json(tcx, sp));
    }
    if matches!(kind, DefKind::Fn | DefKind::AssocFn) {
        o.put("name", J::s(tcx.item_name(def_id).to_string()));
        let sig = tcx.fn_sig(def_id).skip_binder().skip_binder();
        o.put("unsafe", J::Bool(sig.safety().is_unsafe()));
        o.put("inputs", J::Arr(sig.inputs().iter().map(|t| J::s(ty_str(*t))).collect()));
        o.put("output", J::s(ty_str(sig.output())));
        o.put("vis_public", J::Bool(tcx.visibility(def_id).is_public()));
        let ev = tcx.effective_visibilities(());
        o.put("reachable", J::Bool(ev.is_reachable(ldid)));
        o.put("exported", J::Bool(ev.is_exported(ldid)));
        let gens = tcx.generics_of(def_id);
        o.put("n_generics", J::UInt(gens.own_params.len() as u128));
        if let Some(imp) = tcx.impl_of_assoc(def_id) {
            let mut io = J::obj();
            io.put("self_ty", J::s(ty_str(tcx.type_of(imp).instantiate_identity().skip_norm_wip())));
            if let Some(tr) = tcx.impl_opt_trait_ref(imp) {
                let tr = tr.instantiate_identity().skip_norm_wip();
                io.put("trait", J::s(tcx.def_path_str(tr.def_id)));
                io.put("trait_full", J::s(format!("{}", tr.print_only_trait_path())));
                io.put("trait_args", J::Arr(tr.args.iter().skip(1).map(|a| J::s(format!("{}", a))).collect()));
                io.put("trait_local", J::Bool(tr.def_id.is_local()));
                if tr.def_id.is_local() {
                    io.put("trait_reachable", J::Bool(ev.is_reachable(tr.def_id.expect_local())));
                }
            }
            io.put("impl_generics", J::UInt(tcx.generics_of(imp).own_params.len() as u128));
            let (f, l) = loc(tcx, tcx.def_span(imp));
            io.put("file", J::s(f));
            io.put("line", J::UInt(l as u128));
            let isp = tcx.def_span(imp);
            if isp.from_expansion() {
                io.put("span", span_json(tcx, isp));
            }
            o.put("impl", io);
        } else if let Some(tr) = tcx.trait_of_assoc(def_id) {
            o.put("trait_default_of", J::s(tcx.def_path_str(tr)));
        }
    } else if kind == DefKind::Closure {
        let parent = tcx.typeck_root_def_id(def_id);
        o.put("closure_of", J::s(tcx.def_path_str(parent)));
    }
    o.put("arg_count", J::UInt(body.arg_count as u128));
    // locals
    let mut names: Vec<Option<String>> = vec![None; body.local_decls.len()];
    for vdi in body.var_debug_info.iter() {
        if let mir::VarDebugInfoContents::Place(p) = &vdi.value {
            if p.projection.is_empty() {
                names[p.local.as_usize()] = Some(vdi.name.to_string());
            }
        }
    }
    let mut locals = Vec::new();
    for (i, d) in body.local_decls.iter_enumerated() {
        let mut lo = J::obj().set("ty", J::s(ty_str(d.ty)));
        if let Some(n) = &names[i.as_usize()] {
            lo.put("name", J::s(n.clone()));
        }
        if d.mutability.is_mut() {
            lo.put("mut", J::Bool(true));
        }
        locals.push(lo);
    }
    o.put("locals", J::Arr(locals));
    // upvar debug info for closures (names of captured variables)
    let mut upv = Vec::new();
    for vdi in body.var_debug_info.iter() {
        if let mir::VarDebugInfoContents::Place(p) = &vdi.value {
            if !p.projection.is_empty() {
                upv.push(J::obj().set("name", J::s(vdi.name.to_string())).set("place", place_json(tcx, body, p)));
            }
        }
    }
    if !upv.is_empty() {
        o.put("debug_places", J::Arr(upv));
    }
    // blocks
    let mut blocks = Vec::new();
    for (_bbi, data) in body.basic_blocks.iter_enumerated() {
        let mut b = J::obj();
        if data.is_cleanup {
            b.put("cleanup", J::Bool(true));
        }
        let mut stmts = Vec::new();
        for st in data.statements.iter() {
            match &st.kind {
                StatementKind::Assign(pr) => {
                    let (p, rv) = &**pr;
                    stmts.push(
                        J::obj()
                            .set("k", J::s("assign"))
                            .set("place", place_json(tcx, body, p))
                            .set("rv", rvalue_json(tcx, body, def_id, rv))
                            .set("span", span_json(tcx, st.source_info.span)),
                    );
                }
                StatementKind::SetDiscriminant { place, variant_index } => {
                    stmts.push(
                        J::obj()
                            .set("k", J::s("setdiscr"))
                            .set("place", place_json(tcx, body, place))
                            .set("vidx", J::UInt(variant_index.as_u32() as u128))
                            .set("span", span_json(tcx, st.source_info.span)),
                    );
                }
                StatementKind::Intrinsic(i) => {
                    stmts.push(
                        J::obj()
                            .set("k", J::s("intrinsic"))
                            .set("dbg", J::s(format!("{:?}", i)))
                            .set("span", span_json(tcx, st.source_info.span)),
                    );
                }
                _ => {}
            }
        }
        b.put("stmts", J::Arr(stmts));
        if let Some(t) = &data.terminator {
            b.put("term", terminator_json(tcx, body, def_id, t));
        }
        blocks.push(b);
    }
    o.put("blocks", J::Arr(blocks));
    o
}

/// HIR visitor collecting user-written unsafe blocks
struct UnsafeBlocks<'tcx> {
    tcx: TyCtxt<'tcx>,
    found: Vec<J>,
}

impl<'tcx> rustc_hir::intravisit::Visitor<'tcx> for UnsafeBlocks<'tcx> {
    type NestedFilter = rustc_middle::hir::nested_filter::OnlyBodies;
    fn maybe_tcx(&mut self) -> Self::MaybeTyCtxt {
        self.tcx
    }
    fn visit_block(&mut self, b: &'tcx rustc_hir::Block<'tcx>) {
        if let rustc_hir::BlockCheckMode::UnsafeBlock(src) = b.rules {
            if matches!(src, rustc_hir::UnsafeSource::UserProvided) {
                let owner = self.tcx.hir_enclosing_body_owner(b.hir_id);
                self.found.push(
                    J::obj()
                        .set("owner", J::s(self.tcx.def_path_str(owner.to_def_id())))
                        .set("span", span_json(self.tcx, b.span)),
                );
            }
        }
        rustc_hir::intravisit::walk_block(self, b);
    }
}

fn dump_crate<'tcx>(tcx: TyCtxt<'tcx>, name: &str) -> J {
    let mut root = J::obj();
    root.put("crate", J::s(name));
    root.put("schema", J::UInt(1));
    let sess = tcx.sess;
    root.put("debug_assertions", J::Bool(sess.opts.debug_assertions));
    root.put("overflow_checks", J::Bool(sess.overflow_checks()));
    let mut cfgs: Vec<String> = Vec::new();
    for (k, v) in sess.config.iter() {
        match v {
            Some(v) => cfgs.push(format!("{}=\"{}\"", k, v)),
            None => cfgs.push(k.to_string()),
        }
    }
    cfgs.sort();
    root.put("cfg", J::Arr(cfgs.into_iter().map(J::s).collect()));

    // bodies
    let mut bodies = Vec::new();
    let mut keys: Vec<LocalDefId> = tcx.mir_keys(()).iter().copied().collect();
    keys.sort_by_key(|k| tcx.def_path_str(k.to_def_id()));
    for ldid in keys {
        let kind = tcx.def_kind(ldid.to_def_id());
        if !matches!(kind, DefKind::Fn | DefKind::AssocFn | DefKind::Closure) {
            continue;
        }
        // constructors of tuple structs/variants have MIR but are DefKind::Ctor (skipped above)
        if tcx.is_const_fn(ldid.to_def_id()) && false {
            continue;
        }
        bodies.push(body_json(tcx, ldid));
    }
    root.put("bodies", J::Arr(bodies));

    // ADTs: field visibilities
    let mut adts = Vec::new();
    let items = tcx.hir_crate_items(());
    let ev = tcx.effective_visibilities(());
    for id in items.definitions() {
        let did = id.to_def_id();
        let kind = tcx.def_kind(did);
        match kind {
            DefKind::Struct | DefKind::Enum => {
                let adt = tcx.adt_def(did);
                let mut a = J::obj()
                    .set("path", J::s(tcx.def_path_str(did)))
                    .set("kind", J::s(format!("{:?}", kind)))
                    .set("vis_public", J::Bool(tcx.visibility(did).is_public()))
                    .set("reachable", J::Bool(ev.is_reachable(id)));
                let mut vs = Vec::new();
                for v in adt.variants().iter() {
                    let mut fs = Vec::new();
                    for f in v.fields.iter() {
                        fs.push(
                            J::obj()
                                .set("name", J::s(f.name.to_string()))
                                .set("public", J::Bool(f.vis.is_public()))
                                .set("vis", J::s(format!("{:?}", f.vis)))
                                .set("ty", J::s(ty_str(tcx.type_of(f.did).instantiate_identity().skip_norm_wip()))),
                        );
                    }
                    vs.push(J::obj().set("name", J::s(v.name.to_string())).set("fields", J::Arr(fs)).set(
                        "discr",
                        match adt.is_enum() {
                            true => J::s(format!("{:?}", v.discr)),
                            false => J::Null,
                        },
                    ));
                }
                a.put("variants", J::Arr(vs));
                if adt.is_enum() {
                    let mut ds = Vec::new();
                    for (vidx, d) in adt.discriminants(tcx) {
                        ds.push(J::Arr(vec![J::s(adt.variant(vidx).name.to_string()), J::UInt(d.val)]));
                    }
                    a.put("discriminants", J::Arr(ds));
                }
                adts.push(a);
            }
            _ => {}
        }
    }
    root.put("adts", J::Arr(adts));

    // items: visibility of fns/traits/statics/consts (for who-may-call rules)
    let mut its = Vec::new();
    for id in items.definitions() {
        let did = id.to_def_id();
        let kind = tcx.def_kind(did);
        match kind {
            DefKind::Fn | DefKind::AssocFn | DefKind::Trait | DefKind::Static { .. } | DefKind::Const { .. } | DefKind::AssocConst { .. } | DefKind::Mod | DefKind::TyAlias => {
                let (f, l) = loc(tcx, tcx.def_span(did));
                its.push(
                    J::obj()
                        .set("path", J::s(tcx.def_path_str(did)))
                        .set("kind", J::s(format!("{:?}", kind).split(|c| c == ' ' || c == '{').next().unwrap_or("").to_string()))
                        .set("vis_public", J::Bool(tcx.visibility(did).is_public()))
                        .set("reachable", J::Bool(ev.is_reachable(id)))
                        .set("exported", J::Bool(ev.is_exported(id)))
                        .set("file", J::s(f))
                        .set("line", J::UInt(l as u128)),
                );
            }
            _ => {}
        }
    }
    root.put("items", J::Arr(its));

    // statics and consts of array type: evaluated bytes
    let mut statics = Vec::new();
    for id in items.definitions() {
        let did = id.to_def_id();
        if let DefKind::Static { nested: false, .. } = tcx.def_kind(did) {
            let ty = tcx.type_of(did).instantiate_identity().skip_norm_wip();
            let mut so = J::obj().set("path", J::s(tcx.def_path_str(did))).set("ty", J::s(ty_str(ty)));
            let (f, l) = loc(tcx, tcx.def_span(did));
            so.put("file", J::s(f));
            so.put("line", J::UInt(l as u128));
            // parent fn
            let parent = tcx.parent(did);
            so.put("parent", J::s(tcx.def_path_str(parent)));
            if let Ok(alloc) = tcx.eval_static_initializer(did) {
                let a = alloc.inner();
                let n = a.len();
                if n <= (1 << 16) {
                    let bytes = a.inspect_with_uninit_and_ptr_outside_interpreter(0..n);
                    let mut hex = String::with_capacity(2 * n);
                    for b in bytes {
                        hex.push_str(&format!("{:02x}", b));
                    }
                    so.put("bytes", J::s(hex));
                }
                so.put("size", J::UInt(n as u128));
            }
            // element layout for arrays of tuples
            if let ty::Array(elem, _) = ty.kind() {
                let env = TypingEnv::fully_monomorphized();
                if let Ok(lay) = tcx.layout_of(env.as_query_input(*elem)) {
                    so.put("elem_size", J::UInt(lay.size.bytes() as u128));
                    let mut offs = Vec::new();
                    let nf = lay.fields.count();
                    for i in 0..nf {
                        offs.push(J::UInt(lay.fields.offset(i).bytes() as u128));
                    }
                    so.put("elem_field_offsets", J::Arr(offs));
                    if let ty::Tuple(ts) = elem.kind() {
                        so.put("elem_field_tys", J::Arr(ts.iter().map(|t| J::s(ty_str(t))).collect()));
                        let mut szs = Vec::new();
                        for t in ts.iter() {
                            if let Ok(l) = tcx.layout_of(env.as_query_input(t)) {
                                szs.push(J::UInt(l.size.bytes() as u128));
                            }
                        }
                        so.put("elem_field_sizes", J::Arr(szs));
                    }
                }
            }
            statics.push(so);
        }
    }
    root.put("statics", J::Arr(statics));

    // user unsafe blocks
    let mut ub = UnsafeBlocks { tcx, found: Vec::new() };
    tcx.hir_visit_all_item_likes_in_crate(&mut ub);
    root.put("unsafe_blocks", J::Arr(ub.found));

    // trait impls (including those without bodies, e.g. marker impls)
    let mut impls = Vec::new();
    for id in items.definitions() {
        let did = id.to_def_id();
        if let DefKind::Impl { of_trait } = tcx.def_kind(did) {
            let mut io = J::obj().set("self_ty", J::s(ty_str(tcx.type_of(did).instantiate_identity().skip_norm_wip())));
            if of_trait {
                let tr = tcx.impl_trait_ref(did).instantiate_identity().skip_norm_wip();
                io.put("trait", J::s(tcx.def_path_str(tr.def_id)));
                io.put("trait_full", J::s(format!("{}", tr.print_only_trait_path())));
            }
            let (f, l) = loc(tcx, tcx.def_span(did));
            io.put("file", J::s(f));
            io.put("line", J::UInt(l as u128));
            let isp = tcx.def_span(did);
            if isp.from_expansion() {
                io.put("span", span_json(tcx, isp));
            }
            impls.push(io);
        }
    }
    root.put("impls", J::Arr(impls));
    root
}
