"""R11 - length typestate for the operands of `montgomery` (C05).

`montgomery(x, y, m, k, n)` requires len(x) == len(y) == len(m) == n (it asserts it and indexes with it).  In `monty_modpow`
n is `m.data.len()`; every BigUint handed to `montgomery` must therefore have exactly that many digits on every path.  The
analysis is a forward dataflow over monty_modpow's MIR.  Per BigUint local (and per Vec<BigUint> local, for its elements)
the state is a subset of {le, ge} ("length <= n", "length >= n"; both = exactly n) plus `opaque` (state lost through an
operation the analysis does not model - reported as undecided, never as a violation).

    clone of a parameter / one() / any value of unknown length     {}          (known: nothing)
    x %= m, (..) % m          (remainder < m, both canonical)       {le}
    v.data.resize(n, 0)                                             {le, ge}
    result of montgomery()    (returns n digits: checked on its body) {le, ge}
    false edge of len > n -> le;  false edge of len < n -> ge;  == true -> both;  Ordering arms of len.cmp(&n) likewise
    mem::swap(a, b) swaps; moves/clones copy; push into a Vec meets; indexing a Vec reads its element state
    any other call that receives `&mut v` or `&mut v.data`          opaque
"""
from . import core
from .core import Finding, callee, callee_name, op_local

LE, GE, OPQ = "le", "ge", "opaque"
EQ = frozenset((LE, GE))
TOP = None  # unreachable


def _base(b, l, depth=0):
    """(local, fields) that a reference local points to (through single-definition refs / reborrows), else (l, ())"""
    if depth > 8:
        return (l, ())
    ty = b.local_ty(l)
    if not ty.startswith("&") or b.is_param(l):
        return (l, ())
    ds = b.defs().get(l, [])
    if len(ds) != 1 or ds[0][0] != "assign":
        return (l, ())
    rv = ds[0][3]["rv"]
    if rv["k"] in ("ref", "copyforderef", "rawptr"):
        pl = rv["place"]
    elif rv["k"] == "use" and core.op_place(rv["op"]):
        pl = rv["op"]["place"]
    else:
        return (l, ())
    inner = _base(b, pl["local"], depth + 1)
    f = tuple(e.get("name") for e in pl["proj"] if e["k"] == "field")
    return (inner[0], inner[1] + f)


def _copy_root(b, l):
    for _ in range(10):
        ds = b.defs().get(l, [])
        if b.is_param(l) or len(ds) != 1 or ds[0][0] != "assign" or b.partial_defs().get(l):
            return l
        rv = ds[0][3]["rv"]
        if rv["k"] == "use" and rv["op"]["k"] != "const" and not rv["op"]["place"]["proj"]:
            l = rv["op"]["place"]["local"]
        elif rv["k"] == "cast" and rv["op"]["k"] != "const" and not rv["op"]["place"]["proj"]:
            l = rv["op"]["place"]["local"]
        else:
            return l
    return l


def _join(a, c):
    if a is TOP:
        return c
    if c is TOP:
        return a
    out = {}
    for k in set(a) | set(c):
        x, y = a.get(k, frozenset()), c.get(k, frozenset())
        s = (x & y) - {OPQ}
        if OPQ in x or OPQ in y:
            s = s | {OPQ}
        out[k] = frozenset(s)
    return out


def check_montgomery_result_length(ctx, res, config="all"):
    """montgomery returns exactly n digits: every store to the result's digit vector that reaches the return is `to_vec()` of a
    slice of the 2n-digit accumulator cut at n."""
    facts = ctx.facts(config)
    b = facts.body("biguint::monty::montgomery")
    if b is None:
        res.fail(Finding("R11-anchor-lost", "montgomery", "function not found", file="src/biguint/monty.rs", line=0))
        return
    # n: the value the 2n-digit accumulator is sized from (a parameter, or a field of the reducer struct copied into a local)
    n_param = None
    for i, t in b.calls():
        if callee_name(t) in ("resize", "from_elem") and i in b.live_blocks() and len(t["args"]) >= 2 and t["args"][1]["k"] != "const":
            l_ = _copy_root(b, t["args"][1]["place"]["local"])
            for d in b.defs().get(l_, []):
                cand = []
                if d[0] == "assign" and d[3]["rv"]["k"] == "binop":
                    cand.append(d[3]["rv"])
                if d[0] == "assign" and d[3]["rv"]["k"] == "use" and core.op_place(d[3]["rv"]["op"]):
                    d2 = b.defs().get(core.op_place(d[3]["rv"]["op"])["local"], [])
                    if d2 and d2[0][0] == "assign" and d2[0][3]["rv"]["k"] == "binop":
                        cand.append(d2[0][3]["rv"])
                for rv in cand:
                    if rv["op"].startswith("Mul"):
                        for o, o2 in ((rv["a"], rv["b"]), (rv["b"], rv["a"])):
                            if o2["k"] == "const" and core.op_const(o2) == 2 and o["k"] != "const":
                                n_param = _copy_root(b, o["place"]["local"])
    if n_param is None:
        n_param = 5
    stores = []
    for i, si, s in b.stmts():
        if s["k"] == "assign" and s["place"]["proj"] and s["place"]["proj"][-1].get("name") == "data" and i in b.live_blocks():
            stores.append((i, s))
    good = 0
    for i, s in stores:
        # value comes from to_vec(index(&z.data, Range{From,To}{ n }))
        l = op_local(s["rv"]["op"]) if s["rv"]["k"] == "use" else None
        ok = False
        if l is not None:
            ds = b.defs().get(l, [])
            if len(ds) == 1 and ds[0][0] == "call" and callee_name(ds[0][2]) == "to_vec":
                src = op_local(ds[0][2]["args"][0])
                # walk to the index call
                for _ in range(4):
                    dd = b.defs().get(src, [])
                    if len(dd) == 1 and dd[0][0] == "call" and callee_name(dd[0][2]) == "index":
                        t = dd[0][2]
                        ce = (t["func"].get("fn") or {}).get("full") or callee(t) or ""
                        rng = op_local(t["args"][1])
                        rd = b.defs().get(rng, [])
                        if ("RangeFrom" in ce or "RangeTo" in ce) and len(rd) == 1 and rd[0][0] == "assign" and rd[0][3]["rv"]["k"] == "aggregate":
                            bound = rd[0][3]["rv"]["ops"][0]
                            if bound["k"] != "const" and _copy_root(b, bound["place"]["local"]) == n_param:
                                ok = True
                        break
                    if len(dd) == 1 and dd[0][0] == "assign" and dd[0][3]["rv"]["k"] in ("ref", "use", "copyforderef"):
                        pl = dd[0][3]["rv"].get("place") or core.op_place(dd[0][3]["rv"].get("op"))
                        if pl is None:
                            break
                        src = pl["local"]
                    else:
                        break
        if ok:
            good += 1
    # the accumulator is resized to n * 2
    acc = False
    for i, t in b.calls():
        if callee_name(t) in ("resize", "from_elem") and i in b.live_blocks() and len(t["args"]) >= 2:
            a = t["args"][1]
            if a["k"] != "const":
                dd = b.defs().get(_copy_root(b, a["place"]["local"]), [])
                for d in dd:
                    cand = []
                    if d[0] == "assign" and d[3]["rv"]["k"] == "binop":
                        cand.append(d[3]["rv"])
                    if d[0] == "assign" and d[3]["rv"]["k"] == "use" and core.op_place(d[3]["rv"]["op"]):
                        src = core.op_place(d[3]["rv"]["op"])["local"]
                        d2 = b.defs().get(src, [])
                        if d2 and d2[0][0] == "assign" and d2[0][3]["rv"]["k"] == "binop":
                            cand.append(d2[0][3]["rv"])
                    for rv in cand:
                        if rv["op"].startswith("Mul"):
                            ops = [rv["a"], rv["b"]]
                            if any(o["k"] == "const" and core.op_const(o) == 2 for o in ops) and any(o["k"] != "const" and _copy_root(b, o["place"]["local"]) == n_param for o in ops):
                                acc = True
    # the same cut done in place: truncate(n) keeps the low half, drain(..n) removes it - both leave n digits of the 2n
    cuts = []
    cut_bad = 0
    for i, t in b.calls():
        nm = callee_name(t)
        if i not in b.live_blocks() or nm not in ("truncate", "drain") or len(t["args"]) < 2:
            continue
        a = t["args"][1]
        ok_ = False
        if nm == "truncate" and a["k"] != "const":
            ok_ = _copy_root(b, a["place"]["local"]) == n_param
        elif nm == "drain" and a["k"] != "const":
            rd = b.defs().get(op_local(a), []) if op_local(a) is not None else []
            ce = (t["func"].get("fn") or {}).get("full") or callee(t) or ""
            if len(rd) == 1 and rd[0][0] == "assign" and rd[0][3]["rv"]["k"] == "aggregate" and rd[0][3]["rv"]["ops"] and "RangeTo" in (ce + str(b.local_ty(op_local(a)))):
                bound = rd[0][3]["rv"]["ops"][0]
                ok_ = bound["k"] != "const" and _copy_root(b, bound["place"]["local"]) == n_param
        cuts.append(i)
        if not ok_:
            cut_bad += 1
    if acc and cuts and not stores and cut_bad == 0:
        # every return must pass one of the cuts
        rets = b.return_blocks()
        uncut = [r for r in rets if r in b.reachable(0, without_blocks=cuts)]
        if not uncut:
            res.ok("R11-montgomery-result-length", "montgomery", {"in_place_cuts": len(cuts), "accumulator": "2n"})
            res.clause("R11: montgomery's result has exactly n digits (the 2n accumulator is cut at n on every path: to_vec of a half, truncate(n) or drain(..n))")
            return
    if stores and good == len(stores) and acc and cut_bad == 0:
        res.ok("R11-montgomery-result-length", "montgomery", {"stores_to_result_digits": len(stores), "accumulator": "resize(n * 2, 0)"})
    else:
        res.fail(Finding("R11-montgomery-result-length", "montgomery", "the result's digit vector is not on every path a slice of the 2n-digit accumulator cut at n (%d of %d stores recognised, accumulator 2n: %s): monty_modpow relies on n-digit results" % (good, len(stores), acc), b))
    res.clause("R11: montgomery's result has exactly n digits (each store to its digit vector is to_vec() of the 2n accumulator cut at n)")


def check_montgomery_operand_lengths(ctx, res, config="all"):
    facts = ctx.facts(config)
    b = facts.body("biguint::monty::monty_modpow")
    if b is None:
        res.fail(Finding("R11-anchor-lost", "monty_modpow", "function not found", file="src/biguint/monty.rs", line=0))
        return
    # a private constructor that packs (m, n0inv, len(m)) into a struct is looked through
    b = core.inline_private(facts, b, keep=("montgomery",))
    live = b.live_blocks()
    M = 3  # parameter m
    mont = facts.body("biguint::monty::montgomery")
    big_params = [k for k in range(1, (mont.arg_count if mont else 0) + 1) if mont.local_ty(k).replace("'_ ", "") in ("&biguint::BigUint",)] if mont else [1, 2, 3]
    # n-values: locals whose copy root is `len(&(*m).data)`
    nroots = set()
    for i, t in b.calls():
        if callee_name(t) == "len" and t["args"]:
            base = _base(b, op_local(t["args"][0])) if op_local(t["args"][0]) is not None else None
            if base and base[0] == M and base[1] == ("data",):
                nroots.add(t["dest"]["local"])

    def field_source(pl, depth=0):
        """operand stored into field `pl.proj` of the struct local `pl.local` (followed through whole-struct moves)"""
        l = pl["local"]
        for _ in range(8):
            ds = b.defs().get(l, [])
            if len(ds) != 1 or ds[0][0] != "assign":
                return None
            rv = ds[0][3]["rv"]
            if rv["k"] == "use" and rv["op"]["k"] != "const" and not rv["op"]["place"]["proj"]:
                l = rv["op"]["place"]["local"]
                continue
            if rv["k"] == "aggregate" and rv.get("fields"):
                nm = [e.get("name") for e in pl["proj"] if e["k"] == "field"]
                if len(nm) == 1 and nm[0] in rv["fields"]:
                    return rv["ops"][rv["fields"].index(nm[0])]
            return None
        return None

    def is_n(o, depth=0):
        if o["k"] == "const" or depth > 4:
            return False
        pl = o["place"]
        fproj = [e for e in pl["proj"] if e["k"] == "field"]
        if fproj:
            base_l = _base(b, pl["local"])[0] if [e for e in pl["proj"] if e["k"] == "deref"] else pl["local"]
            src = field_source({"local": base_l, "proj": fproj})
            return src is not None and is_n(src, depth + 1)
        l = _copy_root(b, pl["local"])
        if l in nroots:
            return True
        # a copy of a struct field (`let n = mr.num_words`)
        ds = b.defs().get(l, [])
        if len(ds) == 1 and ds[0][0] == "assign" and ds[0][3]["rv"]["k"] == "use" and ds[0][3]["rv"]["op"]["k"] != "const" and ds[0][3]["rv"]["op"]["place"]["proj"]:
            return is_n(ds[0][3]["rv"]["op"], depth + 1)
        return False

    def is_m(o):
        l = op_local(o)
        if l is None:
            return False
        l = _copy_root(b, l)
        return l == M or _base(b, l)[0] == M and not _base(b, l)[1]

    def len_of(o):
        """local X when operand is `len(&X.data)`"""
        if o["k"] == "const" or o["place"]["proj"]:
            return None
        l = _copy_root(b, o["place"]["local"])
        ds = b.defs().get(l, [])
        if len(ds) == 1 and ds[0][0] == "call" and callee_name(ds[0][2]) == "len" and ds[0][2]["args"]:
            a = op_local(ds[0][2]["args"][0])
            if a is None:
                return None
            base = _base(b, a)
            if base[1] == ("data",) and "BigUint" in b.local_ty(base[0]):
                return base[0]
        return None

    def big(l):
        ty = b.local_ty(l)
        return ty == "biguint::BigUint" or ty == "alloc::vec::Vec<biguint::BigUint>"

    tracked = [l for l in range(len(b.locals)) if big(l)]

    # edge refinements from switches
    def refinements(i):
        """{target_block: (local, flags-to-add)}"""
        t = b.blocks[i]["term"]
        out = {}
        if t["k"] != "switch" or t["discr"]["k"] == "const":
            return out
        dl = t["discr"]["place"]["local"]
        ds = b.defs().get(_copy_root(b, dl), [])
        if len(ds) != 1:
            return out
        d = ds[0]
        targets = t["targets"]  # [[value, bb], ...]
        otherwise = t.get("otherwise")
        if d[0] == "assign" and d[3]["rv"]["k"] == "binop" and d[3]["rv"]["op"] in ("Lt", "Le", "Gt", "Ge", "Eq", "Ne"):
            rv = d[3]["rv"]
            op = rv["op"]
            x = len_of(rv["a"])
            flip = False
            if x is not None and is_n(rv["b"]):
                pass
            else:
                x = len_of(rv["b"])
                if x is None or not is_n(rv["a"]):
                    return out
                op = {"Lt": "Gt", "Gt": "Lt", "Le": "Ge", "Ge": "Le"}.get(op, op)
            tfacts = {"Lt": (set(), {GE}), "Gt": (set(), {LE}), "Le": ({LE}, set()), "Ge": ({GE}, set()), "Eq": ({LE, GE}, set()), "Ne": (set(), {LE, GE})}[op]
            for v, bb in targets:
                if v == 0:
                    out[bb] = (x, tfacts[1])
            if otherwise is not None:
                out[otherwise] = (x, tfacts[0])
            return out
        # match len.cmp(&n) { Less, Equal, Greater }
        if d[0] == "assign" and d[3]["rv"]["k"] == "discriminant":
            ol = d[3]["rv"]["place"]["local"]
            od = b.defs().get(_copy_root(b, ol), [])
            if len(od) == 1 and od[0][0] == "call" and callee_name(od[0][2]) in ("cmp",) and len(od[0][2]["args"]) == 2:
                a0, a1 = od[0][2]["args"]

                def deref_len(o):
                    l = op_local(o)
                    if l is None:
                        return None, False
                    base = _base(b, l)
                    if base[1]:
                        return None, False
                    fake = {"k": "copy", "place": {"local": base[0], "proj": []}}
                    return len_of(fake), is_n(fake)

                x0, n0 = deref_len(a0)
                x1, n1 = deref_len(a1)
                x = None
                swap = False
                if x0 is not None and n1:
                    x = x0
                elif x1 is not None and n0:
                    x, swap = x1, True
                if x is None:
                    return out
                arm = {"less": {LE}, "equal": {LE, GE}, "greater": {GE}}
                if swap:
                    arm = {"less": {GE}, "equal": {LE, GE}, "greater": {LE}}
                seen_vals = set()
                for v, bb in targets:
                    seen_vals.add(v)
                    if v in (255, -1, (1 << 64) - 1, (1 << 128) - 1):
                        out[bb] = (x, arm["less"])
                    elif v == 0:
                        out[bb] = (x, arm["equal"])
                    elif v == 1:
                        out[bb] = (x, arm["greater"])
                return out
        return out

    def set_state(st, l, flags):
        st = dict(st)
        st[l] = frozenset(flags)
        return st

    problems = []
    undecided = []
    ncalls = 0

    def state_of_operand(st, o):
        """state of the BigUint a reference operand points to"""
        l = op_local(o)
        if l is None:
            return frozenset()
        base = _base(b, l)
        root = base[0]
        # an element of a Vec<BigUint>: reference produced by index()/index_mut()/get()
        ds = b.defs().get(root, [])
        if len(ds) == 1 and ds[0][0] == "call" and callee_name(ds[0][2]) in ("index", "index_mut", "get_unchecked", "deref"):
            v = op_local(ds[0][2]["args"][0])
            if v is not None:
                vb = _base(b, v)[0]
                if b.local_ty(vb) == "alloc::vec::Vec<biguint::BigUint>":
                    return st.get(vb, frozenset())
                return state_of_operand(st, ds[0][2]["args"][0])
        if big(root):
            return st.get(root, frozenset())
        return frozenset((OPQ,))

    def transfer(i, st, report):
        nonlocal ncalls
        blk = b.blocks[i]
        for s in blk["stmts"]:
            if s["k"] != "assign" or s["place"]["proj"]:
                continue
            d = s["place"]["local"]
            if not big(d):
                continue
            rv = s["rv"]
            if rv["k"] == "use" and rv["op"]["k"] != "const" and not rv["op"]["place"]["proj"] and big(rv["op"]["place"]["local"]):
                st = set_state(st, d, st.get(rv["op"]["place"]["local"], frozenset()))
            else:
                st = set_state(st, d, frozenset())
        t = blk["term"]
        if t["k"] != "call":
            return st
        nm = callee_name(t) or ""
        ce = callee(t) or ""
        d = t["dest"]["local"] if not t["dest"]["proj"] else None
        args = t["args"]
        if ce == "biguint::monty::montgomery":
            if report:
                ncalls += 1
                for k in [k_ - 1 for k_ in big_params if k_ - 1 < len(args) and not is_m(args[k_ - 1])]:
                    sa = state_of_operand(st, args[k])
                    if not EQ <= sa:
                        key = "arg%d@line%s" % (k + 1, t["span"]["line"])
                        l = op_local(args[k])
                        root = _base(b, l)[0] if l is not None else None
                        nmv = b.locals[root].get("name") if root is not None else None
                        what = "`%s`" % nmv if nmv else "operand %d" % (k + 1)
                        if OPQ in sa:
                            undecided.append((what, t["span"]["line"]))
                        else:
                            have = "nothing" if not sa else ("length <= n" if LE in sa else "length >= n")
                            problems.append((what, k + 1, t["span"]["line"], have))
                if len(args) == 5 and (not is_n(args[4]) or not is_m(args[2])):
                    undecided.append(("modulus / n arguments", t["span"]["line"]))
            if d is not None:
                st = set_state(st, d, EQ)
            return st
        if nm == "clone" and d is not None and big(d) and args:
            l = op_local(args[0])
            src = _base(b, l)[0] if l is not None else None
            if src is not None and big(src) and not b.is_param(src):
                st = set_state(st, d, state_of_operand(st, args[0]) - {OPQ})
            else:
                # clone of a parameter or of a vector element
                so = state_of_operand(st, args[0])
                st = set_state(st, d, frozenset() if OPQ in so else so)
            return st
        if nm == "resize" and args:
            l = op_local(args[0])
            base = _base(b, l) if l is not None else None
            if base and big(base[0]) and base[1] == ("data",):
                st = set_state(st, base[0], EQ if (is_n(args[1]) and args[2]["k"] == "const" and core.op_const(args[2]) == 0) else frozenset((OPQ,)))
                return st
        if nm == "rem_assign" and args and is_m(args[1]):
            l = op_local(args[0])
            base = _base(b, l) if l is not None else None
            if base and big(base[0]) and not base[1]:
                return set_state(st, base[0], frozenset((LE,)))
        if nm == "rem" and len(args) == 2 and is_m(args[1]) and d is not None and big(d):
            return set_state(st, d, frozenset((LE,)))
        if nm == "swap" and len(args) == 2:
            la, lb = op_local(args[0]), op_local(args[1])
            if la is not None and lb is not None:
                ba, bb_ = _base(b, la), _base(b, lb)
                if big(ba[0]) and big(bb_[0]) and not ba[1] and not bb_[1]:
                    sa, sb = st.get(ba[0], frozenset()), st.get(bb_[0], frozenset())
                    st = set_state(st, ba[0], sb)
                    return set_state(st, bb_[0], sa)
        if nm == "push" and len(args) == 2:
            l = op_local(args[0])
            base = _base(b, l) if l is not None else None
            if base and b.local_ty(base[0]) == "alloc::vec::Vec<biguint::BigUint>":
                el = op_local(args[1])
                es = st.get(el, frozenset()) if el is not None and big(el) else frozenset((OPQ,))
                cur = st.get(base[0])
                new = es if cur is None or cur == "empty" else frozenset(((cur & es) - {OPQ}) | ({OPQ} if OPQ in cur or OPQ in es else set()))
                return set_state(st, base[0], new)
        if nm in ("with_capacity", "new") and d is not None and b.local_ty(d) == "alloc::vec::Vec<biguint::BigUint>":
            return set_state(st, d, EQ)  # empty vector: every element (there is none) has n digits
        # any other call: results of unknown length; `&mut` access to a tracked value loses its state
        if d is not None and big(d):
            st = set_state(st, d, frozenset())
        for a in args:
            l = op_local(a)
            if l is None:
                continue
            ty = b.local_ty(l)
            if ty.startswith("&mut"):
                base = _base(b, l)
                if big(base[0]) and nm not in ("len", "index", "iter", "deref", "index_mut"):
                    st = set_state(st, base[0], frozenset((OPQ,)))
            elif a["k"] == "move" and big(l):
                pass
        return st

    # forward dataflow
    init = {}
    IN = {0: init}
    work = [0]
    rounds = 0
    while work and rounds < 5000:
        rounds += 1
        i = work.pop()
        st = IN[i]
        out = transfer(i, st, False)
        ref = refinements(i)
        for sx in b.succ(i):
            so = out
            if sx in ref:
                x, add = ref[sx]
                cur = so.get(x, frozenset())
                so = set_state(so, x, frozenset(cur | add))
            new = _join(IN.get(sx, TOP), so)
            if new != IN.get(sx, TOP):
                IN[sx] = new
                work.append(sx)
    for i in sorted(IN):
        if i in live:
            transfer(i, IN[i], True)
    if not nroots:
        res.fail(Finding("R11-anchor-lost", "num_words", "no `m.data.len()` value found in monty_modpow", b))
    if ncalls < 5:
        res.fail(Finding("R11-anchor-lost", "montgomery-calls", "only %d montgomery calls found in monty_modpow (floor 5)" % ncalls, b))
    seen = set()
    for (what, k, line, have) in problems:
        key = "%s|arg%d" % (what, k)
        if key in seen:
            continue
        seen.add(key)
        res.fail(Finding("R11-montgomery-operand-length", "monty_modpow|" + key, "%s reaches montgomery (line %s) on some path without its length having been brought to exactly n = m.data.len() (established: %s): montgomery's length assertion fails for such inputs" % (what, line, have), b, line))
    for (what, line) in undecided:
        res.note("R11: length of %s at the montgomery call on line %s not decided (an operation on it is not modelled)" % (what, line))
    if not problems:
        res.ok("R11-montgomery-operand-length", "monty_modpow", {"montgomery_calls": ncalls, "undecided_operands": len(undecided), "tracked_locals": len(tracked)})
    res.clause("R11: every BigUint handed to montgomery in monty_modpow has exactly m.data.len() digits on every path (forward length typestate: % m gives <= n, failed < / > tests refine, resize(n, 0) and montgomery results give == n)")
