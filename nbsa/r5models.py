"""call models for the R5 abstract interpreter: the semantics of resolved callees as abstract values"""
import re
from .poly import Poly
from .r5 import (
    BIGINT, BOOL, ENUM, INT, MAG, OPAQUE, ORD, PTR, SIGN, SIGNED, STRUCT, TUPLE, UNIT, UNSIGNED,
    DivByZero, NeedFork, Unsupported, bigint_value, strip_refs,
)

ARITH_TRAITS = {
    "core::ops::Add": "add", "core::ops::Sub": "sub", "core::ops::Mul": "mul", "core::ops::Div": "div", "core::ops::Rem": "rem",
    "core::ops::AddAssign": "add=", "core::ops::SubAssign": "sub=", "core::ops::MulAssign": "mul=", "core::ops::DivAssign": "div=", "core::ops::RemAssign": "rem=",
    "core::ops::Shl": "shl", "core::ops::Shr": "shr", "core::ops::ShlAssign": "shl=", "core::ops::ShrAssign": "shr=",
    "core::ops::Neg": "neg",
    "core::ops::BitAnd": "bitand", "core::ops::BitOr": "bitor", "core::ops::BitXor": "bitxor",
    "core::ops::BitAndAssign": "bitand=", "core::ops::BitOrAssign": "bitor=", "core::ops::BitXorAssign": "bitxor=",
}


def BIGVAL(p):
    return ("bigval", p)


def is_bigint(v):
    return (v[0] == "struct" and v[1] == "bigint::BigInt") or v[0] == "bigval"


def int_value(v):
    if v[0] == "bigval":
        return v[1]
    return bigint_value(v)


def ret(st, v):
    return [("return", st, v)]


def opaque_sym(name, *polys):
    return Poly.sym("%s(%s)" % (name, ",".join(repr(p) for p in polys)))


def as_number(it, st, v):
    """(kind, poly) with kind in 'mag','int','big' for an operand value (references followed)"""
    v = it.deref_all(st, v)
    if v[0] == "mag":
        return "mag", v[1], v
    if v[0] == "int":
        return "int", v[1], v
    if is_bigint(v):
        return "big", int_value(v), v
    raise Unsupported("numeric operand of kind %s" % v[0])


def bigint_from_value_sign(st, s, p):
    """canonical BigInt with nominal sign s and magnitude p"""
    if s == 0:
        return BIGINT(SIGN(0), Poly())
    kz = st.known_zero(p)
    if kz is True:
        return BIGINT(SIGN(0), Poly())
    if kz is False:
        return BIGINT(SIGN(s), p)
    return BIGINT(SIGN(s, p), p)


def cmp_polys(st, x, y):
    d = x - y
    if d.is_const():
        c = d.const_value()
        return -1 if c < 0 else (1 if c > 0 else 0)
    if (repr(x), repr(y)) in st.lt:
        return -1
    if (repr(y), repr(x)) in st.lt:
        return 1
    # x vs 0
    if y.is_zero() or x.is_zero():
        p = x if y.is_zero() else y
        kz = st.known_zero(p)
        if kz is None:
            raise NeedFork(("zero", p))
        if kz:
            return 0
        return 1 if y.is_zero() else -1
    raise NeedFork(("cmp", x, y))


def prim_bits(ty):
    return {"8": 8, "16": 16, "32": 32, "64": 64, "128": 128, "size": 64}.get(ty[1:], 64)


def dispatch(it, body, st, t, fn, args, depth):
    raw = fn.get("raw") or ""
    path = fn.get("path") or raw
    name = fn.get("raw_name")
    tr = fn.get("impl_trait") or fn.get("raw_trait")
    iself = fn.get("impl_self") or ""
    dest_ty = t["dest"]["ty"]

    # ---- plumbing
    if raw == "core::clone::Clone::clone":
        return ret(st, it.deref_all(st, args[0]))
    if raw in ("core::ops::Deref::deref", "core::ops::DerefMut::deref_mut", "core::borrow::Borrow::borrow", "core::convert::AsRef::as_ref", "core::borrow::BorrowMut::borrow_mut"):
        return ret(st, args[0])
    if raw in ("core::mem::replace",):
        old = it.load(st, args[0])
        it.store(st, args[0][1], args[0][2], args[1])
        return ret(st, old)
    if raw in ("core::mem::take",):
        old = it.load(st, args[0])
        z = BIGINT(SIGN(0), Poly()) if "BigInt" in dest_ty else MAG(0)
        it.store(st, args[0][1], args[0][2], z)
        return ret(st, old)
    if raw == "core::mem::swap":
        a, b = it.load(st, args[0]), it.load(st, args[1])
        it.store(st, args[0][1], args[0][2], b)
        it.store(st, args[1][1], args[1][2], a)
        return ret(st, UNIT)
    if raw == "core::convert::Into::into" or raw == "core::convert::From::from":
        src = it.deref_all(st, args[0]) if args[0][0] == "ptr" and not dest_ty.startswith("&") else args[0]
        d = strip_refs(dest_ty)
        if len(d) <= 2 and d[:1].isupper() and src[0] == "mag":
            # `T::from(BigUint)` inside a generic private helper (T = BigUint or BigInt at the call sites): the value is the
            # same non-negative number in either type; keep it as a magnitude, which the arithmetic models add to both
            return ret(st, src)
        if src[0] == "int":
            if d == "biguint::BigUint":
                return ret(st, MAG(src[1]))
            if d == "bigint::BigInt":
                return ret(st, bigint_from_int_poly(it, st, src))
            if d in UNSIGNED or d in SIGNED:
                return ret(st, INT(src[1], d))
        if src[0] == "mag":
            if d == "bigint::BigInt":
                return ret(st, bigint_from_value_sign(st, 1, src[1]))
            if d == "biguint::BigUint":
                return ret(st, src)
        if is_bigint(src) and d == "bigint::BigInt":
            return ret(st, src)
        if src[0] == "bool" and (d in UNSIGNED or d in SIGNED):
            return ret(st, INT(1 if src[1] else 0, d))
        return None  # fall back to inlining a local impl

    # ---- panic-message formatting: irrelevant for values
    if raw.startswith("core::fmt::") or (path or "").startswith("core::fmt::"):
        return ret(st, OPAQUE("fmt"))
    if name in ("set_zero", "set_one") and len(args) == 1 and args[0][0] == "ptr":
        cur = it.load(st, args[0])
        if cur[0] == "mag":
            it.store(st, args[0][1], args[0][2], MAG(0 if name == "set_zero" else 1))
            return ret(st, UNIT)
    # ---- digit-level views and helpers used by the BigInt bit operators (effects on the magnitude are opaque)
    if tr == "biguint::IntDigits" and name in ("digits_mut", "digits") and args and args[0][0] == "ptr":
        v = it.load(st, args[0])
        a0 = args[0]
        while v[0] == "ptr":
            a0 = v
            v = it.load(st, a0)
        if v[0] == "struct" and v[1] == "bigint::BigInt":
            return ret(st, PTR(a0[1], a0[2] + ("data",)))
        if v[0] == "mag":
            return ret(st, a0)
    if tr == "biguint::IntDigits" and name in ("len", "capacity") and args:
        v = it.deref_all(st, args[0])
        m = v[2]["data"][1] if v[0] == "struct" else (v[1] if v[0] == "mag" else None)
        if m is not None:
            return ret(st, INT(opaque_sym(name, m), "usize"))
    if path.startswith("bigint::bits::bit") and len(args) == 2 and args[0][0] == "ptr":
        a = it.deref_all(st, args[0])
        b_ = it.deref_all(st, args[1])
        if a[0] == "mag" and b_[0] == "mag":
            it.store(st, args[0][1], args[0][2], MAG(opaque_sym(path.split("::")[-1], a[1], b_[1])))
            return ret(st, UNIT)
    if path == "biguint::BigUint::normalize" and args and args[0][0] == "ptr":
        v = it.deref_all(st, args[0])
        if v[0] == "mag":
            return ret(st, UNIT)
    if raw == "core::clone::Clone::clone_from" and len(args) == 2 and args[0][0] == "ptr":
        it.store(st, args[0][1], args[0][2], it.deref_all(st, args[1]))
        return ret(st, UNIT)
    # ---- identities / predicates
    if raw == "num_traits::Zero::zero" or raw == "num_traits::identities::Zero::zero":
        d = strip_refs(dest_ty)
        return ret(st, BIGINT(SIGN(0), Poly()) if d == "bigint::BigInt" else (MAG(0) if d == "biguint::BigUint" else INT(0, d)))
    if raw in ("num_traits::One::one", "num_traits::identities::One::one"):
        d = strip_refs(dest_ty)
        return ret(st, BIGINT(SIGN(1), Poly.const(1)) if d == "bigint::BigInt" else (MAG(1) if d == "biguint::BigUint" else INT(1, d)))
    if name == "is_zero" and len(args) == 1:
        v = it.deref_all(st, args[0])
        if v[0] in ("mag", "int"):
            kz = st.known_zero(v[1])
            if kz is None:
                raise NeedFork(("zero", v[1]))
            return ret(st, BOOL(kz))
        if v[0] == "struct" and v[1] == "bigint::BigInt":
            s = v[2]["sign"]
            if s[2] is not None:
                raise NeedFork(("zero", s[2]))
            return ret(st, BOOL(s[1] == 0))
        if v[0] == "bigval":
            p = v[1]
            kz = st.known_zero(p)
            if kz is None and all(c < 0 for c in p.t.values()):
                kz = st.known_zero(-p)
            if kz is not None:
                return ret(st, BOOL(kz))
            if all(c > 0 for c in p.t.values()) or all(c < 0 for c in p.t.values()):
                raise NeedFork(("zero", p if all(c > 0 for c in p.t.values()) else -p))
            raise Unsupported("is_zero of computed BigInt %r" % (p,))
    if name == "is_one" and len(args) == 1:
        v = it.deref_all(st, args[0])
        if v[0] == "mag":
            p = v[1]
            if p.is_const():
                return ret(st, BOOL(p.const_value() == 1))
            key = "is_one(%r)" % (p,)
            if key not in st.bools:
                raise NeedFork(("bool", key))
            if st.bools[key] and p.single_symbol():
                st.substitute(p.single_symbol(), Poly.const(1))
            if not st.bools[key]:
                st.nzp.add(repr(p - 1))
            return ret(st, BOOL(st.bools[key]))
    if name in ("is_negative", "is_positive") and len(args) == 1:
        v = it.deref_all(st, args[0])
        if v[0] == "struct" and v[1] == "bigint::BigInt":
            s = v[2]["sign"]
            if s[2] is not None:
                raise NeedFork(("zero", s[2]))
            return ret(st, BOOL(s[1] == (-1 if name == "is_negative" else 1)))
        if v[0] == "int":
            return ret(st, it.binop(st, "Lt" if name == "is_negative" else "Gt", v, INT(0, v[2])))
    if name in ("is_odd", "is_even") and len(args) == 1:
        v = it.deref_all(st, args[0])
        kind, p, _ = as_number(it, st, v)
        if p.is_const():
            odd = p.const_value() % 2 == 1
        else:
            key = "is_odd(%r)" % (p,)
            if key not in st.bools:
                raise NeedFork(("bool", key))
            odd = st.bools[key]
            if odd and p.single_symbol():
                st.nz.add(p.single_symbol())
        return ret(st, BOOL(odd if name == "is_odd" else not odd))

    # ---- comparisons on magnitudes / scalars
    if name in ("cmp", "partial_cmp", "lt", "le", "gt", "ge", "eq", "ne") and len(args) == 2:
        a = it.deref_all(st, args[0])
        b = it.deref_all(st, args[1])
        if a[0] in ("mag", "int") and b[0] in ("mag", "int"):
            o = cmp_polys(st, a[1], b[1])
            if name == "cmp":
                return ret(st, ORD(o))
            if name == "partial_cmp":
                return ret(st, ENUM("core::option::Option", "Some", [ORD(o)]))
            return ret(st, BOOL({"lt": o < 0, "le": o <= 0, "gt": o > 0, "ge": o >= 0, "eq": o == 0, "ne": o != 0}[name]))
        if a[0] == "sign" and b[0] == "sign":
            for s in (a, b):
                if s[2] is not None:
                    raise NeedFork(("zero", s[2]))
            # derived Ord on Sign: declaration order Minus < NoSign < Plus
            o = (a[1] > b[1]) - (a[1] < b[1])
            if name == "cmp":
                return ret(st, ORD(o))
            if name in ("eq", "ne"):
                return ret(st, BOOL((o == 0) == (name == "eq")))
            return ret(st, BOOL({"lt": o < 0, "le": o <= 0, "gt": o > 0, "ge": o >= 0}[name]))
        if a[0] == "ord" and b[0] == "ord" and name in ("eq", "ne"):
            return ret(st, BOOL((a[1] == b[1]) == (name == "eq")))
        if is_bigint(a) and is_bigint(b) and (a[0] == "bigval" or b[0] == "bigval"):
            d = int_value(a) - int_value(b)
            if d.is_const():
                c = d.const_value()
                o = (c > 0) - (c < 0)
                if name == "cmp":
                    return ret(st, ORD(o))
                return ret(st, BOOL({"lt": o < 0, "le": o <= 0, "gt": o > 0, "ge": o >= 0, "eq": o == 0, "ne": o != 0}[name]))
            raise Unsupported("comparison of computed BigInt values")
        if a[0] == "struct" and b[0] == "struct" and a[1] == "bigint::BigInt" and b[1] == "bigint::BigInt" and name in ("lt", "le", "gt", "ge", "partial_cmp"):
            # default methods of core::cmp::PartialOrd: defined through the crate's own Ord::cmp, which we interpret
            cb = it.facts.find(trait="core::cmp::Ord", self_ty="bigint::BigInt", name="cmp")
            if len(cb) == 1:
                outs = []
                ca, cb_ = st.fresh("cmpa"), st.fresh("cmpb")
                st.env[ca] = a
                st.env[cb_] = b
                for o in it.run_body(cb[0], st, [PTR(ca), PTR(cb_)], depth + 1):
                    if o[0] != "return":
                        raise Unsupported("Ord::cmp reaches %s" % o[0])
                    ov = o[2][1]
                    if name == "partial_cmp":
                        outs.append(("return", o[1], ENUM("core::option::Option", "Some", [ORD(ov)])))
                    else:
                        outs.append(("return", o[1], BOOL({"lt": ov < 0, "le": ov <= 0, "gt": ov > 0, "ge": ov >= 0}[name])))
                return outs
        return None  # BigInt vs BigInt: inline the crate's own impl

    # ---- arithmetic operator traits
    if tr in ARITH_TRAITS:
        opn = ARITH_TRAITS[tr]
        assign = opn.endswith("=")
        base = opn.rstrip("=")
        if base == "neg":
            v = it.deref_all(st, args[0])
            if v[0] == "sign":
                return None  # inline Neg for Sign (a verified table)
            if is_bigint(v):
                if v[0] == "struct":
                    s = v[2]["sign"]
                    return ret(st, STRUCT(v[1], {"sign": ("sign", -s[1], s[2]), "data": v[2]["data"]}))
                return ret(st, BIGVAL(-v[1]))
            if v[0] == "int":
                return ret(st, INT(-v[1], v[2]))
            raise Unsupported("neg of %s" % v[0])
        if args[0][0] == "sign" or (len(args) > 1 and args[1][0] == "sign"):
            return None  # Mul<Sign>: inline
        ka, pa, va = as_number(it, st, args[0])
        kb, pb, vb = as_number(it, st, args[1])
        big = ka == "big" or kb == "big"
        if base in ("add", "sub", "mul"):
            r = pa + pb if base == "add" else (pa - pb if base == "sub" else pa * pb)
        elif base in ("div", "rem"):
            if big:
                return None  # BigInt division: inline (sign fix-ups are what we verify)
            q, rr = it.divsyms(st, pa, pb)
            r = q if base == "div" else rr
        elif base in ("shl", "shr"):
            if big:
                return None
            if pb.is_const() and pb.const_value() == 0:
                r = pa
            else:
                r = opaque_sym(base, pa, pb)
                kz = st.known_zero(pa)
                if base == "shl" and kz is False:
                    st.nz.add(r.single_symbol())
                if kz is True:
                    r = Poly()
        elif base in ("bitand", "bitor", "bitxor"):
            if big:
                return None  # BigInt bit operators: interpret the crate's own sign dispatch
            if base == "bitand" and (pa.is_zero() or pb.is_zero()):
                r = Poly()
            elif base in ("bitor", "bitxor") and pa.is_zero():
                r = pb
            elif base in ("bitor", "bitxor") and pb.is_zero():
                r = pa
            else:
                r = opaque_sym(base, pa, pb)
                if base == "bitor" and (st.known_zero(pa) is False or st.known_zero(pb) is False):
                    st.nz.add(r.single_symbol())
        else:
            raise Unsupported("operator %s" % base)
        if big:
            val = BIGVAL(r)
            # a value whose sign is evident (all symbols are magnitudes, all coefficients of one sign) gets the canonical struct form
            if base in ("add", "sub", "mul") and not r.t:
                val = BIGINT(SIGN(0), Poly())
            elif base in ("add", "sub", "mul") and not any(s_.startswith("egcd") or (s_.startswith("I") and s_ not in st.signed_split) for s_ in r.symbols()):
                if all(c > 0 for c in r.t.values()):
                    val = bigint_from_value_sign(st, 1, r)
                elif all(c < 0 for c in r.t.values()):
                    val = bigint_from_value_sign(st, -1, -r)
        elif ka == "int" and kb == "int":
            val = INT(r, va[2])
        else:
            val = MAG(r)
        if assign:
            if args[0][0] != "ptr":
                raise Unsupported("assign operator on non-pointer")
            it.store(st, args[0][1], args[0][2], val)
            return ret(st, UNIT)
        return ret(st, val)

    # ---- BigUint division helpers
    if path in ("biguint::division::div_rem_ref", "biguint::division::div_rem") or (tr == "num_integer::Integer" and "BigUint" in iself and name in ("div_rem", "div_mod_floor")):
        _, pa, _ = as_number(it, st, args[0])
        _, pb, _ = as_number(it, st, args[1])
        q, r = it.divsyms(st, pa, pb)
        return ret(st, TUPLE([MAG(q), MAG(r)]))
    if tr == "num_integer::Integer" and "BigUint" in iself and name in ("div_floor", "mod_floor"):
        _, pa, _ = as_number(it, st, args[0])
        _, pb, _ = as_number(it, st, args[1])
        q, r = it.divsyms(st, pa, pb)
        return ret(st, MAG(q if name == "div_floor" else r))
    if path in ("biguint::division::div_rem_digit",):
        _, pa, _ = as_number(it, st, args[0])
        _, pb, _ = as_number(it, st, args[1])
        q, r = it.divsyms(st, pa, pb)
        return ret(st, TUPLE([MAG(q), INT(r, "u64")]))
    if path in ("biguint::division::rem_digit",):
        _, pa, _ = as_number(it, st, args[0])
        _, pb, _ = as_number(it, st, args[1])
        q, r = it.divsyms(st, pa, pb)
        return ret(st, INT(r, "u64"))

    # ---- digit-source constructors of magnitudes (the denoted value is an opaque symbol of the source)
    if path in ("biguint::BigUint::new", "biguint::BigUint::from_slice", "biguint::BigUint::from_bytes_be", "biguint::BigUint::from_bytes_le") and args:
        v = it.deref_all(st, args[0])
        if v[0] == "digits":
            return ret(st, MAG(Poly.sym("M" + v[1]).subst(st.subst)))
    if path in ("biguint::BigUint::from_radix_be", "biguint::BigUint::from_radix_le") and args:
        v = it.deref_all(st, args[0])
        if v[0] == "digits":
            key = "parsed:" + v[1]
            if key not in st.bools:
                raise NeedFork(("bool", key))
            if st.bools[key]:
                return ret(st, ENUM("core::option::Option", "Some", [MAG(Poly.sym("M" + v[1]).subst(st.subst))]))
            return ret(st, ENUM("core::option::Option", "None", []))
    if path == "biguint::BigUint::assign_from_slice" and len(args) == 2 and args[0][0] == "ptr":
        v = it.deref_all(st, args[1])
        if v[0] == "digits":
            it.store(st, args[0][1], args[0][2], MAG(Poly.sym("M" + v[1]).subst(st.subst)))
            return ret(st, UNIT)
        if v[0] == "opaque" and "; 0]" in v[1]:
            it.store(st, args[0][1], args[0][2], MAG(0))
            return ret(st, UNIT)
    if name == "gen_biguint_below" and len(args) == 2:
        v = it.deref_all(st, args[1])
        if v[0] == "mag":
            kz = st.known_zero(v[1])
            if kz is None:
                raise NeedFork(("zero", v[1]))
            if kz:
                return [("panic", st, "gen_biguint_below(0)")]
            return ret(st, MAG(opaque_sym("below", v[1])))
    # ---- constructors
    if path == "bigint::BigInt::from_biguint":
        s = args[0]
        if s[0] != "sign":
            raise Unsupported("from_biguint with non-sign")
        if s[2] is not None:
            raise NeedFork(("zero", s[2]))
        m = it.deref_all(st, args[1])
        if m[0] != "mag":
            raise Unsupported("from_biguint with non-magnitude")
        return ret(st, bigint_from_value_sign(st, s[1], m[1]))
    if path in ("bigint::BigInt::magnitude",):
        v = it.deref_all(st, args[0])
        if v[0] == "struct":
            a0 = args[0]
            while a0[0] == "ptr" and it.load(st, a0)[0] == "ptr":
                a0 = it.load(st, a0)
            return ret(st, PTR(a0[1], a0[2] + ("data",)))
        if v[0] == "bigval":
            p = v[1]
            cell = st.fresh("mag")
            pos = all(c > 0 for c in p.t.values())
            if not pos and len(p.t) >= 2:
                pp = Poly({k: c for k, c in p.t.items() if c > 0})
                nn = -Poly({k: c for k, c in p.t.items() if c < 0})
                if (repr(nn), repr(pp)) in st.lt:
                    pos = True
                elif (repr(pp), repr(nn)) in st.lt:
                    st.env[cell] = MAG(-p)
                    return ret(st, PTR(cell))
            if pos:
                st.env[cell] = MAG(p)
                return ret(st, PTR(cell))
            raise Unsupported("magnitude of a computed BigInt of unknown sign %r" % (p,))
    if path in ("bigint::BigInt::sign",):
        v = it.deref_all(st, args[0])
        if v[0] == "struct":
            return ret(st, v[2]["sign"])
    if path in ("bigint::BigInt::into_parts",):
        v = it.deref_all(st, args[0])
        if v[0] == "struct":
            return ret(st, TUPLE([v[2]["sign"], v[2]["data"]]))

    if path.endswith("TryFromBigIntError::<T>::new") or (name == "new" and "TryFromBigIntError" in path):
        return ret(st, STRUCT("TryFromBigIntError", {"original": args[0]}))
    # ---- scalar helpers
    if name == "wrapping_neg" and args and args[0][0] == "int":
        return ret(st, INT(-args[0][1], args[0][2]))
    if name == "unsigned_abs" and args and args[0][0] == "int":
        p = args[0][1]
        sym = p.single_symbol()
        if sym and sym.startswith("I") and sym not in st.signed_split:
            raise NeedFork(("signsplit", sym))
        if all(c > 0 for c in p.t.values()):
            return ret(st, INT(p, "u" + args[0][2][1:]))
        if all(c < 0 for c in p.t.values()):
            return ret(st, INT(-p, "u" + args[0][2][1:]))
        raise Unsupported("unsigned_abs of mixed term")

    # ---- narrowing conversions of magnitudes: Some(value) when it fits, None otherwise
    if name and name.startswith("to_") and name[3:] in UNSIGNED | SIGNED and len(args) == 1:
        v = it.deref_all(st, args[0])
        if v[0] == "struct" and v[1] == "bigint::BigInt":
            sg = v[2]["sign"]
            if sg[2] is not None:
                raise NeedFork(("zero", sg[2]))
            if sg[1] == 0:
                return ret(st, ENUM("core::option::Option", "Some", [INT(0, name[3:])]))
            if sg[1] < 0 and name[3:] in UNSIGNED:
                return ret(st, ENUM("core::option::Option", "None", []))
            if sg[1] > 0:
                v = v[2]["data"]
            else:
                p = v[2]["data"][1]
                key = "fits_%s(-%r)" % (name[3:], p)
                if key not in st.bools:
                    raise NeedFork(("bool", key))
                if st.bools[key]:
                    return ret(st, ENUM("core::option::Option", "Some", [INT(-p, name[3:])]))
                return ret(st, ENUM("core::option::Option", "None", []))
        if v[0] == "int":
            v = MAG(v[1])
        if v[0] == "mag":
            p = v[1]
            ty = name[3:]
            if p.is_const() and p.const_value() == 0:
                return ret(st, ENUM("core::option::Option", "Some", [INT(0, ty)]))
            key = "fits_%s(%r)" % (ty, p)
            if key not in st.bools:
                raise NeedFork(("bool", key))
            if st.bools[key]:
                return ret(st, ENUM("core::option::Option", "Some", [INT(p, ty)]))
            # does not fit => non-zero
            if p.single_symbol():
                st.nz.add(p.single_symbol())
            return ret(st, ENUM("core::option::Option", "None", []))
    # ---- `<T as NumCast>::from(x)` / `T::from(x)` on a primitive integer x: Some(x) when x fits T, None otherwise. T is the
    # written Self type, or - inside a generic helper - the primitive the helper's `T`-typed argument holds in this case
    if raw == "num_traits::NumCast::from":
        m_ = re.match(r"<(\w+) as num_traits::NumCast>::from", fn.get("raw_full") or fn.get("full") or "")
        v = it.deref_all(st, args[0]) if args and args[0][0] == "ptr" else (args[0] if args else None)
        if m_ and v is not None and v[0] == "int" and len(v) > 2:
            ty = m_.group(1)
            if ty not in UNSIGNED | SIGNED:
                ty = None
                for i_ in range(1, body.arg_count + 1):
                    a_ = st.env.get((st.fid, i_))
                    if body.locals[i_]["ty"] == m_.group(1) and a_ is not None and a_[0] == "int" and len(a_) > 2:
                        ty = a_[2]
            sty = v[2]
            if ty in UNSIGNED | SIGNED and sty in UNSIGNED:
                p = v[1]
                sb, tb = prim_bits(sty), prim_bits(ty)
                if (p.is_const() and p.const_value() == 0) or (ty in UNSIGNED and tb >= sb) or (ty in SIGNED and tb > sb):
                    return ret(st, ENUM("core::option::Option", "Some", [INT(p, ty)]))
                key = "fits_%s(%r)" % (ty, p)
                if key not in st.bools:
                    raise NeedFork(("bool", key))
                if st.bools[key]:
                    return ret(st, ENUM("core::option::Option", "Some", [INT(p, ty)]))
                if p.single_symbol():
                    st.nz.add(p.single_symbol())
                return ret(st, ENUM("core::option::Option", "None", []))
    # ---- extended_gcd on BigInt (num-integer's generic default method): fresh symbols g >= 0, x, y with P*x + Q*y = g
    if name == "extended_gcd" and len(args) == 2:
        vs = [it.deref_all(st, a) for a in args]
        if all(is_bigint(v) for v in vs):
            P, Q = int_value(vs[0]), int_value(vs[1])
            k = len(st.egcds)
            g, x, y = Poly.sym("egcd%d_g(%r,%r)" % (k, P, Q)), Poly.sym("egcd%d_x(%r,%r)" % (k, P, Q)), Poly.sym("egcd%d_y(%r,%r)" % (k, P, Q))
            st.egcds.append((P, Q, g, x, y))
            # gcd(P, Q) = 0 only for P = Q = 0
            if any(st.known_zero(v_) is False or st.known_zero(-v_) is False for v_ in (P, Q)):
                st.nz.add(g.single_symbol())
            return ret(st, STRUCT("num_integer::ExtendedGcd", {"gcd": bigint_from_value_sign(st, 1, g), "x": BIGVAL(x), "y": BIGVAL(y)}))
    # ---- opaque magnitude functions (uninterpreted symbols)
    if name in ("pow", "sqrt", "cbrt", "nth_root", "gcd", "lcm", "modpow", "modinv", "bits", "trailing_zeros") and args:
        vs = [it.deref_all(st, a) for a in args]
        if vs[0][0] == "mag" and all(v[0] in ("mag", "int") for v in vs):
            sym = opaque_sym(name, *[v[1] for v in vs])
            d = strip_refs(dest_ty)
            if d == "biguint::BigUint":
                return ret(st, MAG(sym))
            if d.startswith("core::option::Option<biguint::BigUint>"):
                key = "some:" + repr(sym)
                if key not in st.bools:
                    raise NeedFork(("bool", key))
                return ret(st, ENUM("core::option::Option", "Some", [MAG(sym)]) if st.bools[key] else ENUM("core::option::Option", "None", []))
            if d in UNSIGNED:
                return ret(st, INT(sym, d))
    # a closure value called through the Fn* traits (a helper that takes `impl FnOnce(..)`): run the closure body
    if raw in ("core::ops::FnOnce::call_once", "core::ops::FnMut::call_mut", "core::ops::Fn::call") and len(args) == 2:
        clo = it.deref_all(st, args[0]) if args[0][0] == "ptr" else args[0]
        tup = args[1]
        if clo[0] == "closure" and tup[0] in ("tuple", "unit"):
            cb = it.facts.body(clo[1])
            if cb is not None:
                argv = list(tup[1]) if tup[0] == "tuple" else []
                return list(it.run_body(cb, st, [TUPLE(list(clo[2]))] + argv, depth + 1))
    # iN::checked_sub_unsigned / checked_add_unsigned (the MIN edge of a signed conversion written with std helpers)
    if name in ("checked_sub_unsigned", "checked_add_unsigned") and len(args) == 2:
        a, u = it.deref_all(st, args[0]), it.deref_all(st, args[1])
        if a[0] == "int" and u[0] in ("int", "mag") and a[1].is_const():
            ty = a[2]
            bits_ = {"8": 8, "16": 16, "32": 32, "64": 64, "128": 128, "size": 64}.get(ty[1:], 64)
            lo_, hi_ = -(1 << (bits_ - 1)), (1 << (bits_ - 1)) - 1
            r_ = a[1] - u[1] if name == "checked_sub_unsigned" else a[1] + u[1]
            if u[1].is_const():
                v_ = r_.const_value()
                return ret(st, ENUM("core::option::Option", "Some", [INT(v_, ty)]) if lo_ <= v_ <= hi_ else ENUM("core::option::Option", "None", []))
            # symbolic non-negative u: the result fits iff u <= a - lo (sub) / u <= hi - a (add): decide three-way like cmp()
            lim = Poly.const(a[1].const_value() - lo_ if name == "checked_sub_unsigned" else hi_ - a[1].const_value())
            o = cmp_polys(st, u[1], lim)
            if o <= 0:
                rr_ = r_ if o < 0 else (a[1] - lim if name == "checked_sub_unsigned" else a[1] + lim)
                return ret(st, ENUM("core::option::Option", "Some", [INT(rr_, ty)]))
            return ret(st, ENUM("core::option::Option", "None", []))
    # Ordering::then_with(closure) / then(other)
    if name in ("then_with", "then") and len(args) == 2 and args[0][0] == "ord":
        if args[0][1] != 0:
            return ret(st, args[0])
        if name == "then":
            return ret(st, args[1])
        clo = args[1]
        if clo[0] == "closure":
            cb = it.facts.body(clo[1])
            if cb is not None:
                outs = []
                for o in it.run_body(cb, st, [TUPLE(list(clo[2]))], depth + 1):
                    if o[0] != "return":
                        raise Unsupported("closure reaches %s" % o[0])
                    outs.append(o)
                return outs
    # bool::then(closure) / then_some(value)
    if name in ("then", "then_some") and len(args) == 2 and args[0][0] == "bool":
        if not args[0][1]:
            return ret(st, ENUM("core::option::Option", "None", []))
        if name == "then_some":
            return ret(st, ENUM("core::option::Option", "Some", [args[1]]))
        clo = args[1]
        if clo[0] == "closure":
            cb = it.facts.body(clo[1])
            if cb is not None:
                outs = []
                for o in it.run_body(cb, st, [TUPLE(list(clo[2]))], depth + 1):
                    if o[0] == "return":
                        outs.append(("return", o[1], ENUM("core::option::Option", "Some", [o[2]])))
                    else:
                        outs.append(o)
                return outs
    # Option combinators with a closure argument: the closure body is interpreted
    if name in ("map", "map_or", "unwrap_or", "and_then", "unwrap_or_else") and args and args[0][0] == "enum" and args[0][1].endswith("Option"):
        opt = args[0]

        def call_closure(clo, argv):
            if clo[0] != "closure":
                raise Unsupported("non-closure function value")
            cb = it.facts.body(clo[1])
            if cb is None:
                raise Unsupported("closure body not found")
            outs = []
            for o in it.run_body(cb, st, [TUPLE(list(clo[2]))] + argv, depth + 1):
                if o[0] != "return":
                    raise Unsupported("closure reaches %s" % o[0])
                outs.append(o)
            return outs

        if name == "unwrap_or":
            return ret(st, opt[3][0] if opt[2] == "Some" else args[1])
        if name == "map":
            if opt[2] == "None":
                return ret(st, ENUM(opt[1], "None", []))
            return [("return", o[1], ENUM(opt[1], "Some", [o[2]])) for o in call_closure(args[1], [opt[3][0]])]
        if name == "map_or":
            if opt[2] == "None":
                return ret(st, args[1])
            return [("return", o[1], o[2]) for o in call_closure(args[2], [opt[3][0]])]
        if name == "and_then":
            if opt[2] == "None":
                return ret(st, ENUM(opt[1], "None", []))
            return [("return", o[1], o[2]) for o in call_closure(args[1], [opt[3][0]])]
    if name == "trailing_zeros" and args:
        v = it.deref_all(st, args[0])
        m = v[2]["data"][1] if v[0] == "struct" else (v[1] if v[0] == "mag" else None)
        if m is not None:
            kz = st.known_zero(m)
            if kz is None:
                raise NeedFork(("zero", m))
            if kz:
                return ret(st, ENUM("core::option::Option", "None", []))
            return ret(st, ENUM("core::option::Option", "Some", [INT(opaque_sym("tz", m), "u64")]))
    # Option / Try plumbing
    if raw == "core::ops::Try::branch" or name == "branch":
        v = args[0]
        if v[0] == "enum" and v[1].endswith("Option"):
            if v[2] == "Some":
                return ret(st, ENUM("core::ops::ControlFlow", "Continue", [v[3][0]]))
            return ret(st, ENUM("core::ops::ControlFlow", "Break", [ENUM("core::option::Option", "None", [])]))
        if v[0] == "enum" and v[1].endswith("Result"):
            if v[2] == "Ok":
                return ret(st, ENUM("core::ops::ControlFlow", "Continue", [v[3][0]]))
            return ret(st, ENUM("core::ops::ControlFlow", "Break", [v]))
    if name == "from_residual":
        d = strip_refs(dest_ty)
        if d.startswith("core::option::Option"):
            return ret(st, ENUM("core::option::Option", "None", []))
        if args and args[0][0] == "enum":
            return ret(st, args[0])
    if name in ("unwrap", "expect") and args and args[0][0] == "enum":
        v = args[0]
        if v[2] in ("Some", "Ok"):
            return ret(st, v[3][0])
        return [("panic", st, "unwrap of None/Err")]
    return None


def bigint_from_int_poly(it, st, v):
    p = v[1]
    ty = v[2]
    if ty in UNSIGNED or all(c > 0 for c in p.t.values()):
        return bigint_from_value_sign(st, 1, p)
    if p.is_const():
        c = p.const_value()
        return BIGINT(SIGN(0 if c == 0 else (1 if c > 0 else -1)), Poly.const(abs(c)))
    if all(c < 0 for c in p.t.values()):
        return bigint_from_value_sign(st, -1, -p)
    sym = p.single_symbol()
    if sym and sym.startswith("I") and sym not in st.signed_split:
        raise NeedFork(("signsplit", sym))
    return BIGVAL(p)
