"""R7 - constant tables read out of the compiler and compared with arithmetic done here."""
from . import core
from .core import Finding, callee, callee_fn, callee_name, op_const
from .tests import Atoms, consts_of, params_of, calls_of, tests_of


def _bases_errors(raw, es, offs, szs, mx):
    n = len(raw) // es
    bad = []
    if n != 257:
        bad.append("table has %d entries, expected 257" % n)
    cells = 0
    for r in range(n):
        e = raw[r * es : (r + 1) * es]
        base = int.from_bytes(e[offs[0] : offs[0] + szs[0]], "little")
        power = int.from_bytes(e[offs[1] : offs[1] + szs[1]], "little")
        pow2 = r != 0 and (r & (r - 1)) == 0
        if r < 3 or r > 255 or pow2:
            if (base, power) != (0, 0):
                bad.append("entry %d should be (0,0), is (%d,%d)" % (r, base, power))
            continue
        cells += 1
        if power < 1 or base != r**power:
            bad.append("entry %d: base %d != %d^%d" % (r, base, r, power))
        elif base > mx:
            bad.append("entry %d: base %d exceeds the digit maximum" % (r, base))
        elif base * r <= mx:
            bad.append("entry %d: %d^%d still fits (power not maximal)" % (r, r, power + 1))
    return bad, cells


def check_bases(ctx, res, config="all"):
    """the per-radix (base, power) tables, wherever they live and whatever they are called: every const-evaluated static of 257
    two-field entries whose first field is a digit is judged as a whole-digit table and as a half-digit table; exactly one of
    each role must exist and be right"""
    facts = ctx.facts(config)
    cands = []
    for st in facts.statics:
        if "bytes" not in st or not st.get("elem_field_offsets") or len(st.get("elem_field_sizes", [])) != 2:
            continue
        raw = bytes.fromhex(st["bytes"])
        es = st["elem_size"]
        if not es or len(raw) // es < 200:
            continue
        cands.append((st, raw, es, st["elem_field_offsets"], st["elem_field_sizes"]))
    roles = {"full": [], "half": []}
    for (st, raw, es, offs, szs) in cands:
        digit_bits = 8 * szs[0]
        e_full, c_full = _bases_errors(raw, es, offs, szs, (1 << digit_bits) - 1)
        e_half, c_half = _bases_errors(raw, es, offs, szs, (1 << (digit_bits // 2)) - 1)
        # role by name when the crate's names are used, else by which role the content satisfies (fewer errors)
        parent = st.get("parent", "") + "::" + st["path"]
        if "half" in parent.lower():
            role = "half"
        elif len(e_half) < len(e_full):
            role = "half"
        else:
            role = "full"
        errs, cells = (e_half, c_half) if role == "half" else (e_full, c_full)
        roles[role].append((st, errs, cells))
    for role, lst in roles.items():
        key = ("get_radix_base" if role == "full" else "get_half_radix_base") + "::BASES"
        if len(lst) != 1:
            res.fail(Finding("R7-anchor-lost", "BASES", "expected exactly one %s-digit per-radix table, found %d" % (role, len(lst)), file="src/biguint/convert.rs", line=0))
            continue
        st, bad, cells = lst[0]
        if bad:
            res.fail(Finding("R7-bases-table", key, "per-radix (base, power) table is wrong: " + "; ".join(bad[:4]), file=st["file"], line=st["line"]))
        else:
            res.ok("R7-bases-table", key, {"radices_checked": cells, "static": st["path"], "role": role})
            res.count("R7 BASES cells verified", cells)
    res.clause("R7: both const-evaluated BASES tables hold, for every non-power-of-two radix 3..255, the largest power of the radix fitting a (half) digit; other entries are (0,0)")


FMT = [
    ("core::fmt::Display", "", 10, False),
    ("core::fmt::Binary", "0b", 2, False),
    ("core::fmt::Octal", "0o", 8, False),
    ("core::fmt::LowerHex", "0x", 16, False),
    ("core::fmt::UpperHex", "0x", 16, True),
]


def check_formatters(ctx, res, config="all"):
    facts = ctx.facts(config)
    n = 0
    for ty in ("biguint::BigUint", "bigint::BigInt"):
        for tr, prefix, radix, upper in FMT:
            bs = facts.find(trait=tr, self_ty=ty, name="fmt")
            key = "<%s as %s>::fmt" % (ty, tr)
            if len(bs) != 1:
                res.fail(Finding("R7-anchor-lost", key, "formatter impl not found", file="src", line=0))
                continue
            b = bs[0]
            n += 1
            at = Atoms(b)
            pads = [(i, t) for i, t in b.calls() if callee_name(t) == "pad_integral" and i in b.live_blocks()]
            tsr = [(i, t) for i, t in b.calls() if callee_name(t) == "to_str_radix" and i in b.live_blocks()]
            errs = []
            if len(pads) != 1:
                errs.append("expected exactly one Formatter::pad_integral call, found %d" % len(pads))
            if len(tsr) != 1:
                errs.append("expected exactly one to_str_radix call, found %d" % len(tsr))
            if not errs:
                pi, pt = pads[0]
                ti, tt = tsr[0]
                # radix
                rv = consts_of(at.of_operand(tt["args"][1]))
                if rv != {radix}:
                    errs.append("digits are produced in radix %s, expected %d" % (sorted(rv), radix))
                # the magnitude is formatted (BigUint::to_str_radix on self / self.data)
                if not (callee(tt) or "").endswith("biguint::BigUint::to_str_radix"):
                    errs.append("digits do not come from the magnitude's to_str_radix (%s)" % callee(tt))
                a0 = at.of_operand(tt["args"][0])
                if params_of(a0) != {1}:
                    errs.append("to_str_radix is not applied to the receiver")
                elif ty.endswith("BigInt") and not any(a[0] == "param" and "data" in a[2] for a in a0):
                    errs.append("BigInt formatter must format the magnitude (self.data)")
                # prefix
                pa = at.of_operand(pt["args"][2])
                strs = {a[1] for a in pa if a[0] == "str"}
                if strs != {prefix}:
                    errs.append("prefix is %s, expected %r" % (sorted(strs), prefix))
                # digits argument derives from the to_str_radix result
                da = at.of_operand(pt["args"][3])
                if "to_str_radix" not in calls_of(da):
                    errs.append("pad_integral does not receive the to_str_radix text")
                # non-negativity flag
                fa = at.of_operand(pt["args"][1])
                if ty.endswith("BigUint"):
                    if consts_of(fa) != {True} or params_of(fa) or calls_of(fa):
                        errs.append("BigUint formatter must pass is_nonnegative = true")
                else:
                    if "is_negative" not in calls_of(fa) or params_of(fa) != {1}:
                        errs.append("BigInt formatter must pass !self.is_negative()")
                    else:
                        # must be negated exactly once
                        l = core.op_local(pt["args"][1])
                        neg = False
                        for d in b.defs().get(l, []):
                            if d[0] == "assign" and d[3]["rv"]["k"] == "unop" and d[3]["rv"]["op"] == "Not":
                                neg = True
                        if not neg:
                            errs.append("BigInt formatter passes is_negative() un-negated as the non-negativity flag")
                # upper case
                up = [i for i, t in b.calls() if callee_name(t) == "make_ascii_uppercase" and i in b.live_blocks()]
                if upper and not up:
                    errs.append("UpperHex does not upper-case the digits")
                if upper and up and not b.block_dominates(up[0], pi):
                    errs.append("upper-casing does not precede pad_integral")
                if not upper and up:
                    errs.append("unexpected upper-casing")
                # result routed
                rr = core.Flow(b).roots_of_local(0)
                if not all(r[0] == "call" and r[1] == pi for r in rr):
                    errs.append("the fmt result is not pad_integral's result")
            if errs:
                res.fail(Finding("R7-formatter-table", key, "; ".join(errs), b))
            else:
                res.ok("R7-formatter-table", key, {"prefix": prefix, "radix": radix, "upper": upper})
    if n < 10:
        res.fail(Finding("R7-anchor-lost", "formatters", "only %d of 10 formatter impls found" % n, file="src", line=0))
    res.clause("R7: the ten fmt impls pass (non-negativity flag, prefix, radix-r text of the magnitude) = Display('',10) Binary('0b',2) Octal('0o',8) LowerHex('0x',16) UpperHex('0x',16,upper) to Formatter::pad_integral")


def _sign_discriminants(facts):
    adt = facts.adts.get("bigint::Sign")
    if not adt:
        return None
    return {name: int(v) for name, v in adt.get("discriminants", [])}


def _serialized_i8_for_variant(b, dv):
    """follow the one path the body takes when the enum value it was given has discriminant dv (every switch on the way must be
    on that discriminant), tracking integer constants through moves, references and casts, up to the `serialize` call; returns
    the i8 handed to it, 'not-i8' or None"""
    env = {}
    cur, steps = 0, 0

    def val(op):
        if op["k"] == "const":
            if "deref_val" in op:
                return ("ref", int(op["deref_val"]))
            if "val" in op:
                return int(op["val"])
            return None
        pl = op["place"]
        v = env.get(pl["local"])
        for e in pl["proj"]:
            if e["k"] == "deref" and isinstance(v, tuple) and v[0] == "ref":
                v = v[1]
            elif e["k"] == "deref" and isinstance(v, tuple) and v[0] == "refl":
                v = env.get(v[1])
            else:
                return None
        return v

    while steps < 200:
        steps += 1
        bl = b.blocks[cur]
        for st in bl["stmts"]:
            if st["k"] != "assign" or st["place"]["proj"]:
                continue
            rv = st["rv"]
            d = st["place"]["local"]
            if rv["k"] == "use":
                env[d] = val(rv["op"])
            elif rv["k"] == "cast":
                v = val(rv["op"])
                env[d] = v if isinstance(v, int) else None
            elif rv["k"] == "ref" and not rv["place"]["proj"]:
                env[d] = ("refl", rv["place"]["local"])
            elif rv["k"] in ("ref", "copyforderef") and [e["k"] for e in rv["place"]["proj"]] == ["deref"]:
                env[d] = env.get(rv["place"]["local"])  # reborrow
            elif rv["k"] == "discriminant":
                env[d] = ("discr", dv)
            elif rv["k"] == "unop" and rv.get("op") == "Neg" and isinstance(val(rv["a"]), int):
                env[d] = -val(rv["a"])
            else:
                env[d] = None
        t = bl["term"]
        if t["k"] == "goto":
            cur = t["target"]
        elif t["k"] == "switch":
            v = val(t["discr"])
            if not (isinstance(v, tuple) and v[0] == "discr"):
                return None
            m = core.switch_edges(b, cur)
            cur = m.get(dv, m.get(dv & 0xFFFFFFFFFFFFFFFFFFFFFFFFFFFFFFFF, m.get("otherwise")))
            if cur is None:
                return None
        elif t["k"] == "call":
            if callee_name(t) == "serialize":
                if "i8" not in (callee(t) or ""):
                    return "not-i8"
                v = val(t["args"][0])
                if isinstance(v, tuple) and v[0] == "ref":
                    v = v[1]
                elif isinstance(v, tuple) and v[0] == "refl":
                    v = env.get(v[1])
                if isinstance(v, int):
                    return v - 256 if v > 127 else v
                return None
            if t.get("target") is None:
                return None
            if not t["dest"]["proj"]:
                env[t["dest"]["local"]] = None
            cur = t["target"]
        elif t["k"] in ("drop", "assert"):
            cur = t["target"]
        else:
            return None
    return None


def check_serde_tables(ctx, res, config="all"):
    facts = ctx.facts(config)
    disc = _sign_discriminants(facts)
    want = {"Minus": -1, "NoSign": 0, "Plus": 1}
    # --- Serialize for Sign
    bs = facts.find(trait="serde::Serialize", self_ty="bigint::Sign", name="serialize")
    if len(bs) != 1 or not disc:
        res.fail(Finding("R7-anchor-lost", "Serialize for Sign", "impl not found", file="src/bigint/serde.rs", line=0))
    else:
        b = core.inline_private(facts, bs[0])
        got = {}
        for name, dv in disc.items():
            got[name] = _serialized_i8_for_variant(b, dv)
        for name in want:
            key = "Sign::%s->i8" % name
            if got.get(name) == want[name]:
                res.ok("R7-serde-sign-table", key, {"value": want[name]})
            elif got.get(name) is None:
                # the encoding is not a constant on the variant's path (a lookup table, a computed value): not decided
                res.note("R7-serde-sign-table: the byte written for Sign::%s cannot be read off its path through Serialize for Sign (table lookup or computed value) - not decided" % name)
                res.ok("R7-serde-sign-table", key, {"undecided": True}, nontrivial=False)
            else:
                res.fail(Finding("R7-serde-sign-table", key, "Sign::%s serializes as %r, expected the i8 %d" % (name, got.get(name), want[name]), b))
    # --- Deserialize for Sign
    bs = facts.find(trait="serde::Deserialize", self_ty="bigint::Sign", name="deserialize")
    if len(bs) != 1:
        res.fail(Finding("R7-anchor-lost", "Deserialize for Sign", "impl not found", file="src/bigint/serde.rs", line=0))
    else:
        b = core.inline_private(facts, bs[0])
        ok_tab = {}
        rejects = False

        def sign_aggs(blocks):
            return [s_ for x in blocks for s_ in b.blocks[x]["stmts"] if s_["k"] == "assign" and s_["rv"]["k"] == "aggregate" and s_["rv"].get("adt") == "bigint::Sign"]

        for i, t in b.terms("switch"):
            if t.get("discr_ty") != "i8" or i not in b.live_blocks():
                continue
            m = core.switch_edges(b, i)
            val_targets = [x for k, x in m.items() if k != "otherwise"]
            for v, tgt in m.items():
                if v == "otherwise":
                    # the fall-through arm must not be able to produce a Sign: no Sign value is built on any block that it reaches
                    # without passing one of the value arms, and none is built before the switch
                    reg = b.reachable(tgt, without_blocks=[x for x in val_targets if x != tgt])
                    before = [x for x in b.live_blocks() if b.block_dominates(x, i) and x != i] + [i]
                    rejects = not sign_aggs(reg) and not sign_aggs(before)
                    continue
                sv = v - 256 if v > 127 else v
                # the first Sign built on the arm (before the arms join again)
                arm = b.reachable(tgt, without_blocks=[x for x in val_targets if x != tgt] + ([m["otherwise"]] if m.get("otherwise") not in (None, tgt) else []))
                for x in sorted(arm, key=lambda y: (y != tgt, y)):
                    ags = sign_aggs([x])
                    if ags:
                        ok_tab[sv] = ags[0]["rv"]["variant"]
                        break
        has_i8_switch = any(t.get("discr_ty") == "i8" and i in b.live_blocks() for i, t in b.terms("switch"))
        for name, v in want.items():
            key = "i8 %d->Sign" % v
            if ok_tab.get(v) == name:
                res.ok("R7-serde-sign-table", key, {"variant": name})
            elif not has_i8_switch:
                res.note("R7-serde-sign-table: Deserialize for Sign does not branch on the byte (table lookup) - the inverse mapping of %d is not decided" % v)
                res.ok("R7-serde-sign-table", key, {"undecided": True}, nontrivial=False)
            else:
                res.fail(Finding("R7-serde-sign-table", key, "i8 %d deserializes to %r, expected Sign::%s" % (v, ok_tab.get(v), name), b))
        extra = [v for v in ok_tab if v not in want.values()]
        if not has_i8_switch:
            res.ok("R7-serde-sign-table", "other i8->Err", {"undecided": True}, nontrivial=False)
        elif rejects and not extra:
            res.ok("R7-serde-sign-table", "other i8->Err", {"rejects": True})
        else:
            res.fail(Finding("R7-serde-sign-table", "other i8->Err", "sign bytes other than -1, 0, 1 are not rejected with an error (extra accepted values: %s)" % extra, b))
    # --- BigInt pair
    bs = facts.find(trait="serde::Serialize", self_ty="bigint::BigInt", name="serialize")
    if len(bs) == 1:
        b = bs[0]
        ok = False
        for i, si, s in b.stmts():
            rv = s.get("rv")
            if rv and rv["k"] == "aggregate" and rv.get("akind") == "tuple" and len(rv["ops"]) == 2:
                at = Atoms(b)
                a0, a1 = at.of_operand(rv["ops"][0]), at.of_operand(rv["ops"][1])
                if any(a[0] == "param" and a[1] == 1 and a[2] == ("sign",) for a in a0) and any(a[0] == "param" and a[1] == 1 and a[2] == ("data",) for a in a1):
                    ok = True
        if not ok:
            # the same pair written out by hand: serialize_tuple(2), element(sign), element(magnitude), end()
            tup = [(i, t) for i, t in b.calls() if callee_name(t) == "serialize_tuple" and i in b.live_blocks()]
            els = [(i, t) for i, t in b.calls() if callee_name(t) == "serialize_element" and i in b.live_blocks()]
            if len(tup) == 1 and len(els) == 2 and op_const(tup[0][1]["args"][1]) == 2:
                at = Atoms(b)
                (i0, t0), (i1, t1) = els
                if b.block_dominates(i1, i0) and not b.block_dominates(i0, i1):
                    (i0, t0), (i1, t1) = (i1, t1), (i0, t0)
                a0, a1 = at.of_operand(t0["args"][1]), at.of_operand(t1["args"][1])
                if b.block_dominates(i0, i1) and any(a[0] == "param" and a[1] == 1 and a[2][-1:] == ("sign",) for a in a0) and any(a[0] == "param" and a[1] == 1 and a[2][-1:] == ("data",) for a in a1):
                    ok = True
        if ok:
            res.ok("R7-serde-bigint-pair", "serialize", {"tuple": "(sign, &data)"})
        else:
            res.fail(Finding("R7-serde-bigint-pair", "serialize", "BigInt must serialize the pair (sign, magnitude) in this order", b))
    else:
        res.fail(Finding("R7-anchor-lost", "Serialize for BigInt", "impl not found", file="src/bigint/serde.rs", line=0))
    bs = facts.find(trait="serde::Deserialize", self_ty="bigint::BigInt", name="deserialize")
    if len(bs) == 1:
        b = bs[0]
        ok = False
        for i, t in b.calls():
            if (callee(t) or "").endswith("BigInt::from_biguint") and len(t["args"]) == 2:
                p0, p1 = core.op_place(t["args"][0]), core.op_place(t["args"][1])

                def fieldidx(b_, op):
                    # follow copies back to a tuple field projection
                    pl = core.op_place(op)
                    for _ in range(6):
                        if pl is None:
                            return None
                        f = [e for e in pl["proj"] if e["k"] == "field"]
                        if f:
                            return f[-1]["idx"]
                        ds = b_.defs().get(pl["local"], [])
                        if len(ds) != 1 or ds[0][0] != "assign" or ds[0][3]["rv"]["k"] != "use":
                            return None
                        pl = core.op_place(ds[0][3]["rv"]["op"])
                    return None

                if fieldidx(b, t["args"][0]) == 0 and fieldidx(b, t["args"][1]) == 1:
                    ok = True
        if ok:
            res.ok("R7-serde-bigint-pair", "deserialize", {"through": "from_biguint(pair.0, pair.1)"})
        else:
            res.fail(Finding("R7-serde-bigint-pair", "deserialize", "BigInt must deserialize through BigInt::from_biguint(sign, magnitude) with the pair's fields in order", b))
    else:
        res.fail(Finding("R7-anchor-lost", "Deserialize for BigInt", "impl not found", file="src/bigint/serde.rs", line=0))
    # --- cautious
    bs = facts.find(suffix="biguint::serde::cautious")
    if len(bs) == 1:
        b = bs[0]
        at = Atoms(b)
        ok = False
        unknown_cap = False
        # the min() may sit in the function or in a closure it passes to an Option combinator (`hint.map_or(0, |h| min(h, CAP))`)
        scopes = [(b, at, {1})] + [(c_, Atoms(c_), {2}) for c_ in facts.bodies if c_.kind == "Closure" and c_.j.get("closure_of") == b.path]
        for sb, sat, hint_params in scopes:
            for i, t in sb.calls():
                if callee_name(t) == "min" and len(t["args"]) == 2:
                    xs = [sat.of_operand(a) for a in t["args"]]
                    caps = [c for x in xs for c in consts_of(x) if isinstance(c, int) and c > 0]
                    hint = any(params_of(x) and params_of(x) <= hint_params for x in xs)
                    # cap must bound the byte budget: <= 2^20 / 4 elements
                    if hint and caps and max(caps) <= (1 << 20) // 4:
                        ok = True
                    elif hint and not caps and any(any(a_[0] == "named" for a_ in x) for x in xs):
                        unknown_cap = True  # a named constant the driver could not evaluate
        # the constant may be computed (Div(1048576, size_of)): accept a Div with const numerator 2^20
        if not ok:
            for i, si, s in b.stmts():
                rv = s.get("rv")
                if rv and rv["k"] == "binop" and rv["op"] == "Div" and op_const(rv["a"]) is not None and op_const(rv["a"]) <= (1 << 20):
                    ok = True
        if not ok and not unknown_cap:
            # the cap written as a comparison: every value returned is a constant within the budget, or the hint itself on the
            # edge of `n < K` / `n <= K` with K within the budget
            from . import r4 as _r4
            from .tests import tests_of as _tests_of

            cap_ = (1 << 20) // 4
            tl_, at_ = _tests_of(b)
            verdicts = []
            for d in b.defs().get(0, []):
                if d[1] not in b.live_blocks():
                    continue
                if d[0] != "assign" or d[3]["rv"]["k"] != "use":
                    verdicts.append(None)
                    continue
                op_ = d[3]["rv"]["op"]
                try:
                    v_ = _r4.eval_int(b, op_, {})
                    verdicts.append(isinstance(v_, int) and 0 <= v_ <= cap_)
                    continue
                except Exception:
                    pass
                a_ = at_.of_operand(op_)
                if not (params_of(a_) == {1} and not consts_of(a_)):
                    verdicts.append(None)
                    continue
                bounded = None
                for t_ in tl_:
                    c_ = t_.cond
                    if c_ is None or c_.kind != "cmp" or c_.op not in ("Lt", "Le", "Gt", "Ge"):
                        continue
                    for (x_, k_raw, flip) in ((c_.a, c_.rb, False), (c_.b, c_.ra, True)):
                        if params_of(x_) != {1} or consts_of(x_):
                            continue
                        try:
                            k_ = _r4.eval_int(b, k_raw, {})
                        except Exception:
                            bounded = "unknown" if bounded is None else bounded
                            continue
                        o_ = c_.op if not flip else {"Lt": "Gt", "Le": "Ge", "Gt": "Lt", "Ge": "Le"}[c_.op]
                        edge, top = {"Lt": (t_.t, k_ - 1), "Le": (t_.t, k_), "Gt": (t_.f, k_), "Ge": (t_.f, k_ - 1)}[o_]
                        if edge is not None and b.edge_dominates((t_.bb, edge), d[1]):
                            bounded = top <= cap_
                verdicts.append(None if bounded in (None, "unknown") else bounded)
            if verdicts and all(v is True for v in verdicts):
                ok = True
            elif verdicts and not any(v is False for v in verdicts):
                unknown_cap = True
        if ok:
            res.ok("R7-serde-cautious", "cautious", {"cap_elements": (1 << 20) // 4})
        elif unknown_cap:
            res.note("R7-serde-cautious: the size hint is capped by a constant whose value is not visible in MIR, or in a way the rule does not model - the 1 MiB bound is not decided")
            res.ok("R7-serde-cautious", "cautious", {"undecided": "named cap"}, nontrivial=False)
        else:
            res.fail(Finding("R7-serde-cautious", "cautious", "pre-allocation from an untrusted size hint is not capped at 1 MiB worth of u32 elements", b))
    else:
        res.fail(Finding("R7-anchor-lost", "cautious", "biguint::serde::cautious not found", file="src/biguint/serde.rs", line=0))
    # --- Serialize for BigUint: declared length and emission of the last high half test the same value
    bs = facts.find(trait="serde::Serialize", self_ty="biguint::BigUint", name="serialize")
    if len(bs) == 1:
        b = bs[0]
        ne_locals = []
        for i, si, s in b.stmts():
            rv = s.get("rv")
            if rv and rv["k"] == "binop" and rv["op"] in ("Ne", "Eq") and op_const(rv["b"]) == 0:
                l = core.op_local(rv["a"])
                # follow copies
                for _ in range(4):
                    ds = b.defs().get(l, [])
                    if len(ds) == 1 and ds[0][0] == "assign" and ds[0][3]["rv"]["k"] == "use" and core.op_local(ds[0][3]["rv"]["op"]) is not None:
                        l = core.op_local(ds[0][3]["rv"]["op"])
                    else:
                        break
                ne_locals.append((l, b.locals[l].get("name"), s["span"]["line"]))
        named = [x for x in ne_locals if x[1]]
        groups = {}
        for l, nm, ln in named:
            groups.setdefault(l, []).append(ln)
        same = [l for l, lns in groups.items() if len(lns) >= 2]
        if not any(callee_name(t) == "serialize_seq" for i, t in b.calls()):
            # 32-bit digits: the digit slice is already the u32 sequence and is serialised as such
            res.ok("R7-serde-len-agrees", "Serialize for BigUint", {"form": "forwards the digit slice (32-bit digits)"}, nontrivial=False)
        elif same:
            res.ok("R7-serde-len-agrees", "Serialize for BigUint", {"tested_local": b.locals[same[0]].get("name"), "uses": len(groups[same[0]])})
        else:
            # superseded by R7-serde-declared-length, which evaluates both sides; this syntactic form is only a cross-check
            res.note("R7-serde-len-agrees: the declared length and the emission of the last high u32 are not written as tests of one named value (decided by R7-serde-declared-length instead)")
            res.ok("R7-serde-len-agrees", "Serialize for BigUint", {"undecided": True}, nontrivial=False)
        # emission order: for every full digit lo then hi
    else:
        res.fail(Finding("R7-anchor-lost", "Serialize for BigUint", "impl not found", file="src/biguint/serde.rs", line=0))
    res.clause("R7: serde tables - Sign<->i8 {-1,0,1} with rejection of every other byte; BigInt <-> (sign, magnitude) through from_biguint; bounded pre-allocation; declared length and emitted tail test the same value")


def check_serde_hint_confined(ctx, res, config="all"):
    """the sequence's size hint (untrusted, capped by `cautious`) may only size the pre-allocation: it must not reach the
    deserialised value or decide when the element loop stops"""
    from . import r6

    facts = ctx.facts(config)
    n = 0
    for b in facts.bodies:
        if "serde" not in (b.file or "") or b.name != "visit_seq":
            continue
        b = core.inline_private(facts, b, keep=("biguint_from_vec", "normalized", "normalize"))  # element collection may live in a private helper
        sources = []
        for i, t in b.calls():
            if i in b.live_blocks() and callee_name(t) in ("size_hint", "cautious"):
                sources.append((i, "T", callee_name(t) + "()", t["span"]["line"]))
        if not sources:
            continue
        n += 1
        bad = r6.taint_reaches_result(b, sources)
        if bad:
            res.fail(Finding("R7-serde-hint-reaches-result", b.path, "the sequence's size hint (line %s: %s) influences the deserialised value (%s); a hint may only size the pre-allocation" % (bad[0], bad[1], bad[2]), b, bad[0]))
        else:
            res.ok("R7-serde-hint-confined", b.path, {"hint_sources": len(sources), "sink": "Vec::with_capacity only"})
    if n < 1:
        res.fail(Finding("R7-anchor-lost", "visit_seq", "no visit_seq body using a size hint found", file="src/biguint/serde.rs", line=0))
    res.clause("R7: in the serde visitors the size hint flows only into Vec::with_capacity (forward taint incl. control dependence): it cannot truncate or alter the value")


def check_serde_declared_length(ctx, res, config="all"):
    """Serialize for BigUint (64-bit digits): the length announced to serialize_seq equals the number of serialize_element calls
    that follow, for every digit count and every zero/non-zero pattern of the top digit's halves.  The announced length is
    *evaluated* from its MIR definition; the emitted count is per-iteration calls x digits + the tail calls whose controlling
    conditions (evaluated the same way) hold."""
    from . import r4
    from .r1 import _base_of_local

    facts = ctx.facts(config)
    bs = facts.find(trait="serde::Serialize", self_ty="biguint::BigUint", name="serialize")
    if len(bs) != 1:
        res.fail(Finding("R7-anchor-lost", "Serialize for BigUint", "impl not found", file="src/biguint/serde.rs", line=0))
        return
    b = bs[0]
    live = b.live_blocks()
    seqs = [(i, t) for i, t in b.calls() if callee_name(t) == "serialize_seq" and i in live]
    elems = [(i, t) for i, t in b.calls() if callee_name(t) == "serialize_element" and i in live]
    lens = [(i, t) for i, t in b.calls() if callee_name(t) == "len" and i in live]
    iters = [(i, t) for i, t in b.calls() if callee_name(t) == "into_iter" and i in live]
    last_l = [l for l in range(len(b.locals)) if b.locals[l].get("name") == "last"]
    if len(seqs) != 1 or not elems or len(lens) != 1 or len(iters) != 1 or len(last_l) != 1:
        res.note("R7-serde-declared-length: Serialize for BigUint has a shape the rule does not model (%d serialize_seq, %d len, %d loops, %d `last`) - not decided" % (len(seqs), len(lens), len(iters), len(last_l)))
        res.clause("R7: announced sequence length = number of emitted elements (not decided: unmodelled shape)")
        return
    # the loop runs over the slice whose len() is announced
    def base_of(op):
        pl = core.op_place(op)
        return _base_of_local(b, pl["local"]) if pl else None

    same_slice = base_of(lens[0][1]["args"][0]) == base_of(iters[0][1]["args"][0])
    if not same_slice:
        # the loop may run over an adaptor chain on the slice: data.iter().map(..), .copied(), .rev() ...
        fl_ = core.Flow(b, transparent={"iter", "map", "into_iter", "copied", "cloned", "by_ref", "deref", "as_ref", "as_slice"})
        r_len = fl_.roots_of_operand(lens[0][1]["args"][0])
        r_it = {r for r in fl_.roots_of_operand(iters[0][1]["args"][0]) if r[0] != "local" or "closure" not in b.local_ty(r[1])}
        closure_free = {r for r in r_it if not (r[0] == "local" and b.local_ty(r[1]).startswith("{closure"))}
        same_slice = bool(r_len) and r_len <= closure_free | r_it and bool(closure_free & r_len)
    # the announced length operand: serialize_seq(.., Some(len))
    opt = core.op_local(seqs[0][1]["args"][1])
    ds = b.defs().get(opt, []) if opt is not None else []
    if not (len(ds) == 1 and ds[0][0] == "assign" and ds[0][3]["rv"]["k"] == "aggregate" and ds[0][3]["rv"]["ops"]):
        res.note("R7-serde-declared-length: the length argument is not Some(expr) - not decided")
        res.clause("R7: announced sequence length = number of emitted elements (not decided)")
        return
    len_op = ds[0][3]["rv"]["ops"][0]

    def in_loop(i):
        return any(i in b.reachable(s_) for s_ in b.succ(i))

    loop_calls = [i for i, t in elems if in_loop(i)]
    tail_calls = [i for i, t in elems if not in_loop(i)]

    def emitted_tail(env):
        cnt = 0
        for i in tail_calls:
            ok = True
            for j, tt in b.terms("switch"):
                if j not in live or j == i or in_loop(j) or not b.block_dominates(j, i):
                    continue
                dl = core.op_local(tt["discr"])
                dd = b.defs().get(dl, []) if dl is not None else []
                if len(dd) == 1 and dd[0][0] == "assign" and dd[0][3]["rv"]["k"] == "discriminant":
                    continue  # `?` and Option matches
                v = r4.eval_int(b, tt["discr"], env)
                taken = None
                for val, tgt in tt["targets"]:
                    if int(v) == val:
                        taken = tgt
                if taken is None:
                    taken = tt.get("otherwise")
                # is the call only reachable through the edge that is taken?
                edges = [tgt for val, tgt in tt["targets"]] + ([tt["otherwise"]] if tt.get("otherwise") is not None else [])
                through = [e for e in edges if b.edge_dominates((j, e), i)]
                if through and taken not in through:
                    ok = False
            if ok:
                cnt += 1
        return cnt

    bad = None
    bad_canon = None
    cases = 0
    try:
        for n in (0, 1, 2, 5):
            for lo in (0, 9, 0xFFFFFFFF):
                for hi in (0, 3):
                    env = {lens[0][1]["dest"]["local"]: n, last_l[0]: (hi << 32) | lo}
                    announced = r4.eval_int(b, len_op, env)
                    if isinstance(announced, tuple):
                        announced = announced[0]
                    emitted = len(loop_calls) * n + emitted_tail(env)
                    cases += 1
                    if announced != emitted and bad is None:
                        bad = (n, lo, hi, announced, emitted)
                    # "no trailing zero digit": the u32 sequence has 2 elements per full digit, the low half of the top digit
                    # and its high half exactly when that half is non-zero
                    canonical = 2 * n + 1 + (1 if hi else 0)
                    if (lo or hi) and emitted != canonical and bad_canon is None:
                        bad_canon = (n, lo, hi, emitted, canonical)
    except r4.CantEval as e:
        res.note("R7-serde-declared-length: the announced length cannot be evaluated from MIR (%s) - not decided" % e)
        res.clause("R7: announced sequence length = number of emitted elements (not decided)")
        return
    if not same_slice:
        res.fail(Finding("R7-serde-declared-length", "Serialize for BigUint", "the element loop does not run over the slice whose len() is announced", b))
    elif bad_canon and not bad:
        res.fail(Finding("R7-serde-trailing-zero", "Serialize for BigUint", "%d elements are emitted for %d full digits and a top digit with low half %#x, high half %#x; the base-2^32 sequence without a trailing zero digit has %d" % (bad_canon[3], bad_canon[0], bad_canon[1], bad_canon[2], bad_canon[4]), b, seqs[0][1]["span"]["line"]))
    elif bad:
        res.fail(Finding("R7-serde-declared-length", "Serialize for BigUint", "announced length %d but %d elements are emitted for %d full digits and a top digit with low half %s, high half %s: a length-prefixed format drops or misreads digits" % (bad[3], bad[4], bad[0], "zero" if not bad[1] else "non-zero", "zero" if not bad[2] else "non-zero"), b, seqs[0][1]["span"]["line"]))
    else:
        res.ok("R7-serde-declared-length", "Serialize for BigUint", {"cases_evaluated": cases, "per_digit_elements": len(loop_calls), "tail_elements": len(tail_calls)})
    res.clause("R7: the length announced to serialize_seq equals the number of emitted elements for every digit count and top-digit pattern (both evaluated from MIR)")


def check_serde_zero_is_empty(ctx, res, config="all"):
    """zero serializes as the empty sequence: in Serialize for BigUint, on the path where the digit vector is empty (`split_last()`
    answered None, `is_empty()` held, `len() == 0`) no element is emitted"""
    from .tests import tests_of, fate

    facts = ctx.facts(config)
    bs = facts.find(trait="serde::Serialize", self_ty="biguint::BigUint", name="serialize")
    if len(bs) != 1:
        res.fail(Finding("R7-anchor-lost", "Serialize for BigUint (zero)", "impl not found", file="src/biguint/serde.rs", line=0))
        return
    b0 = bs[0]
    b = core.inline_private(facts, b0, depth=2)
    live = b.live_blocks()
    elems = [i for i, t in b.calls() if callee_name(t) == "serialize_element" and i in live]
    if not elems:
        # the sequence is handed over as a whole (collect_seq / a slice's own impl): nothing is emitted element by element
        res.note("R7-serde-zero-empty: Serialize for BigUint emits no element itself (the sequence is serialized as a whole) - the empty case is not decided here")
        res.clause("R7: zero serializes as the empty sequence (not decided: no per-element emission)")
        return
    tl, atoms = tests_of(b)
    empty_edges = []
    for t in tl:
        # Option discriminant of split_last()/last()/first() on the digit vector
        if t.values is not None and t.subj is not None and {"split_last", "last", "split_first", "first"} & calls_of(t.subj) and params_of(t.subj) == {1} \
                and calls_of(t.subj) <= {"split_last", "last", "split_first", "first", "deref", "as_slice", "as_ref", "iter"}:
            # the None edge: value 0, or `otherwise` of an `if let Some(..)`
            if 0 in t.values:
                empty_edges.append((t.bb, t.values[0]))
            elif 1 in t.values and t.values.get("otherwise") is not None:
                empty_edges.append((t.bb, t.values["otherwise"]))
        c = t.cond
        if c is not None and c.kind == "call" and c.name == "is_empty" and c.args and params_of(c.args[0]) == {1} and t.t is not None:
            empty_edges.append((t.bb, t.t))
        if c is not None and c.kind == "cmp" and c.op in ("Eq", "Ne") and (("len" in calls_of(c.a) and 0 in consts_of(c.b)) or ("len" in calls_of(c.b) and 0 in consts_of(c.a))):
            tgt = t.t if c.op == "Eq" else t.f
            if tgt is not None:
                empty_edges.append((t.bb, tgt))
    if not empty_edges:
        res.note("R7-serde-zero-empty: no test of the digit vector for emptiness found in Serialize for BigUint - the empty case is not decided")
        res.clause("R7: zero serializes as the empty sequence (not decided: emptiness test not recognised)")
        return
    bad = None
    for (sb, tgt) in empty_edges:
        region = b.reachable(tgt, without_blocks=[sb])
        hit = [e for e in elems if e in region]
        if hit:
            bad = (sb, hit[0])
    if bad:
        res.fail(Finding("R7-serde-zero-empty", "serialize", "on the path where the digit vector is empty, Serialize for BigUint still emits an element (line %s): zero must be the empty sequence" % b.blocks[bad[1]]["term"]["span"]["line"], b0, b.blocks[bad[1]]["term"]["span"]["line"]))
    else:
        res.ok("R7-serde-zero-empty", "serialize", {"empty_paths": len(empty_edges)})
    res.clause("R7: on the empty-digit-vector path Serialize for BigUint emits no element (zero is the empty sequence)")
