#!/bin/bash
# usage: seedrun.sh <patch> [props...]  -> prints which properties fire on a scratch copy with the patch applied
# (one process for all properties: nbsa.seedmatrix; SEEDRUN_JSON=<file> keeps the full finding list as JSON lines)
P=$1; shift
J=${SEEDRUN_JSON:-$(mktemp /var/tmp/nbsr.XXXXXX)}
cd /verif && python3 -m nbsa.seedmatrix "$P" "$@" > "$J" 2>&1
python3 - "$J" <<'PY'
import sys, json, collections
d = collections.OrderedDict()
bad = []
for l in open(sys.argv[1]):
    try:
        j = json.loads(l)
    except ValueError:
        bad.append(l.rstrip()); continue
    if "error" in j:
        print("PATCH FAILED")
    if "rule" in j:
        d.setdefault(j["property"], []).append("rule=%s instance=%s" % (j["rule"], j["key"]))
for p, v in d.items():
    print("FIRES %s: %s" % (p, ";".join(sorted(set(v))[:4])[:400]))
for b in bad[-5:]:
    print("ERR " + b[:300])
PY
[ -z "$SEEDRUN_JSON" ] && rm -f "$J"
echo "done $P"
