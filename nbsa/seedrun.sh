#!/bin/bash
# usage: seedrun.sh <patch> [props...]  -> prints which properties fire on a scratch copy with the patch applied
P=$1; shift
PROPS="$@"
if [ -z "$PROPS" ]; then PROPS=$(python3 -c "
import json;print(' '.join(c['property_id'] for c in json.load(open('/verif/MANIFEST.json'))['checks']))"); fi
W=$(mktemp -d /var/tmp/nbwt.XXXXXX)
trap 'rm -rf "$W"' EXIT
rsync -a --exclude target --exclude .git /repo/ "$W/"
( cd "$W" && patch -p1 -s < "$P" ) || { echo "PATCH FAILED"; exit 2; }
for c in $PROPS; do
  out=$(/verif/vf check "$c" --repo "$W" 2>&1)
  if echo "$out" | grep -q "^VIOLATION"; then
     echo "FIRES $c: $(echo "$out" | grep '  rule=' | sed 's/^  //' | sort -u | head -4 | tr '\n' ';' | cut -c1-400)"
  fi
done
echo "done $P"
