#!/bin/bash
# usage: extract.sh <repo> <outdir> <tag> <profile: dev|rel> [cargo feature flags...]
set -e
REPO=$1; OUT=$2; TAG=$3; PROF=$4; shift 4
T=$(mktemp -d /var/tmp/nbfacts-target.XXXXXX)
trap 'rm -rf "$T"' EXIT
SYS=$(rustc +nightly --print sysroot)
FLAGS="-Zmir-opt-level=0 -Awarnings"
if [ "$PROF" = rel ]; then FLAGS="$FLAGS -C debug-assertions=off -C overflow-checks=off"; fi
mkdir -p "$OUT"
cd "$REPO"
LD_LIBRARY_PATH=$SYS/lib RUSTFLAGS="$FLAGS" RUSTC_WORKSPACE_WRAPPER=/verif/driver/target/release/nbfacts \
  NBFACTS_OUT=$OUT NBFACTS_TAG=$TAG CARGO_TARGET_DIR=$T CARGO_NET_OFFLINE=true \
  cargo +nightly check --offline --lib "$@"
