"""R1 - canonical-form typestate (necessary-condition form).

I1: an escaping BigUint has no high zero digit.  The digit vector is private and IntDigits / biguint_from_vec are
crate-internal (closed world), so only the crate's own bodies can break I1.  Rule (must-pass-through): in every body,
after the last denormalising write to the digit vector of a BigUint root that escapes the body, every path to a return
passes a normaliser of that root.  Writes whose normal-form preservation rests on arithmetic are trusted by exact def
path with a reason (table below); new unproved writers are reported.

I2 (BigInt sign <-> zero consistency) is decided by R5's canonical-result checks; here we only check *coverage*: every
body that writes a BigInt's sign or builds a BigInt is either an R5-verified target or a reviewed entry."""
from . import core
from .core import Finding, callee, callee_fn, callee_name, op_local, op_const
from .tests import tests_of

BIGUINT = "biguint::BigUint"
VEC = "alloc::vec::Vec<u64>"

# calls on a `&mut` digit pointer that cannot create a high zero digit
SAFE_MUT = {"clear", "reserve", "reserve_exact", "shrink_to_fit", "shrink_to", "capacity", "len", "is_empty", "as_ptr", "last", "first", "iter", "clone_from"}
# calls that only derive another pointer / view
PROPAGATE = {"deref_mut", "deref", "index_mut", "index", "as_mut_slice", "as_mut", "iter_mut", "into_iter", "split_at_mut", "as_mut_ptr", "borrow_mut", "digits_mut", "rev", "zip", "enumerate", "skip", "take", "chunks_mut", "next", "by_ref", "split_first_mut", "split_last_mut", "last_mut", "first_mut", "get_mut"}
NORMALISERS = {"normalize", "normalized", "biguint_from_vec", "set_zero", "set_one", "assign_from_slice"}
# reads that interpret the digit vector as a number: wrong on a vector with high zero digits
VALUE_READS = {"cmp", "partial_cmp", "lt", "le", "gt", "ge", "eq", "ne", "is_zero", "is_one", "bits", "hash", "is_even", "is_odd"}

# trusted post-conditions (normal form preserved for an arithmetic reason the analysis cannot see)
TRUSTED = {
    "biguint::addition::<impl core::ops::AddAssign<&biguint::BigUint> for biguint::BigUint>::add_assign": "sum >= each operand; the top digit wraps only together with a carry, and the carry is pushed",
    "biguint::addition::<impl core::ops::AddAssign<u32> for biguint::BigUint>::add_assign": "non-zero addend keeps the value >= old value; carry pushed; push(0) padding is overwritten by the non-zero addend",
    "biguint::addition::<impl core::ops::AddAssign<u64> for biguint::BigUint>::add_assign": "as AddAssign<u32>",
    "biguint::addition::<impl core::ops::AddAssign<u128> for biguint::BigUint>::add_assign": "as AddAssign<u32> (padding digits hold the non-zero high words of the addend)",
    "biguint::bits::<impl core::ops::BitOrAssign<&biguint::BigUint> for biguint::BigUint>::bitor_assign": "OR never clears a bit; the extension copies a normal tail",
    "biguint::multiplication::scalar_mul": "factor >= 2 and non-zero value: a zero low word of the top product implies a non-zero pushed carry",
    "biguint::convert::<impl core::convert::From<u128> for biguint::BigUint>::from": "the loop pushes digits while the remaining value is non-zero: the last pushed digit is non-zero",
    "biguint::convert::<impl core::convert::From<u64> for biguint::BigUint>::from": "the loop pushes digits while the remaining value is non-zero",
    "biguint::BigUint::set_bit": "setting a bit extends with zeros only below the bit that is then set; clearing ends in normalize()",
    "<biguint::BigUint as num_traits::One>::one": "the literal is vec![1]: a single non-zero digit",
    "biguint::BigUint::normalize": "the normaliser itself (its body is checked by R1-normalize-body)",
    "biguint::monty::montgomery": "private: returns an almost-reduced value that may carry high zeros; monty_modpow normalises before any comparison/escape",
}


DENORMAL_RETURN = {"biguint::monty::montgomery"}


def _root_of_place(b, pl, depth=0):
    """(base, fields) of the BigUint that owns this place if the place is inside a BigUint's digit vector, else None.
    base: ('param', n) | ('local', n)"""
    fields = []
    ty_chain = []
    for e in pl["proj"]:
        if e["k"] == "field":
            fields.append((e.get("adt"), e.get("name")))
    # find a projection `.data` whose owner adt is BigUint
    idx = None
    for i, (adt, nm) in enumerate(fields):
        if adt == BIGUINT and nm == "data":
            idx = i
            break
    if idx is None:
        return None
    prefix = tuple(nm for (adt, nm) in fields[:idx])
    base = _base_of_local(b, pl["local"], depth)
    if base is None:
        return None
    return (base[0], base[1], base[2] + prefix)


def _base_of_local(b, l, depth=0):
    """resolve a (reference) local to the place it points to: ('param', n, fields) / ('local', n, fields)"""
    if depth > 8:
        return None
    ty = b.local_ty(l)
    if b.is_param(l):
        return ("param", l, ())
    if not ty.startswith("&"):
        return ("local", l, ())
    ds = b.defs().get(l, [])
    if len(ds) != 1 or ds[0][0] != "assign":
        return ("local", l, ())
    rv = ds[0][3]["rv"]
    if rv["k"] in ("ref", "copyforderef"):
        pl = rv["place"]
    elif rv["k"] == "use" and core.op_place(rv["op"]):
        pl = rv["op"]["place"]
    else:
        return ("local", l, ())
    inner = _base_of_local(b, pl["local"], depth + 1)
    if inner is None:
        return None
    f = tuple(e.get("name") for e in pl["proj"] if e["k"] == "field")
    return (inner[0], inner[1], inner[2] + f)


def normaliser_summaries(facts):
    """local functions that normalise one of their (reference) parameters on every path: path -> set of param indexes.
    Lets `x.normalize()` be moved into a helper without the rule losing sight of it."""
    cached = getattr(facts, "_r1_norm", None)
    if cached is not None:
        return cached
    summ = {}
    facts._r1_norm = summ
    for _round in range(3):
        changed = False
        for b in facts.bodies:
            if b.kind == "Closure":
                continue
            for k in range(1, b.arg_count + 1):
                if k in summ.get(b.path, set()):
                    continue
                ty = b.local_ty(k)
                if "BigUint" not in ty and "BigInt" not in ty:
                    continue
                blocks = []
                for i, t in b.calls():
                    if i not in b.live_blocks() or not t["args"]:
                        continue
                    nm = callee_name(t)
                    cp = callee(t)
                    is_norm = nm in ("normalize", "normalized") or 1 in summ.get(cp, set()) and True
                    idxs = {1} if nm in ("normalize", "normalized") else summ.get(cp, set())
                    for j in idxs:
                        if j - 1 < len(t["args"]):
                            pl = core.op_place(t["args"][j - 1])
                            if pl is None:
                                continue
                            base = _base_of_local(b, pl["local"])
                            if base and base[0] == "param" and base[1] == k and not base[2] and not [e for e in pl["proj"] if e["k"] == "field"]:
                                blocks.append(i)
                if not blocks:
                    continue
                r = b.reachable(0, without_blocks=blocks)
                if not any(x in r for x in b.return_blocks()):
                    summ.setdefault(b.path, set()).add(k)
                    changed = True
        if not changed:
            break
    return summ


def analyse_body(facts, b):
    """returns list of problems [(root, write description, line)] for body b"""
    live = b.live_blocks()
    summ = normaliser_summaries(facts)
    # 1. seeds: locals holding `&mut <root>.data...`
    derived = {}  # local -> root
    for i, si, s in b.stmts():
        if i not in live or s["k"] != "assign":
            continue
        rv = s["rv"]
        if rv["k"] in ("ref", "rawptr") and rv.get("mut") and not s["place"]["proj"]:
            r = _root_of_place(b, rv["place"])
            if r is not None:
                derived[s["place"]["local"]] = r
    # `x.digits_mut()` on a pointer to a BigUint / BigInt hands out the digit vector as well
    for i, t in b.calls():
        if i not in live or callee_name(t) != "digits_mut" or not t["args"] or t["dest"]["proj"]:
            continue
        pl = core.op_place(t["args"][0])
        if pl is None:
            continue
        base = _base_of_local(b, pl["local"])
        if base is None:
            continue
        f = tuple(e.get("name") for e in pl["proj"] if e["k"] == "field")
        ce = callee(t) or ""
        own = "bigint::BigInt" if "bigint::BigInt" in ce else BIGUINT
        r = (base[0], base[1], base[2] + f + ((("data",)) if own != BIGUINT else ()))
        derived[t["dest"]["local"]] = r
    denorm = getattr(facts, "_r1_denorm", {})
    if not derived and not any(s["k"] == "assign" and s["rv"]["k"] == "aggregate" and s["rv"].get("adt") == BIGUINT for i, si, s in b.stmts()) and not any(callee(t) in DENORMAL_RETURN or callee(t) in denorm for i, t in b.calls()):
        return None
    # 2. propagate through copies / reborrows / pointer-deriving calls / iterator items
    changed = True
    n = 0
    while changed and n < 30:
        changed = False
        n += 1
        for i, si, s in b.stmts():
            if s["k"] != "assign" or s["place"]["proj"]:
                pass
            if s["k"] == "assign":
                rv = s["rv"]
                src = None
                if rv["k"] == "use" and core.op_place(rv["op"]):
                    src = core.op_place(rv["op"])["local"]
                elif rv["k"] in ("ref", "rawptr", "copyforderef"):
                    src = rv["place"]["local"]
                elif rv["k"] == "cast" and core.op_place(rv["op"]):
                    src = core.op_place(rv["op"])["local"]
                elif rv["k"] == "aggregate":
                    for o in rv["ops"]:
                        pl = core.op_place(o)
                        if pl and pl["local"] in derived:
                            src = pl["local"]
                if src is not None and src in derived:
                    d = s["place"]["local"]
                    tyd = b.local_ty(d)
                    if d not in derived and ("&mut" in tyd or "IterMut" in tyd or "*mut" in tyd or "Option<" in tyd or "(" in tyd or "Zip" in tyd or "Rev" in tyd or "Enumerate" in tyd or "ChunksMut" in tyd):
                        derived[d] = derived[src]
                        changed = True
        for i, t in b.calls():
            nm = callee_name(t)
            if nm in PROPAGATE:
                for a in t["args"]:
                    pl = core.op_place(a)
                    if pl and pl["local"] in derived:
                        d = t["dest"]["local"]
                        tyd = b.local_ty(d)
                        if d not in derived and ("&mut" in tyd or "IterMut" in tyd or "*mut" in tyd or "Option<" in tyd or "(" in tyd or "Zip" in tyd or "Rev" in tyd or "Enumerate" in tyd or "ChunksMut" in tyd):
                            derived[d] = derived[pl["local"]]
                            changed = True
    # 3. events
    writes = {}  # root -> list of (bb, desc, line)
    norms = {}  # root -> set of bb
    tl = None
    for i, t in b.calls():
        if i not in live:
            continue
        nm = callee_name(t)
        # normalisers: called on a pointer to the root itself (not to its data) or by value
        sidx = summ.get(callee(t), set()) if (callee_fn(t) or {}).get("local") else set()
        if nm in NORMALISERS or sidx:
            for a in ([t["args"][j - 1] for j in sorted(sidx) if j - 1 < len(t["args"])] if (sidx and nm not in NORMALISERS) else t["args"][:1]):
                pl = core.op_place(a)
                if pl is None:
                    continue
                base = _base_of_local(b, pl["local"])
                if base is not None:
                    f = tuple(e.get("name") for e in pl["proj"] if e["k"] == "field")
                    r = (base[0], base[1], base[2] + f)
                    norms.setdefault(r, set()).add(i)
                    # normalising a BigInt normalises its magnitude
                    norms.setdefault((r[0], r[1], r[2] + ("data",)), set()).add(i)
            continue
        for ai, a in enumerate(t["args"]):
            pl = core.op_place(a)
            if pl is None or pl["local"] not in derived:
                continue
            r = derived[pl["local"]]
            if nm in PROPAGATE or nm in SAFE_MUT:
                continue
            if nm == "push":
                v = t["args"][1]
                c = op_const(v)
                if c is not None and c != 0:
                    continue
                # guarded by v != 0 on the same value?
                if tl is None:
                    tl, atoms = tests_of(b)
                vl = op_local(v)
                ok = False
                for tst in tl:
                    cnd = tst.cond
                    if cnd is not None and cnd.kind == "cmp" and cnd.op in ("Ne", "Eq", "Gt") and op_const(cnd.rb) == 0:
                        tl_ = op_local(cnd.ra)
                        if tl_ is not None and vl is not None and _same_value(b, tl_, vl):
                            nz = tst.f if cnd.op == "Eq" else tst.t
                            if b.edge_dominates((tst.bb, nz), i):
                                ok = True
                if ok:
                    continue
            if nm in ("extend_from_slice", "extend") and _extends_with_normal_tail(b, t):
                continue
            writes.setdefault(r, []).append((i, "%s(..)" % nm, t["span"]["line"]))
    # results of private helpers that are allowed to return a value with high zero digits
    def moved_into(l):
        # an unnamed temporary that is moved into a variable: the variable is the root
        for _ in range(4):
            if b.locals[l].get("name"):
                return l
            nxt = [s2["place"]["local"] for _i, _si, s2 in b.stmts() if s2["k"] == "assign" and not s2["place"]["proj"] and s2["rv"]["k"] == "use" and s2["rv"]["op"]["k"] == "move" and op_local(s2["rv"]["op"]) == l]
            if len(set(nxt)) != 1:
                return l
            l = nxt[0]
        return l

    for i, t in b.calls():
        if i in live and callee(t) in denorm:
            for k, cf in denorm[callee(t)].items():
                if k - 1 >= len(t["args"]):
                    continue
                pl = core.op_place(t["args"][k - 1])
                if pl is None:
                    continue
                base = _base_of_local(b, pl["local"])
                if base is None:
                    continue
                f = tuple(e.get("name") for e in pl["proj"] if e["k"] == "field")
                writes.setdefault((base[0], base[1], base[2] + f + tuple(cf)), []).append((i, "%s(..) leaves its argument unnormalised" % callee(t).split("::")[-1], t["span"]["line"]))
    for i, t in b.calls():
        if i in live and callee(t) in DENORMAL_RETURN and not t["dest"]["proj"]:
            writes.setdefault(("local", moved_into(t["dest"]["local"]), ()), []).append((i, "result of %s (may carry high zero digits)" % callee(t).split("::")[-1], t["span"]["line"]))
    for i, si, s in b.stmts():
        if i not in live or s["k"] != "assign":
            continue
        pl = s["place"]
        if pl["proj"] and pl["local"] in derived and any(e["k"] == "deref" for e in pl["proj"]):
            writes.setdefault(derived[pl["local"]], []).append((i, "store through digit pointer", s["span"]["line"]))
        # direct store into <root>.data (whole vector) from something that is not a normal vector
        r = _root_of_place(b, pl) if pl["proj"] else None
        if r is not None and pl["proj"][-1].get("name") == "data" and pl["proj"][-1].get("adt") == BIGUINT:
            if not _normal_vec_source(b, s["rv"]):
                writes.setdefault(r, []).append((i, "digit vector replaced", s["span"]["line"]))
        # struct literal
        rv = s["rv"]
        if rv["k"] == "aggregate" and rv.get("adt") == BIGUINT and not pl["proj"]:
            if not _normal_vec_source(b, {"k": "use", "op": rv["ops"][0]}):
                writes.setdefault(("local", pl["local"], ()), []).append((i, "BigUint { data } literal", s["span"]["line"]))
    # 3b. value-level reads of a root (comparisons, zero/one tests, bit length): only meaningful on a normal value
    value_uses = {}
    for i, t in b.calls():
        if i not in live:
            continue
        nm = callee_name(t)
        if nm in VALUE_READS:
            for a in t["args"]:
                pl = core.op_place(a)
                if pl is None:
                    continue
                base = _base_of_local(b, pl["local"])
                if base is None or base[0] != "local":
                    continue
                f = tuple(e.get("name") for e in pl["proj"] if e["k"] == "field")
                r = (base[0], base[1], base[2] + f)
                if "biguint::BigUint" in b.local_ty(base[1]) or "bigint::BigInt" in b.local_ty(base[1]):
                    value_uses.setdefault(r, []).append((i, nm, t["span"]["line"]))
    # 4. obligations
    problems = []
    rets = set(b.return_blocks())
    for r, ws in writes.items():
        ns = norms.get(r, set())
        for (ubb, unm, uline) in value_uses.get(r, []):
            for (wbb, desc, line) in ws:
                if wbb == ubb:
                    continue
                reach = b.reachable(wbb, without_blocks=[x for x in ns if x != wbb])
                if ubb in reach and wbb not in ns:
                    problems.append((r, "%s, then read as a value by %s() at line %s without normalisation" % (desc, unm, uline), line))
                    break
    for r, ws in writes.items():
        if not _escapes(b, r):
            continue
        ns = norms.get(r, set())
        # by-value normalised(): look for calls consuming a move of the root local
        for (wbb, desc, line) in ws:
            # paths from the write to a return avoiding normalisers (a normaliser in the same block is the terminator, i.e. after the statements)
            start = [wbb] if b.blocks[wbb]["term"]["k"] != "call" or wbb not in ns else []
            if wbb in ns and b.blocks[wbb]["term"]["k"] == "call" and desc.startswith("store"):
                continue
            if wbb in ns and desc != "store through digit pointer" and not desc.startswith("BigUint") and not desc.startswith("digit vector"):
                # the write event *is* the call in this block and the block's call is also a normaliser: impossible
                pass
            seen = set()
            stack = list(b.succ(wbb)) if b.blocks[wbb]["term"]["k"] == "call" else list(b.succ(wbb))
            if desc in ("store through digit pointer", "BigUint { data } literal", "digit vector replaced") and wbb in ns:
                continue
            bad = False
            while stack:
                x = stack.pop()
                if x in seen:
                    continue
                seen.add(x)
                if x in ns:
                    continue
                if x in rets:
                    bad = True
                    break
                stack.extend(b.succ(x))
            if wbb in rets and wbb not in ns:
                bad = True
            if bad:
                problems.append((r, desc, line))
    return problems


def _same_value(b, l1, l2):
    def back(l):
        for _ in range(6):
            ds = b.defs().get(l, [])
            if len(ds) == 1 and ds[0][0] == "assign" and ds[0][3]["rv"]["k"] in ("use", "cast") and op_local(ds[0][3]["rv"]["op"]) is not None:
                rv_ = ds[0][3]["rv"]
                if rv_["k"] == "cast":
                    from .r2 import lossless_cast

                    if not lossless_cast(rv_["from"], rv_["to"]):
                        break  # a narrowing cast may turn a non-zero value into zero
                l = op_local(rv_["op"])
            else:
                break
        return l

    return back(l1) == back(l2)


def _extends_with_normal_tail(b, t):
    """extend_from_slice(&src.data[k..]) : a suffix of another BigUint's (normal) digit vector"""
    if len(t["args"]) < 2:
        return False
    fl = core.Flow(b, transparent={"deref", "index", "as_slice"})
    rr = fl.roots_of_operand(t["args"][1])
    for r in rr:
        if r[0] == "param" and "data" in r[2]:
            # a range index: must be RangeFrom (suffix) - find the index call
            for i, tt in b.calls():
                if callee_name(tt) == "index" and "RangeFrom" in (callee(tt) or ""):
                    return True
    return False


def _normal_vec_source(b, rv):
    """is the rvalue a digit vector known to be normal: Vec::new(), with_capacity, another BigUint's .data moved/cloned"""
    if rv["k"] != "use":
        return False
    op = rv["op"]
    pl = core.op_place(op)
    if pl is None:
        return False
    if any(e.get("name") == "data" and e.get("adt") == BIGUINT for e in pl["proj"]):
        return True
    l = pl["local"]
    for _ in range(6):
        ds = b.defs().get(l, [])
        if len(ds) != 1:
            return False
        d = ds[0]
        if d[0] == "call":
            nm = callee_name(d[2])
            if nm in ("new", "with_capacity"):
                # no later pushes? a fresh empty vector is normal; later writes are tracked through pointers to the *local vec*, not seen here
                return not _vec_local_written(b, l)
            if nm == "clone":
                a = d[2]["args"][0]
                apl = core.op_place(a)
                fl = core.Flow(b)
                rr = fl.roots_of_operand(a)
                return any(r[0] == "param" and "data" in r[2] for r in rr)
            return False
        if d[0] == "assign":
            rv2 = d[3]["rv"]
            if rv2["k"] == "use" and core.op_place(rv2["op"]):
                p2 = rv2["op"]["place"]
                if any(e.get("name") == "data" and e.get("adt") == BIGUINT for e in p2["proj"]):
                    return True
                l = p2["local"]
                continue
            return False
        return False
    return False


def _vec_local_written(b, l):
    for i, si, s in b.stmts():
        rv = s.get("rv")
        if rv and rv["k"] == "ref" and rv.get("mut") and rv["place"]["local"] == l:
            return True
    return False


def _escapes(b, r):
    kind, l, fields = r
    if kind == "param":
        # through a &mut parameter: always visible to the caller; a by-value parameter escapes if it is moved out
        if b.local_ty(l).startswith("&mut") or b.local_ty(l).startswith("&"):
            return True
    # local / by-value param: does it (or a move of it) reach the return place or a store through a parameter?
    moved = {l}
    changed = True
    n = 0
    while changed and n < 20:
        changed = False
        n += 1
        for i, si, s in b.stmts():
            if s["k"] != "assign":
                continue
            rv = s["rv"]
            srcs = [core.op_place(o)["local"] for o in core.rv_operands(rv) if core.op_place(o) and o["k"] in ("move", "copy") and not any(e["k"] == "deref" for e in core.op_place(o)["proj"])]
            if any(x in moved for x in srcs):
                d = s["place"]["local"]
                if d == 0 or (s["place"]["proj"] and b.is_param(d)):
                    return True
                if d not in moved and not s["place"]["proj"]:
                    moved.add(d)
                    changed = True
                elif d not in moved and s["place"]["proj"]:
                    moved.add(d)
                    changed = True
        for i, t in b.calls():
            for a in t["args"]:
                pl = core.op_place(a)
                if pl and a["k"] == "move" and pl["local"] in moved and not any(e["k"] == "deref" for e in pl["proj"]):
                    # passed by value to a call: escapes unless the callee is a normaliser
                    nm = callee_name(t)
                    if nm in NORMALISERS:
                        d = t["dest"]["local"]
                        continue
                    d = t["dest"]["local"]
                    if d == 0:
                        return True
                    if d not in moved:
                        moved.add(d)
                        changed = True
    return 0 in moved


def check_biguint_normal_form(ctx, res, config="all"):
    facts = ctx.facts(config)
    n_writers = 0
    n_lit = 0
    # private helpers that write the digits of a reference parameter and leave normalisation to their callers: their
    # calls are write events in the callers (summaries, fixpoint over at most 4 rounds)
    facts._r1_denorm = {}
    for _round in range(4):
        new = {}
        for b in facts.bodies:
            if b.exported() or b.kind == "Closure" or b.path in TRUSTED:
                continue
            try:
                probs = analyse_body(facts, b)
            except RecursionError:
                probs = None
            for (r, desc, line) in probs or []:
                if r is not None and r[0] == "param" and b.local_ty(r[1]).startswith("&mut"):
                    new.setdefault(b.path, {})[r[1]] = tuple(r[2])
        if new == facts._r1_denorm:
            break
        facts._r1_denorm = new
    summarised = facts._r1_denorm
    for b in facts.bodies:
        try:
            probs = analyse_body(facts, b)
        except RecursionError:
            probs = [(None, "analysis recursion", b.line)]
        if probs is None:
            continue
        n_writers += 1
        if b.path in summarised:
            probs = [p_ for p_ in probs if not (p_[0] is not None and p_[0][0] == "param" and p_[0][1] in summarised[b.path])]
            if not probs:
                res.ok("R1-normal-form", b.path, {"private helper": "leaves its &mut argument to be normalised by its callers (call sites are write events)"}, nontrivial=True)
                continue
        if not probs:
            res.ok("R1-normal-form", b.path, None, nontrivial=True)
            continue
        if b.path in TRUSTED:
            res.ok("R1-normal-form", b.path, {"trusted": TRUSTED[b.path]}, nontrivial=False)
            res.assume("normal form after %s: %s" % (b.path.split("::")[-1] if "impl" not in b.path else b.path, TRUSTED[b.path]))
            continue
        r, desc, line = probs[0]
        res.fail(
            Finding(
                "R1-unnormalised-escape",
                b.path,
                "a BigUint whose digit vector is written (%s, line %s) can reach a return of this function without passing normalize()/normalized()/biguint_from_vec: "
                "a high zero digit would escape and break Eq/Ord/Hash/is_zero (%d such path(s))" % (desc, line, len(probs)),
                b,
                line,
            )
        )
    for b in facts.bodies:
        for i, si, s in b.stmts():
            if s["k"] == "assign" and s["rv"]["k"] == "aggregate" and s["rv"].get("adt") == BIGUINT:
                n_lit += 1
    res.count("R1 bodies writing a BigUint representation", n_writers)
    res.count("R1 BigUint struct literals", n_lit)
    if config in ("all", "all-rel"):
        if n_writers < 30:
            res.fail(Finding("R1-anchor-lost", "writers", "only %d representation-writing bodies found (floor 30)" % n_writers, file="src/biguint.rs", line=0))
        if n_lit < 6:
            res.fail(Finding("R1-anchor-lost", "literals", "only %d BigUint literals found (floor 6)" % n_lit, file="src/biguint.rs", line=0))
    res.clause("R1: in every body, a BigUint whose digit vector is written and which escapes passes normalize()/normalized()/biguint_from_vec on every path from the write to a return (or is a reviewed arithmetic exception)")


def check_closed_world(ctx, res, config="all"):
    facts = ctx.facts(config)
    # private fields
    for adt, fields in (("biguint::BigUint", ["data"]), ("bigint::BigInt", ["sign", "data"])):
        a = facts.adts.get(adt)
        if not a:
            res.fail(Finding("R1-anchor-lost", adt, "ADT not found", file="src", line=0))
            continue
        for v in a["variants"]:
            for f in v["fields"]:
                if f["name"] in fields:
                    if f["public"]:
                        res.fail(Finding("R1-closed-world", "%s.%s" % (adt, f["name"]), "representation field is public: code outside the crate can break the canonical form", file="src", line=0))
                    else:
                        res.ok("R1-closed-world", "%s.%s" % (adt, f["name"]), {"visibility": f["vis"]})
    # crate-internal helpers must not be reachable from outside
    for nm in ("biguint::IntDigits", "biguint::biguint_from_vec"):
        its = facts.items.get(nm, [])
        if not its:
            res.fail(Finding("R1-anchor-lost", nm, "item not found", file="src/biguint.rs", line=0))
            continue
        if any(it["reachable"] for it in its):
            res.fail(Finding("R1-closed-world", nm, "%s is reachable from outside the crate: external code could build or mutate non-canonical values" % nm, file=its[0]["file"], line=its[0]["line"]))
        else:
            res.ok("R1-closed-world", nm, {"reachable": False})
    # no exported function hands out `&mut` access to the representation
    bad = 0
    for b in facts.bodies:
        if not b.exported() or b.kind == "Closure":
            continue
        out = b.j.get("output", "")
        if out.startswith("&mut") and ("Vec<u64>" in out or "[u64]" in out or "BigUint" in out and b.self_ty and "BigInt" in b.self_ty):
            bad += 1
            res.fail(Finding("R1-closed-world", b.path, "exported function returns mutable access to the representation (%s)" % out, b))
    if not bad:
        res.ok("R1-closed-world", "no-mut-accessor", {"exported_fns_checked": sum(1 for b in facts.bodies if b.exported())})
    res.clause("R1 closed world: BigUint.data, BigInt.sign, BigInt.data are private; IntDigits and biguint_from_vec are not reachable from outside; no exported function returns &mut access to the representation")


def check_normalize_body(ctx, res, config="all"):
    """BigUint::normalize strips *all* high zero digits: truncation length = (index of the last non-zero digit) + 1, or 0"""
    facts = ctx.facts(config)
    bs = facts.find(suffix="biguint::BigUint::normalize")
    if len(bs) != 1:
        res.fail(Finding("R1-anchor-lost", "normalize", "BigUint::normalize not found", file="src/biguint.rs", line=0))
        return
    b = bs[0]
    errs = []
    names = [callee_name(t) for i, t in b.calls() if i in b.live_blocks()]
    if "truncate" not in names and "pop" in names and "last" in names:
        # idiom B: `while let Some(&0) = self.data.last() { self.data.pop(); }` - pop in a cycle that is entered exactly when the
        # last digit is zero and left when the vector is empty or its last digit is non-zero
        pops = [i for i, t in b.calls() if callee_name(t) == "pop" and i in b.live_blocks()]
        lasts = [i for i, t in b.calls() if callee_name(t) == "last" and i in b.live_blocks()]
        ok_b = False
        for pi in pops:
            in_cycle = any(pi in b.reachable(s_) for s_ in b.succ(pi))
            # the pop is reached only through the `== 0` edge of a switch on the digit behind last()
            guarded = False
            for j, t in b.terms("switch"):
                if j not in b.live_blocks() or not b.block_dominates(j, pi):
                    continue
                m = core.switch_edges(b, j)
                if 0 in m and b.edge_dominates((j, m[0]), pi) and any(b.block_dominates(li, j) for li in lasts):
                    from .tests import Atoms as _A, calls_of as _co

                    if "last" in _co(_A(b).of_operand(t["discr"])):
                        guarded = True
            # ... and every return is reached only when that test fails (or last() is None): a path from pop to return passes last() again
            back = all(any(li in b.reachable(pi, without_blocks=[r_]) for li in lasts) for r_ in b.return_blocks()) and not any(r_ in b.reachable(pi, without_blocks=lasts) for r_ in b.return_blocks())
            if in_cycle and guarded and back:
                ok_b = True
        if ok_b:
            res.ok("R1-normalize-body", b.path, {"idiom": "pop while the last digit is zero"})
        else:
            res.fail(Finding("R1-normalize-body", b.path, "normalize pops digits but not in a loop that runs exactly while the last digit is zero", b))
        errs = None
    elif "truncate" in names and "rposition" not in names and {"take_while", "count", "rev"} <= set(names):
        # idiom C: truncate(len - iter().rev().take_while(|d| d == 0).count())
        from .tests import Atoms as _A2, calls_of as _co2

        okc = False
        for i, t in b.calls():
            if callee_name(t) == "truncate" and i in b.live_blocks():
                a_ = _A2(b).of_operand(t["args"][1])
                if {"len", "count", "take_while", "rev"} <= _co2(a_):
                    okc = True
        pred = False
        for c_ in [c for c in facts.bodies if c.kind == "Closure" and c.j.get("closure_of") == b.path]:
            for i, si, s_ in c_.stmts():
                rv = s_.get("rv")
                if rv and rv["k"] == "binop" and rv["op"] == "Eq" and op_const(rv["b"]) == 0:
                    pred = True
        if okc and pred:
            res.ok("R1-normalize-body", b.path, {"idiom": "truncate(len - count of high zeros)"})
        else:
            res.note("R1-normalize-body: BigUint::normalize truncates by a count that is not recognisably the number of high zero digits - not decided")
            res.ok("R1-normalize-body", b.path, {"undecided": "unrecognised idiom"}, nontrivial=False)
        errs = None
    elif "rposition" not in names:
        # any other way of finding the new length (an index loop, a fold ...): not one of the three idioms the rule can judge
        res.note("R1-normalize-body: BigUint::normalize uses neither truncate(rposition+1), a pop-while-zero loop nor truncate(len - count of high zeros) - its stripping of all high zeros is not decided")
        res.ok("R1-normalize-body", b.path, {"undecided": "unrecognised idiom"}, nontrivial=False)
        errs = None
    if errs is None:
        pass
    elif "truncate" not in names:
        errs.append("no truncate() of the digit vector")
    if errs is not None and "rposition" not in names and "rposition" not in " ".join(n or "" for n in names):
        errs.append("the last non-zero digit is not located with rposition()")
    # the closure must test `digit != 0`
    cl = [c for c in facts.bodies if c.kind == "Closure" and c.j.get("closure_of") == b.path]
    okc = False
    for c in cl:
        for i, si, s in c.stmts():
            rv = s.get("rv")
            if rv and rv["k"] == "binop" and rv["op"] == "Ne" and op_const(rv["b"]) == 0:
                okc = True
    if not okc and errs is not None:
        errs.append("the rposition predicate is not `digit != 0`")
    # truncate length = map_or(0, |i| i + 1) of the rposition result
    from .tests import Atoms, calls_of, consts_of

    at = Atoms(b)
    for i, t in b.calls():
        if callee_name(t) == "truncate" and i in b.live_blocks():
            a = at.of_operand(t["args"][1])
            if errs is not None and (not ({"rposition", "map_or"} <= calls_of(a)) or 0 not in consts_of(a)):
                errs.append("truncate length is not rposition(..).map_or(0, |i| i + 1)")
    cl2 = [c for c in cl if any(s.get("rv", {}).get("k") == "binop" and s["rv"]["op"].startswith("Add") and op_const(s["rv"]["b"]) == 1 for i, si, s in c.stmts())]
    if not cl2 and errs is not None:
        errs.append("the kept length is not (index of last non-zero digit) + 1")
    if errs is None:
        pass
    elif errs:
        res.fail(Finding("R1-normalize-body", b.path, "; ".join(errs), b))
    else:
        res.ok("R1-normalize-body", b.path, {"truncate_to": "rposition(d != 0) + 1, or 0"})
    # normalized() = normalize then return self; biguint_from_vec = literal + normalized
    for suffix, need in (("biguint::BigUint::normalized", "normalize"), ("biguint::biguint_from_vec", "normalized")):
        bs = facts.find(suffix=suffix)
        if len(bs) != 1:
            res.fail(Finding("R1-anchor-lost", suffix, "not found", file="src/biguint.rs", line=0))
            continue
        names = [callee_name(t) for i, t in bs[0].calls() if i in bs[0].live_blocks()]
        if need in names:
            res.ok("R1-normalize-body", suffix, {"calls": need})
        else:
            res.fail(Finding("R1-normalize-body", suffix, "%s does not call %s" % (suffix, need), bs[0]))
    res.clause("R1: BigUint::normalize truncates to (index of the last non-zero digit) + 1; normalized() and biguint_from_vec go through it")


def check_no_constant_cut(ctx, res, config="all"):
    """`v.data.resize(K, 0)` / `truncate(K)` with a constant K on the digit vector of an operand (a parameter's BigUint/BigInt)
    drops the digits above K of a longer operand; it is acceptable only behind a test of that vector's length."""
    facts = ctx.facts(config)
    n = 0
    nsites = 0
    for b in facts.bodies:
        live = None
        for i, t in b.calls():
            nm = callee_name(t)
            if nm not in ("resize", "truncate") or len(t["args"]) < 2:
                continue
            ce = callee(t) or ""
            if "Vec" not in ce:
                continue
            if live is None:
                live = b.live_blocks()
            if i not in live:
                continue
            pl = core.op_place(t["args"][0])
            if pl is None:
                continue
            base = _base_of_local(b, pl["local"])
            if base is None or base[0] != "param" or not base[2] or base[2][-1] != "data":
                continue
            pty = b.local_ty(base[1])
            if "BigUint" not in pty and "BigInt" not in pty:
                continue
            nsites += 1
            k = op_const(t["args"][1])
            if k is None:
                kl = op_local(t["args"][1])
                if kl is not None:
                    ds = b.defs().get(kl, [])
                    if len(ds) == 1 and ds[0][0] == "assign" and ds[0][3]["rv"]["k"] == "use":
                        k = op_const(ds[0][3]["rv"]["op"])
            if k is None or k == 0:
                continue  # a computed length, or clearing the vector: not this rule
            n += 1
            # a dominating branch whose condition is computed from len() of the same vector
            guarded = False
            from .tests import Atoms

            at = Atoms(b)
            for j, tt in b.terms():
                if tt["k"] != "switch" or j not in live or j == i:
                    continue
                atoms = at.of_operand(tt["discr"])
                if not any(a[0] == "call" and a[1] == "len" for a in atoms):
                    continue
                if any(a[0] == "param" and a[1] == base[1] for a in atoms) and b.block_dominates(j, i):
                    guarded = True
                    break
            key = "%s|%s(%s)" % (b.path, nm, k)
            if guarded:
                res.ok("R1-constant-cut", key, {"guarded_by": "length test"})
            else:
                res.fail(Finding("R1-constant-cut", key, "the operand's digit vector is cut to the constant length %s by %s() (line %s) without a preceding test of its length: the high digits of a longer operand are discarded" % (k, nm, t["span"]["line"]), b, t["span"]["line"]))
    res.distinct.add("R1-constant-cut:all")
    res.count("resize/truncate sites on operand digit vectors", nsites)
    res.count("... with a constant length", n)
    res.clause("R1: no operand's digit vector is resized/truncated to a constant length without a dominating test of its length")
