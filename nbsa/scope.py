"""Attribution of findings to properties.

Most engines are shared: the normal-form rule, the guard tables, the abstract interpreter run under every property whose
behaviour needs them.  A finding, however, is *located* - it names a function of /repo - and a property is *anchored*
(properties.jsonl, anchors.files / anchors.mechanism).  A defect in `from_inexact_bitwise_digits_le` breaks text import (C06)
and value identity (C04); it does not make addition inexact, and C01's check must not say so.  This module decides, for a
finding produced by a clause that runs under property P, whether P is one of the properties the finding's location belongs
to.  A finding that is out of scope is not dropped silently: it becomes a note of the run ("located in ..., reported under
the properties anchored there").

Rules of attribution, in this order:
 1. engine-level findings (extraction failure, lost anchor, engine error, fixture self-test, configuration build) are never
    scoped out: the check cannot vouch for anything then;
 2. a finding whose location is not a source file of the crate, or is a file no property is anchored in (src/lib.rs: digit
    types, error types), belongs to every property that runs the clause;
 3. per property an explicit rule filter may apply (C02 does not own the cost inequalities of C20, C15 owns only the zero
    guards in front of the hardware divide);
 4. properties about *every* operation (C10 operator forms, C14 failure behaviour, C16 configurations, and C04 for the
    representation rules) take findings anywhere (C10: in the files that hold operator forms);
 5. otherwise the finding's file must be one the property is anchored in, and in the files shared by many properties
    (biguint.rs, bigint.rs, power.rs, convert.rs) the function's name decides between them when it names an operation of a
    single family (sqrt -> C11, gcd -> C13, modpow -> C05, ...); names that belong to no family (normalize, digit helpers)
    are shared core and belong to every property anchored in the file.
The tables are data of this repository, written from properties.jsonl; unknown files and unknown names fail towards
"in scope"."""
import json
import os
import re

from . import core

ALL = None

_B, _I = "src/biguint/", "src/bigint/"

# anchors.files of properties.jsonl, plus the files named only in anchors.mechanism or needed by the property's own statement
# (marked +)
FILES = {
    "C01": {_B + "addition.rs", _B + "subtraction.rs", _I + "addition.rs", _I + "subtraction.rs", "src/macros.rs"},
    "C02": {_B + "multiplication.rs", _I + "multiplication.rs", _B + "addition.rs", _B + "subtraction.rs", "src/macros.rs"},  # + macros.rs: forward_* forms of Mul
    "C03": {_B + "division.rs", _I + "division.rs", "src/bigint.rs", "src/biguint.rs", "src/macros.rs"},  # + macros.rs
    "C05": {_B + "monty.rs", _B + "power.rs", "src/biguint.rs", _I + "power.rs", "src/bigint.rs"},
    "C06": {_B + "convert.rs", "src/biguint.rs", _I + "convert.rs", "src/bigint.rs"},
    "C07": {_B + "bits.rs", _B + "shift.rs", _I + "bits.rs", _I + "shift.rs", "src/bigint.rs", "src/biguint.rs", "src/macros.rs"},  # + macros.rs
    "C08": {_B + "convert.rs", _I + "convert.rs", "src/lib.rs"},
    "C09": {"src/biguint.rs", _B + "iter.rs", _B + "convert.rs", _I + "convert.rs", "src/bigint.rs"},
    "C10": {"src/macros.rs", _B + "addition.rs", _B + "subtraction.rs", _B + "multiplication.rs", _B + "division.rs", _B + "power.rs", _B + "shift.rs",
            _I + "addition.rs", _I + "subtraction.rs", _I + "multiplication.rs", _I + "division.rs", _I + "power.rs", _I + "shift.rs", "src/bigint.rs",
            _B + "bits.rs", _I + "bits.rs", "src/biguint.rs"},  # + bits.rs, biguint.rs: "each arithmetic, bitwise, shift and power operator"
    "C11": {"src/biguint.rs", "src/bigint.rs"},
    "C12": {_B + "power.rs", _I + "power.rs", "src/biguint.rs", "src/bigint.rs", "src/macros.rs"},  # + macros.rs
    "C13": {"src/biguint.rs", "src/bigint.rs"},
    "C17": {_B + "serde.rs", _I + "serde.rs"},
    "C18": {"src/bigrand.rs"},
    "C19": {"src/bigint.rs", "src/biguint.rs", _I + "multiplication.rs", _I + "convert.rs"},
    "C20": {_B + "multiplication.rs"},
    # every operation of the crate
    "C04": ALL,
    "C14": ALL,
    "C16": ALL,
    # the unsafe-code rules (R4) are located at the unsafe sites themselves, wherever they are; the one shared rule C15 runs
    # (zero-divisor guards) has its own filter in in_scope
    "C15": ALL,
}

# function name -> the module properties whose operation it is, for the files that many properties share
SHARED_FILES = {"src/biguint.rs", "src/bigint.rs", _B + "power.rs", _I + "power.rs", _B + "convert.rs", _I + "convert.rs"}
_FAM = {
    "C01": "checked_add checked_sub",
    "C02": "checked_mul",
    "C03": "div_rem div_floor mod_floor div_mod_floor div_ceil checked_div",
    "C05": "modpow modinv plain_modpow",
    "C06": "fmt to_str_radix parse_bytes from_radix_be from_radix_le to_radix_be to_radix_le from_str_radix from_str from_bitwise_digits_le "
    "from_inexact_bitwise_digits_le to_bitwise_digits_le to_inexact_bitwise_digits_le from_radix_digits_be to_radix_digits_le to_str_radix_reversed "
    "get_radix_base get_half_radix_base generate_radix_bases fls ilog2",
    "C07": "bit set_bit bits trailing_zeros trailing_ones count_ones not",
    "C08": "to_f32 to_f64 to_i64 to_i128 to_u64 to_u128 from_f64 from_i64 from_i128 from_u64 from_u128 high_bits_to_u64 try_from from",
    "C09": "new from_slice assign_from_slice from_bytes_be from_bytes_le to_bytes_be to_bytes_le from_be_bytes from_le_bytes to_be_bytes to_le_bytes "
    "from_signed_bytes_be from_signed_bytes_le to_signed_bytes_be to_signed_bytes_le to_u32_digits to_u64_digits iter_u32_digits iter_u64_digits "
    "u32_chunk_to_u64 twos_complement twos_complement_be twos_complement_le from_bitwise_digits_le to_bitwise_digits_le",
    "C11": "sqrt cbrt nth_root fixpoint",
    "C12": "pow powsign",
    "C13": "gcd lcm gcd_lcm extended_gcd extended_gcd_lcm is_multiple_of divides next_multiple_of prev_multiple_of is_even is_odd inc dec",
    # C04 is scoped by name only for the value-level rules of the abstract interpreter (see in_scope)
    "C04": "cmp partial_cmp eq hash clone clone_from cmp_slice from_biguint assign_from_slice from_slice new into_parts is_zero sign set_zero zero default "
    "magnitude",
    "C19": "neg abs abs_sub signum is_positive is_negative sign magnitude into_parts from_biguint assign_from_slice zero one is_zero is_one set_zero set_one "
    "default to_biguint to_bigint try_from from",
}
NAME_OWNERS = {}
for _p, _names in _FAM.items():
    for _n in _names.split():
        NAME_OWNERS.setdefault(_n, set()).add(_p)

MODULE_PROPS = (set(_FAM) - {"C04"}) | {"C17", "C18", "C20"}
C04_R5_FILES = {"src/biguint.rs", "src/bigint.rs", _B + "subtraction.rs", _B + "bits.rs", _B + "shift.rs", _I + "bits.rs", _I + "shift.rs", _B + "arbitrary.rs", _I + "arbitrary.rs",
                _I + "addition.rs"}  # anchors.files of C04 (+ bigint/addition.rs: mechanism "AddAssign")

# rule filters: (property) -> predicate on the rule name; False = the property does not own that rule's findings
_C20_ONLY = ("R8-doubling", "R8-quarter", "R8-unbalanced", "R8-row-routine-callers")
RULE_FILTER = {
    # the product stays exact when only the cost bound is broken
    "C02": lambda rule: not rule.startswith(_C20_ONLY),
}

_PRIMS = {"u8", "u16", "u32", "u64", "u128", "usize", "i8", "i16", "i32", "i64", "i128", "isize"}


def engine_level(f):
    r = f.rule
    return r.startswith("R0-") or r.endswith("anchor-lost") or r.startswith("R6a-") or r.endswith("-extraction") or not (f.file or "").startswith("src/")


_known_files = set()
for _v in FILES.values():
    if _v:
        _known_files |= _v


def fn_name(key):
    """last function-name segment of a finding key (`biguint::division::div_rem`, `...<impl ..>::sub|sub2rev#2`, `..::{closure#0}`)"""
    k = key.split("|")[0]
    k = re.sub(r"@32$", "", k)
    k = re.sub(r"(::\{closure#\d+\})+$", "", k)
    m = re.search(r"([A-Za-z_][A-Za-z_0-9]*)$", k)
    if not m or "::" not in k:
        return None
    return m.group(1)


def _facts_of(ctx):
    if ctx is None:
        return None
    try:
        return ctx.facts("all")
    except Exception:
        return None


def body_of(f, facts):
    """the function a finding is located in: by (file, line) of the function head, else by a path inside the key"""
    if facts is None:
        return None
    idx = getattr(facts, "_scope_idx", None)
    if idx is None:
        idx = {}
        for b in facts.bodies:
            idx.setdefault((b.file, b.line), []).append(b)
        facts._scope_idx = idx
    for part in f.key.split("|"):
        part = re.sub(r"@32$", "", part)
        for cand in (part, re.sub(r"[@#][A-Za-z_0-9#@]*$", "", part)):
            bs = facts.by_path.get(cand)
            if bs:
                return bs[0]
    bs = idx.get((f.file, f.line))
    if bs:
        # several bodies can start on one line (macro expansions): they share the file, take the shortest path (the parent)
        return sorted(bs, key=lambda b: len(b.path))[0]
    return None


# src/macros.rs holds the forwarding forms of every operator: there the implemented trait says whose operation a body is
_TRAIT_FAM = {
    "C01": "Add AddAssign Sub SubAssign Sum",
    "C02": "Mul MulAssign Product",
    "C03": "Div DivAssign Rem RemAssign",
    "C07": "Shl ShlAssign Shr ShrAssign BitAnd BitAndAssign BitOr BitOrAssign BitXor BitXorAssign Not",
    "C12": "Pow",
}
TRAIT_OWNERS = {}
for _p, _names in _TRAIT_FAM.items():
    for _n in _names.split():
        TRAIT_OWNERS.setdefault(_n, set()).add(_p)


# C10 is about the overloaded forms: it owns every impl of an operator trait (wherever it is written) and the checked_* /
# pow methods, and through the call graph whatever those forms reach
_C10_TRAITS = set(
    "Add AddAssign Sub SubAssign Mul MulAssign Div DivAssign Rem RemAssign Shl ShlAssign Shr ShrAssign BitAnd BitAndAssign BitOr BitOrAssign "
    "BitXor BitXorAssign Neg Not Pow CheckedAdd CheckedSub CheckedMul CheckedDiv CheckedEuclid Euclid Sum Product".split()
)
_C10_NAMES = {"checked_add", "checked_sub", "checked_mul", "checked_div", "pow"}


def owned(pid, facts, files, named):
    out = []
    if pid == "C10":
        for b in facts.bodies:
            if (b.trait or "").split("::")[-1] in _C10_TRAITS or fn_name(b.path) in _C10_NAMES:
                out.append(b.path)
        return out
    for b in facts.bodies:
        if b.file not in files:
            continue
        if named and b.file == "src/macros.rs":
            own = TRAIT_OWNERS.get((b.trait or "").split("::")[-1])
            if own and pid not in own:
                continue
        if named and b.file in SHARED_FILES:
            nm = fn_name(b.path)
            own = NAME_OWNERS.get(nm) if nm else None
            if own and pid not in own:
                continue
        out.append(b.path)
    return out


_SUPER_OPS = {"Add", "Sub", "Mul", "Div", "Rem", "Neg", "Zero", "One", "PartialOrd", "Ord", "PartialEq", "Clone", "Shr", "Shl"}


def ext_graph(facts):
    """the resolved call graph plus the edges it cannot see: a call of a *provided* method of a foreign trait on a type of this
    crate (`a < b` -> PartialOrd::lt, `x.to_u32()` -> ToPrimitive::to_u32, Integer::extended_gcd) runs foreign code that calls
    back into this crate's impl of that trait - and, for num_integer::Integer (extended_gcd is written with the operators of its
    supertraits), into the operator impls of the same type.  Those callees are added as possible targets, so that attribution errs towards 'the property depends on it'."""
    g = getattr(facts, "_scope_graph", None)
    if g is not None:
        return g
    base = facts.callgraph()
    g = {k: set(v) for k, v in base.items()}
    impls = {}
    for b in facts.bodies:
        if b.trait and b.self_ty:
            impls.setdefault((b.trait, b.self_ty.lstrip("&").strip()), []).append(b.path)
            impls.setdefault(("*" + b.trait.split("::")[-1], b.self_ty.lstrip("&").strip()), []).append(b.path)
    for b in facts.bodies:
        for i, t in b.calls():
            fn = core.callee_fn(t)
            if not fn or fn.get("local") or not fn.get("raw_trait") or not fn.get("inst_args"):
                continue
            st = str(fn["inst_args"][0]).lstrip("&").replace("mut ", "").strip()
            if not st.startswith(("biguint::", "bigint::")):
                continue
            tgt = g.setdefault(b.path, set())
            tgt.update(impls.get((fn["raw_trait"], st), ()))
            if fn["raw_trait"] == "num_integer::Integer":  # provided methods written with the operators of the supertraits (extended_gcd)
                for op in _SUPER_OPS:
                    tgt.update(impls.get(("*" + op, st), ()))
    facts._scope_graph = g
    return g


def reach(pid, facts, files, named, tag=""):
    cache = facts.__dict__.setdefault("_scope_reach", {})
    k = (pid, tag)
    if k not in cache:
        g = ext_graph(facts)
        seen = set()
        stack = list(owned(pid, facts, files, named))
        while stack:
            x = stack.pop()
            if x in seen:
                continue
            seen.add(x)
            stack.extend(y for y in g.get(x, ()) if y not in seen)
        cache[k] = seen
    return cache[k]


def in_scope(pid, f, ctx=None):
    """(bool, reason).  reason is set when the finding is out of scope"""
    if engine_level(f):
        return True, None
    flt = RULE_FILTER.get(pid)
    if flt is not None and not flt(f.rule):
        return False, "rule %s states a bound of another property (cost, C20), not a necessary condition of %s" % (f.rule, pid)
    facts = _facts_of(ctx)
    b = body_of(f, facts)
    if pid == "C15" and f.rule.startswith("R3a-div"):
        # the hardware divide faults only on a zero *digit* divisor: the guards that matter here sit in functions whose
        # divisor is a primitive integer; a BigUint divisor of zero never reaches div_wide (empty digit vector)
        ty = _divisor_type(b)
        if ty is not None and ty not in _PRIMS:
            return False, "the divisor of this function is a %s: a zero there cannot reach the hardware divide (C03/C14 own this guard)" % ty
        return True, None
    files = FILES.get(pid, ALL)
    named = pid in MODULE_PROPS
    tag = ""
    if pid == "C04" and f.rule.startswith("R5-") and "stored with a zero magnitude" in (f.msg or ""):
        return True, None  # the abstract interpreter found a non-canonical sign: that is C04's subject wherever it happens
    if pid == "C04" and f.rule.startswith("R5-"):
        # value identity needs the representation rules everywhere, but a wrong *value* computed by an operation of another
        # family (a sign helper, a gcd) leaves equal integers indistinguishable
        files, named, tag = C04_R5_FILES, True, "r5"
    if files is ALL:
        return True, None
    if b is None:
        return True, None  # location unknown: fail towards reporting
    if b.file not in _known_files:
        return True, None  # shared core (lib.rs, big_digit, new files)
    # the property depends on this function iff one of its own operations (functions of its anchored files; in the shared
    # files: of its name family or of no family) reaches it in the call graph
    if b.path in reach(pid, facts, files, named, tag):
        return True, None
    return False, "`%s` (%s) is not reachable from the operations %s is anchored in" % (b.path, b.file, pid)


def _divisor_type(b):
    if b is None or b.j.get("arg_count", 0) < 2:
        return None
    ty = b.j["locals"][2].get("ty", "")
    return ty.lstrip("&").replace("mut ", "").strip()


def apply(pid, res, start, ctx=None):
    """filter res.findings[start:] by attribution; out-of-scope findings become notes"""
    new = res.findings[start:]
    del res.findings[start:]
    for f in new:
        ok, why = in_scope(pid, f, ctx)
        if ok:
            res.findings.append(f)
        else:
            res.obligations -= 1
            res.distinct.discard(f.fullkey())
            res.note("not attributed to %s: %s at %s [%s] - %s" % (pid, f.rule, f.key, f.file, why))
            res.count("findings attributed to other properties")
