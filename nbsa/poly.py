"""tiny multivariate integer polynomials (normal form = dict monomial -> coeff)"""


class Poly:
    __slots__ = ("t",)

    def __init__(self, terms=None):
        self.t = {k: v for k, v in (terms or {}).items() if v != 0}

    @staticmethod
    def const(c):
        return Poly({(): int(c)}) if c else Poly()

    @staticmethod
    def sym(name):
        return Poly({((name, 1),): 1})

    def __add__(self, o):
        o = _p(o)
        r = dict(self.t)
        for k, v in o.t.items():
            r[k] = r.get(k, 0) + v
        return Poly(r)

    __radd__ = __add__

    def __neg__(self):
        return Poly({k: -v for k, v in self.t.items()})

    def __sub__(self, o):
        return self + (-_p(o))

    def __rsub__(self, o):
        return _p(o) - self

    def __mul__(self, o):
        o = _p(o)
        r = {}
        for k1, v1 in self.t.items():
            for k2, v2 in o.t.items():
                d = dict(k1)
                for s, e in k2:
                    d[s] = d.get(s, 0) + e
                k = tuple(sorted(d.items()))
                r[k] = r.get(k, 0) + v1 * v2
        return Poly(r)

    __rmul__ = __mul__

    def __eq__(self, o):
        return isinstance(o, (Poly, int)) and self.t == _p(o).t

    def __hash__(self):
        return hash(tuple(sorted(self.t.items())))

    def is_const(self):
        return all(k == () for k in self.t)

    def const_value(self):
        return self.t.get((), 0) if self.is_const() else None

    def is_zero(self):
        return not self.t

    def symbols(self):
        return {s for k in self.t for s, _ in k}

    def single_symbol(self):
        """name if the polynomial is exactly one symbol (coefficient 1, power 1)"""
        if len(self.t) == 1:
            (k, v), = self.t.items()
            if v == 1 and len(k) == 1 and k[0][1] == 1:
                return k[0][0]
        return None

    def subst(self, m):
        """m: symbol -> Poly"""
        if not m or not (self.symbols() & set(m)):
            return self
        r = Poly()
        for k, v in self.t.items():
            term = Poly.const(v)
            for s, e in k:
                base = m.get(s)
                if base is None:
                    base = Poly.sym(s)
                for _ in range(e):
                    term = term * base
            r = r + term
        return r

    def __repr__(self):
        if not self.t:
            return "0"
        parts = []
        for k, v in sorted(self.t.items(), key=lambda kv: (len(kv[0]), str(kv[0]))):
            mono = "*".join(s if e == 1 else "%s^%d" % (s, e) for s, e in k)
            if not mono:
                parts.append(str(v))
            elif v == 1:
                parts.append(mono)
            elif v == -1:
                parts.append("-" + mono)
            else:
                parts.append("%d*%s" % (v, mono))
        return " + ".join(parts).replace("+ -", "- ")


def _p(x):
    return x if isinstance(x, Poly) else Poly.const(x)
