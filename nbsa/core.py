"""nbsa core: fact extraction (through the nbfacts rustc driver), fact indexing, CFG utilities,
value-flow helpers, findings/evidence plumbing.  Python 3 stdlib only."""
import hashlib
import json
import os
import subprocess
import sys
import time

VERIF = os.path.dirname(os.path.dirname(os.path.abspath(__file__)))
REPO = os.environ.get("NBSA_REPO", "/repo")
DRIVER = os.path.join(VERIF, "driver", "target", "release", "nbfacts")
CACHE = os.path.join(VERIF, ".cache")

ALL_FEATURES = ["--no-default-features", "--features", "std,arbitrary,quickcheck,rand,serde"]
CONFIGS = {
    # id: (profile, cargo feature flags)
    "all": ("dev", ALL_FEATURES),
    "all-rel": ("rel", ALL_FEATURES),
    "default": ("dev", []),
    "nostd": ("dev", ["--no-default-features"]),
    "nostd-feat": ("dev", ["--no-default-features", "--features", "serde,rand"]),
    # the 32-bit-digit variants of the code (cfg(not(target_pointer_width = "64"))): std is built from rust-src for i686
}
_T32 = ["--target", "i686-unknown-linux-gnu"]
for _c in ("all", "all-rel", "default"):
    CONFIGS[_c + "32"] = (CONFIGS[_c][0], CONFIGS[_c][1] + ["-Zbuild-std=std"] + _T32)
for _c in ("nostd", "nostd-feat"):
    CONFIGS[_c + "32"] = (CONFIGS[_c][0], CONFIGS[_c][1] + ["-Zbuild-std=core,alloc"] + _T32)

# the ten combinations of ci/test_full.sh
MATRIX = [
    ("default", []),
    ("std+arbitrary", ["--no-default-features", "--features", "std arbitrary"]),
    ("std+quickcheck", ["--no-default-features", "--features", "std quickcheck"]),
    ("std+rand", ["--no-default-features", "--features", "std rand"]),
    ("std+serde", ["--no-default-features", "--features", "std serde"]),
    ("std+all", ["--no-default-features", "--features", "std arbitrary quickcheck rand serde"]),
    ("no_std", ["--no-default-features"]),
    ("no_std+serde", ["--no-default-features", "--features", "serde"]),
    ("no_std+rand", ["--no-default-features", "--features", "rand"]),
    ("no_std+serde,rand", ["--no-default-features", "--features", "serde rand"]),
]


def _sha_tree(repo):
    h = hashlib.sha256()
    paths = []
    for root, dirs, files in os.walk(os.path.join(repo, "src")):
        dirs.sort()
        for f in sorted(files):
            paths.append(os.path.join(root, f))
    for extra in ("Cargo.toml", "Cargo.lock", "build.rs"):
        p = os.path.join(repo, extra)
        if os.path.exists(p):
            paths.append(p)
    for p in paths:
        h.update(os.path.relpath(p, repo).encode())
        h.update(b"\0")
        with open(p, "rb") as fh:
            h.update(fh.read())
        h.update(b"\0")
    if os.path.exists(DRIVER):
        st = os.stat(DRIVER)
        h.update(("%d:%d" % (st.st_size, int(st.st_mtime))).encode())
    return h.hexdigest()


_tree_sha_cache = {}


def tree_sha(repo=None):
    repo = repo or REPO
    if repo not in _tree_sha_cache:
        _tree_sha_cache[repo] = _sha_tree(repo)
    return _tree_sha_cache[repo]


def nightly_sysroot():
    return subprocess.check_output(["rustc", "+nightly", "--print", "sysroot"], text=True).strip()


class SkipConfig(Exception):
    """raised by a restricted context when a rule asks for a configuration that this run does not cover"""


class ExtractError(Exception):
    def __init__(self, config, output):
        Exception.__init__(self, "fact extraction failed for config %s" % config)
        self.config = config
        self.output = output


def ensure_driver():
    if not os.path.exists(DRIVER):
        env = dict(os.environ, CARGO_NET_OFFLINE="true")
        subprocess.check_call(["cargo", "build", "--release", "--offline"], cwd=os.path.join(VERIF, "driver"), env=env)


def extract(config, repo=None, crate="num_bigint", flags=None, profile=None):
    """Run the driver on repo's working tree for a build configuration; returns path of fact file.
    Cached by content hash of the tree (src/**, Cargo.toml, Cargo.lock) + driver identity."""
    repo = repo or REPO
    ensure_driver()
    if flags is None:
        profile, flags = CONFIGS[config]
    key = tree_sha(repo)
    cdir = os.path.join(CACHE, key)
    out = os.path.join(cdir, "%s-%s.json" % (crate, config))
    if os.path.exists(out):
        return out
    os.makedirs(cdir, exist_ok=True)
    import tempfile
    import shutil

    tgt = tempfile.mkdtemp(prefix="nbfacts-target.", dir="/var/tmp")
    tmpout = tempfile.mkdtemp(prefix="nbfacts-out.", dir="/var/tmp")
    try:
        rf = "-Zmir-opt-level=0 -Awarnings"
        if profile == "rel":
            rf += " -C debug-assertions=off -C overflow-checks=off"
        tkey = deps_template_key(repo, "facts:" + config, flags, rf, "nightly")
        seeded = seed_target(tgt, tkey)
        env = dict(os.environ)
        env.update(
            {
                "LD_LIBRARY_PATH": nightly_sysroot() + "/lib",
                "RUSTFLAGS": rf,
                "RUSTC_WORKSPACE_WRAPPER": DRIVER,
                "NBFACTS_OUT": tmpout,
                "NBFACTS_TAG": config,
                "NBFACTS_CRATES": crate,
                "CARGO_TARGET_DIR": tgt,
                "CARGO_NET_OFFLINE": "true",
            }
        )
        env.pop("RUSTC_WRAPPER", None)
        cmd = ["cargo", "+nightly", "check", "--offline", "--lib"] + list(flags)
        p = subprocess.run(cmd, cwd=repo, env=env, stdout=subprocess.PIPE, stderr=subprocess.STDOUT, text=True)
        produced = os.path.join(tmpout, "%s-%s.json" % (crate, config))
        if p.returncode != 0 or not os.path.exists(produced):
            raise ExtractError(config, p.stdout)
        shutil.move(produced, out)
        if not seeded:
            save_template(tgt, tkey)
    finally:
        shutil.rmtree(tgt, ignore_errors=True)
        shutil.rmtree(tmpout, ignore_errors=True)
    prune_cache(keep=key)
    return out


# ------------------------------------------------------------------------------------------
# Dependency templates.  Every extraction and every matrix build uses a fresh target directory (cargo's freshness cache would
# otherwise skip the driver), which used to recompile the dependencies - and, for the i686 configurations, core/alloc/std -
# every time.  A template is a copy of such a target directory with every artefact of the workspace member removed; a fresh
# target directory is seeded from it, so cargo finds the dependencies fresh and compiles (through the driver) the member only.
# The key covers everything the dependency artefacts depend on: configuration, flags, RUSTFLAGS, toolchain, Cargo.toml,
# Cargo.lock and the driver.  A tree whose manifest differs simply gets its own template.

DEPS = os.path.join(CACHE, "_deps")
MEMBER_PATTERNS = ("num-bigint-", "num_bigint-", "libnum_bigint-")
_toolchain_id = {}


def _toolchain(tc):
    if tc not in _toolchain_id:
        cmd = ["rustc"] + (["+" + tc] if tc != "stable" else []) + ["-vV"]
        try:
            _toolchain_id[tc] = subprocess.check_output(cmd, text=True)
        except Exception:
            _toolchain_id[tc] = tc
    return _toolchain_id[tc]


def deps_template_key(repo, tag, flags, rustflags, toolchain):
    h = hashlib.sha256()
    for part in (tag, " ".join(flags), rustflags or "", _toolchain(toolchain)):
        h.update(part.encode())
        h.update(b"\0")
    for extra in ("Cargo.toml", "Cargo.lock", "build.rs"):
        p = os.path.join(repo, extra)
        if os.path.exists(p):
            with open(p, "rb") as fh:
                h.update(fh.read())
        h.update(b"\0")
    if os.path.exists(DRIVER):
        st = os.stat(DRIVER)
        h.update(("%d:%d" % (st.st_size, int(st.st_mtime))).encode())
    return h.hexdigest()[:24]


def seed_target(tgt, tkey):
    """copy the dependency template into the (empty) target directory; False if there is none"""
    if os.environ.get("NBSA_NO_DEPS_TEMPLATE"):
        return False
    tpl = os.path.join(DEPS, tkey)
    if not os.path.isdir(tpl):
        return False
    p = subprocess.run(["cp", "-a", tpl + "/.", tgt + "/"], stdout=subprocess.PIPE, stderr=subprocess.STDOUT)
    if p.returncode != 0:
        import shutil

        shutil.rmtree(tgt, ignore_errors=True)
        os.makedirs(tgt, exist_ok=True)
        return False
    try:
        os.utime(tpl, None)
    except OSError:
        pass
    return True


def save_template(tgt, tkey):
    """keep a member-free copy of a target directory that was built from nothing"""
    import shutil
    import tempfile

    if os.environ.get("NBSA_NO_DEPS_TEMPLATE"):
        return
    tpl = os.path.join(DEPS, tkey)
    if os.path.isdir(tpl):
        return
    try:
        os.makedirs(DEPS, exist_ok=True)
        tmp = tempfile.mkdtemp(prefix=".new.", dir=DEPS)
        p = subprocess.run(["cp", "-a", tgt + "/.", tmp + "/"], stdout=subprocess.PIPE, stderr=subprocess.STDOUT)
        if p.returncode != 0:
            shutil.rmtree(tmp, ignore_errors=True)
            return
        for root, dirs, files in os.walk(tmp):
            for d in list(dirs):
                if d.startswith(MEMBER_PATTERNS):
                    shutil.rmtree(os.path.join(root, d), ignore_errors=True)
                    dirs.remove(d)
            for f in files:
                if f.startswith(MEMBER_PATTERNS):
                    os.unlink(os.path.join(root, f))
        try:
            os.rename(tmp, tpl)
        except OSError:
            shutil.rmtree(tmp, ignore_errors=True)  # another process saved it first
        # bounded: at most 48 templates, oldest (by last use) first
        ents = sorted((os.path.getmtime(os.path.join(DEPS, d)), d) for d in os.listdir(DEPS) if not d.startswith("."))
        now = time.time()
        for mt, d in ents[:-48]:
            if now - mt > 3600:
                shutil.rmtree(os.path.join(DEPS, d), ignore_errors=True)
    except OSError:
        pass


def prune_cache(keep=None, max_entries=40):
    try:
        ents = [(os.path.getmtime(os.path.join(CACHE, d)), d) for d in os.listdir(CACHE) if not d.startswith("_")]
    except OSError:
        return
    ents.sort(reverse=True)
    import shutil

    now = time.time()
    for mt, d in ents[max_entries:]:
        # never remove an entry another (parallel) check may still be reading
        if d != keep and now - mt > 3600:
            shutil.rmtree(os.path.join(CACHE, d), ignore_errors=True)


# ------------------------------------------------------------------------------------------
# Fact model


class Body:
    def __init__(self, j, facts):
        self.j = j
        self.facts = facts
        self.path = j["path"]
        self.kind = j["kind"]
        self.name = j.get("name")
        self.blocks = j["blocks"]
        self.locals = j["locals"]
        self.arg_count = j["arg_count"]
        self.impl = j.get("impl")
        self.file = j["file"]
        self.line = j["line"]
        self._succ = None
        self._pred = None
        self._defs = None
        self._reach = None

    # --- identity helpers
    @property
    def trait(self):
        return self.impl.get("trait") if self.impl else None

    @property
    def self_ty(self):
        return self.impl.get("self_ty") if self.impl else None

    @property
    def trait_args(self):
        return self.impl.get("trait_args", []) if self.impl else []

    def exported(self):
        return bool(self.j.get("reachable"))

    def loc(self):
        return "%s:%s" % (self.file, self.line)

    def macro_chain(self):
        ds = self.j.get("def_span")
        return ds.get("macros", []) if ds else []

    # --- CFG (normal edges only; unwind/cleanup edges excluded)
    def succ(self, b):
        if self._succ is None:
            self._build_cfg()
        return self._succ[b]

    def pred(self, b):
        if self._pred is None:
            self._build_cfg()
        return self._pred[b]

    def _build_cfg(self):
        n = len(self.blocks)
        succ = [[] for _ in range(n)]
        for i, bl in enumerate(self.blocks):
            t = bl.get("term")
            if not t:
                continue
            k = t["k"]
            if k == "goto":
                succ[i].append(t["target"])
            elif k == "switch":
                cv = self._const_discr(bl, t)
                if cv is not None:
                    # switch on a constant assigned in the same block (cfg!(debug_assertions), drop flags set
                    # immediately before): only the taken edge exists
                    tgt = t["otherwise"]
                    for v, tb in t["targets"]:
                        if int(v) == cv:
                            tgt = tb
                    succ[i].append(tgt)
                else:
                    for v, tb in t["targets"]:
                        succ[i].append(tb)
                    succ[i].append(t["otherwise"])
            elif k in ("call",):
                if t["target"] is not None:
                    succ[i].append(t["target"])
            elif k in ("drop", "assert"):
                succ[i].append(t["target"])
            elif k == "asm":
                succ[i].extend(t["targets"])
        pred = [[] for _ in range(n)]
        for i in range(n):
            seen = []
            for s in succ[i]:
                if s not in seen:
                    seen.append(s)
            succ[i] = seen
            for s in seen:
                pred[s].append(i)
        self._succ, self._pred = succ, pred

    @staticmethod
    def _const_discr(bl, t):
        l = op_local(t["discr"])
        if l is None:
            if t["discr"]["k"] == "const" and "val" in t["discr"]:
                v = t["discr"]["val"]
                return int(v) if not isinstance(v, bool) else int(v)
            return None
        val = None
        for s in bl["stmts"]:
            if s["k"] == "assign" and not s["place"]["proj"] and s["place"]["local"] == l:
                rv = s["rv"]
                if rv["k"] == "use" and rv["op"]["k"] == "const" and "val" in rv["op"]:
                    v = rv["op"]["val"]
                    val = int(v)
                else:
                    val = None
        return val

    def reachable(self, start=0, without_edge=None, without_blocks=()):
        seen = set()
        stack = [start]
        wb = set(without_blocks)
        if start in wb:
            return seen
        while stack:
            b = stack.pop()
            if b in seen:
                continue
            seen.add(b)
            for s in self.succ(b):
                if without_edge is not None and (b, s) == without_edge:
                    continue
                if s in wb:
                    continue
                if s not in seen:
                    stack.append(s)
        return seen

    def live_blocks(self):
        if self._reach is None:
            self._reach = self.reachable(0)
        return self._reach

    def block_dominates(self, a, b):
        """block a dominates block b (every path entry->b passes a)"""
        if a == b:
            return True
        if b not in self.live_blocks():
            return True
        return b not in self.reachable(0, without_blocks=(a,))

    def edge_dominates(self, edge, b):
        """every path entry->b uses CFG edge (s,t)"""
        if b not in self.live_blocks():
            return True
        s, t = edge
        # multi-edges s->t with different switch values are merged in succ; callers must make sure
        # the edge is the unique way from s to t for the value they mean (see switch_edges)
        return b not in self.reachable(0, without_edge=edge)

    def return_blocks(self):
        return [i for i, bl in enumerate(self.blocks) if bl.get("term", {}).get("k") == "return" and i in self.live_blocks()]

    def can_reach(self, a, targets):
        r = self.reachable(a)
        return any(t in r for t in targets)

    # --- statements / terminators
    def terms(self, kind=None):
        for i, bl in enumerate(self.blocks):
            t = bl.get("term")
            if t and (kind is None or t["k"] == kind) and not bl.get("cleanup"):
                yield i, t

    def calls(self):
        for i, t in self.terms("call"):
            yield i, t

    def stmts(self):
        for i, bl in enumerate(self.blocks):
            if bl.get("cleanup"):
                continue
            for si, s in enumerate(bl["stmts"]):
                yield i, si, s

    def defs(self):
        """local -> list of definitions: ('assign', bb, si, stmt) | ('call', bb, term) | ('asm', bb, term)
        only whole-local assignments (no projection)"""
        if self._defs is None:
            d = {}
            pd = {}
            for i, si, s in self.stmts():
                if s["k"] == "assign":
                    pl = s["place"]
                    if not pl["proj"]:
                        d.setdefault(pl["local"], []).append(("assign", i, si, s))
                    else:
                        pd.setdefault(pl["local"], []).append(("assign", i, si, s))
            for i, t in self.terms():
                if t["k"] == "call":
                    pl = t["dest"]
                    if not pl["proj"]:
                        d.setdefault(pl["local"], []).append(("call", i, t))
                    else:
                        pd.setdefault(pl["local"], []).append(("call", i, t))
                elif t["k"] == "asm":
                    for op in t["operands"]:
                        pl = op.get("place")
                        if pl and not pl["proj"]:
                            d.setdefault(pl["local"], []).append(("asm", i, t))
            self._defs = d
            self._pdefs = pd
        return self._defs

    def partial_defs(self):
        self.defs()
        return self._pdefs

    def local_ty(self, l):
        return self.locals[l]["ty"]

    def local_name(self, l):
        return self.locals[l].get("name")

    def is_param(self, l):
        return 1 <= l <= self.arg_count


def callee(t):
    """resolved callee path of a call terminator (falls back to the raw path)"""
    f = t["func"]
    fn = f.get("fn")
    if not fn:
        return None
    return fn.get("path") or fn.get("raw")


def callee_fn(t):
    return t["func"].get("fn")


def callee_name(t):
    fn = t["func"].get("fn")
    if not fn:
        return None
    return fn.get("raw_name")


class Facts:
    def __init__(self, path, config=None):
        with open(path) as fh:
            self.j = json.load(fh)
        self.path = path
        self.config = config
        self.bodies = [Body(b, self) for b in self.j["bodies"]]
        self.by_path = {}
        for b in self.bodies:
            self.by_path.setdefault(b.path, []).append(b)
        self.adts = {a["path"]: a for a in self.j["adts"]}
        self.items = {}
        for it in self.j["items"]:
            self.items.setdefault(it["path"], []).append(it)
        self.statics = self.j["statics"]
        self.unsafe_blocks = self.j["unsafe_blocks"]
        self._callers = None

    def body(self, path):
        """unique body with exactly this path, or None"""
        bs = self.by_path.get(path, [])
        return bs[0] if len(bs) == 1 else None

    def find(self, suffix=None, name=None, trait=None, self_ty=None, pred=None):
        out = []
        for b in self.bodies:
            if suffix is not None and not b.path.endswith(suffix):
                continue
            if name is not None and b.name != name:
                continue
            if trait is not None and b.trait != trait:
                continue
            if self_ty is not None and b.self_ty != self_ty:
                continue
            if pred is not None and not pred(b):
                continue
            out.append(b)
        return out

    def callgraph(self):
        """path -> set of resolved local callee paths"""
        if self._callers is None:
            g = {}
            for b in self.bodies:
                s = g.setdefault(b.path, set())
                for i, t in b.calls():
                    fn = callee_fn(t)
                    if fn and fn.get("path") and fn.get("local"):
                        s.add(fn["path"])
                # closures defined inside the body are considered called by it
                for i, si, st in b.stmts():
                    rv = st.get("rv")
                    if rv and rv["k"] == "aggregate" and rv.get("akind") == "closure":
                        s.add(rv["closure"])
            self._callers = g
        return self._callers

    def reach_calls(self, start_paths):
        g = self.callgraph()
        seen = set()
        stack = list(start_paths)
        while stack:
            p = stack.pop()
            if p in seen:
                continue
            seen.add(p)
            for q in g.get(p, ()):
                if q not in seen:
                    stack.append(q)
        return seen


_facts_cache = {}


def load(config, repo=None):
    repo = repo or REPO
    k = (config, repo, tree_sha(repo))
    if k not in _facts_cache:
        try:
            _facts_cache[k] = Facts(extract(config, repo), config)
        except (FileNotFoundError, json.JSONDecodeError):
            # cache entry vanished / half written under a parallel run: extract again
            p = os.path.join(CACHE, tree_sha(repo), "num_bigint-%s.json" % config)
            if os.path.exists(p):
                os.remove(p)
            _facts_cache[k] = Facts(extract(config, repo), config)
    return _facts_cache[k]


# ------------------------------------------------------------------------------------------
# operand / place helpers


def op_local(op):
    """local index if operand is copy/move of a bare local, else None"""
    if op["k"] in ("copy", "move") and not op["place"]["proj"]:
        return op["place"]["local"]
    return None


def op_place(op):
    return op["place"] if op["k"] in ("copy", "move") else None


def op_const(op):
    """python value of a scalar constant operand, or None"""
    if op["k"] != "const":
        return None
    if "val" in op:
        v = op["val"]
        if isinstance(v, str):
            return int(v)
        return v
    return None


def place_str(p):
    s = "_%d" % p["local"]
    for e in p["proj"]:
        k = e["k"]
        if k == "deref":
            s = "(*%s)" % s
        elif k == "field":
            s = "%s.%s" % (s, e.get("name", e["idx"]))
        elif k == "index":
            s = "%s[_%d]" % (s, e["local"])
        elif k == "constidx":
            s = "%s[%s%d]" % (s, "-" if e["from_end"] else "", e["offset"])
        elif k == "subslice":
            s = "%s[%d..%s%d]" % (s, e["from"], "-" if e["from_end"] else "", e["to"])
        elif k == "downcast":
            s = "(%s as %s)" % (s, e.get("variant"))
        else:
            s = "%s.<%s>" % (s, k)
    return s


def op_str(op):
    k = op["k"]
    if k in ("copy", "move"):
        return ("move " if k == "move" else "") + place_str(op["place"])
    if k == "const":
        if "fn" in op:
            return "fn:" + (op["fn"].get("full") or op["fn"].get("raw_full"))
        if "val" in op:
            return "const %s_%s" % (op["val"], op["ty"])
        if "str" in op:
            return "const %r" % op["str"]
        if "named" in op:
            return "const {%s}" % op["named"]
        return "const <%s>" % op["ty"]
    return "<%s>" % k


def rv_str(rv):
    k = rv["k"]
    if k == "use":
        return op_str(rv["op"])
    if k == "ref":
        return "&%s%s" % ("mut " if rv["mut"] else "", place_str(rv["place"]))
    if k == "rawptr":
        return "&raw %s %s" % ("mut" if rv["mut"] else "const", place_str(rv["place"]))
    if k == "cast":
        return "%s as %s (%s)" % (op_str(rv["op"]), rv["to"], rv["ck"])
    if k == "binop":
        return "%s(%s, %s)" % (rv["op"], op_str(rv["a"]), op_str(rv["b"]))
    if k == "unop":
        return "%s(%s)" % (rv["op"], op_str(rv["a"]))
    if k == "discriminant":
        return "discriminant(%s)" % place_str(rv["place"])
    if k == "aggregate":
        ak = rv["akind"]
        if ak == "adt":
            return "%s::%s{%s}" % (rv["adt"], rv["variant"], ", ".join("%s: %s" % (f, op_str(o)) for f, o in zip(rv["fields"], rv["ops"])))
        return "%s(%s)" % (ak, ", ".join(op_str(o) for o in rv["ops"]))
    if k == "copyforderef":
        return "deref_copy %s" % place_str(rv["place"])
    if k == "repeat":
        return "[%s; %s]" % (op_str(rv["op"]), rv["count"])
    return "<%s>" % k


def pretty(body):
    out = []
    out.append("fn %s  [%s]  %s" % (body.path, body.kind, body.loc()))
    for i, l in enumerate(body.locals):
        out.append("    let _%d: %s%s" % (i, l["ty"], "  // " + l["name"] if l.get("name") else ""))
    for i, bl in enumerate(body.blocks):
        out.append("  bb%d%s:" % (i, " (cleanup)" if bl.get("cleanup") else ""))
        for s in bl["stmts"]:
            m = s["span"].get("macros")
            if s["k"] == "assign":
                out.append("      %s = %s%s" % (place_str(s["place"]), rv_str(s["rv"]), "   // %s" % m if m else ""))
            else:
                out.append("      <%s>" % s["k"])
        t = bl.get("term")
        if t:
            k = t["k"]
            m = t["span"].get("macros")
            ms = "   // L%s %s" % (t["span"]["line"], m if m else "")
            if k == "call":
                out.append(
                    "      %s = %s(%s) -> %s%s"
                    % (place_str(t["dest"]), op_str(t["func"]), ", ".join(op_str(a) for a in t["args"]), t["target"], ms)
                )
            elif k == "switch":
                out.append("      switch %s -> %s otherwise %s%s" % (op_str(t["discr"]), t["targets"], t["otherwise"], ms))
            elif k == "assert":
                out.append("      assert(%s == %s, %s) -> %s%s" % (op_str(t["cond"]), t["expected"], t["msg"], t["target"], ms))
            elif k == "drop":
                out.append("      drop(%s) -> %s" % (place_str(t["place"]), t["target"]))
            elif k == "goto":
                out.append("      goto %s" % t["target"])
            elif k == "asm":
                out.append("      asm! -> %s%s" % (t["targets"], ms))
            else:
                out.append("      %s%s" % (k, ms))
    return "\n".join(out)


# ------------------------------------------------------------------------------------------
# value flow: trace an operand back to its roots through transparent steps

TRANSPARENT_CALLS = {
    # callee raw names that pass their (first) argument's identity through (reference-wise)
    "deref",
    "deref_mut",
    "borrow",
    "borrow_mut",
    "as_ref",
    "as_mut",
    "as_slice",
    "as_mut_slice",
    "clone",
    "into",
    "from",
    "into_iter",
    "iter",
    "to_owned",
}


class Flow:
    """Backward tracer over a body's (non-SSA) MIR.  A *root* is one of
       ('param', local, fieldpath)       value derived from a parameter (through refs/derefs/fields)
       ('const', value, ty)
       ('call', bb, callee_path, fieldpath)  result of a non-transparent call
       ('agg', bb, si) / ('unknown', why)
    fieldpath is a tuple of field names applied on the way (outermost last)."""

    def __init__(self, body, transparent=TRANSPARENT_CALLS, through_casts=True):
        self.b = body
        self.transparent = transparent
        self.through_casts = through_casts

    def roots_of_operand(self, op, depth=0):
        if op["k"] == "const":
            if "fn" in op:
                return {("fnconst", op["fn"].get("path") or op["fn"].get("raw"))}
            if "val" in op:
                return {("const", op_const(op), op["ty"])}
            if "named" in op:
                return {("named", op["named"], op["ty"])}
            if "str" in op:
                return {("str", op["str"])}
            return {("const", None, op["ty"])}
        if op["k"] in ("copy", "move"):
            return self.roots_of_place(op["place"], depth)
        return {("unknown", op["k"])}

    def roots_of_place(self, place, depth=0, _seen=None):
        fields = tuple(e.get("name", str(e.get("idx"))) for e in place["proj"] if e["k"] == "field")
        # other projections (deref, index, downcast, subslice) are transparent for provenance
        sub = [e["k"] for e in place["proj"] if e["k"] not in ("field", "deref")]
        roots = self.roots_of_local(place["local"], depth, _seen)
        out = set()
        for r in roots:
            if r[0] == "param":
                out.add(("param", r[1], r[2] + fields) if not sub else ("param", r[1], r[2] + fields + tuple("#" + s for s in sub)))
            elif r[0] == "call":
                out.add(("call", r[1], r[2], r[3] + fields + tuple("#" + s for s in sub)))
            else:
                out.add(r)
        return out

    def roots_of_local(self, l, depth=0, _seen=None):
        b = self.b
        if _seen is None:
            _seen = set()
        if l in _seen or depth > 60:
            return set()
        _seen = _seen | {l}
        if b.is_param(l):
            ds = b.defs().get(l, [])
            if not ds:
                return {("param", l, ())}
        ds = b.defs().get(l, [])
        if not ds:
            if b.is_param(l):
                return {("param", l, ())}
            return {("unknown", "undef _%d" % l)}
        out = set()
        if b.is_param(l):
            out.add(("param", l, ()))
        for d in ds:
            if d[0] == "assign":
                rv = d[3]["rv"]
                out |= self.roots_of_rvalue(rv, d[1], d[2], depth + 1, _seen)
            elif d[0] == "call":
                t = d[2]
                nm = callee_name(t)
                if nm in self.transparent and t["args"]:
                    out |= self._op(t["args"][0], depth + 1, _seen)
                else:
                    out.add(("call", d[1], callee(t), ()))
            else:
                out.add(("asm", d[1]))
        return out

    def _op(self, op, depth, _seen):
        if op["k"] in ("copy", "move"):
            return self.roots_of_place(op["place"], depth, _seen)
        return self.roots_of_operand(op, depth)

    def roots_of_rvalue(self, rv, bb, si, depth, _seen):
        k = rv["k"]
        if k == "use":
            return self._op(rv["op"], depth, _seen)
        if k in ("ref", "rawptr", "copyforderef"):
            return self.roots_of_place(rv["place"], depth, _seen)
        if k == "cast":
            if self.through_casts:
                return self._op(rv["op"], depth, _seen)
            return {("cast", bb, si)}
        if k == "discriminant":
            rs = self.roots_of_place(rv["place"], depth, _seen)
            return {("discr",) + r for r in rs}
        if k == "aggregate":
            return {("agg", bb, si)}
        if k == "binop":
            return {("binop", bb, si)}
        if k == "unop":
            return {("unop", bb, si)}
        return {("unknown", k)}


# ------------------------------------------------------------------------------------------
# switch helpers


def switch_edges(body, bb):
    """for a switch terminator: dict value->target plus 'otherwise'"""
    t = body.blocks[bb]["term"]
    assert t["k"] == "switch"
    m = {}
    for v, tb in t["targets"]:
        m[int(v)] = tb
    m["otherwise"] = t["otherwise"]
    return m


def bool_switch_after_call(body, bb):
    """if call block bb stores its bool result to a local that the *target* block switches on,
    return (switch_bb, false_target, true_target) else None"""
    t = body.blocks[bb]["term"]
    if t["k"] != "call" or t["target"] is None:
        return None
    dest = t["dest"]
    if dest["proj"]:
        return None
    return bool_switch_on_local(body, t["target"], dest["local"])


def bool_switch_on_local(body, bb, local, max_hops=6):
    """follow goto chains / trivial statements from bb to a switch on `local` (or a copy/negation of it)
    returns (switch_bb, false_target, true_target) w.r.t. truth of `local`"""
    neg = False
    cur = local
    b = bb
    for _ in range(max_hops):
        bl = body.blocks[b]
        for s in bl["stmts"]:
            if s["k"] == "assign" and not s["place"]["proj"]:
                rv = s["rv"]
                if rv["k"] == "use" and op_local(rv["op"]) == cur:
                    cur = s["place"]["local"]
                elif rv["k"] == "unop" and rv["op"] == "Not" and op_local(rv["a"]) == cur:
                    cur = s["place"]["local"]
                    neg = not neg
        t = bl["term"]
        if t["k"] == "switch" and op_local(t["discr"]) == cur:
            m = switch_edges(body, b)
            f = m.get(0, m["otherwise"])
            tr = m["otherwise"] if 0 in m else None
            if tr is None:
                return None
            if neg:
                f, tr = tr, f
            return (b, f, tr)
        if t["k"] == "goto":
            b = t["target"]
            continue
        return None
    return None


# ------------------------------------------------------------------------------------------
# panic classification

PANIC_FNS = (
    "core::panicking::panic",
    "core::panicking::panic_fmt",
    "core::panicking::panic_nounwind",
    "core::panicking::panic_explicit",
    "core::panicking::panic_display",
    "core::panicking::panic_str_2015",
    "core::panicking::unreachable_display",
    "core::panicking::assert_failed",
    "core::panicking::assert_failed_inner",
    "core::panicking::panic_const",
    "std::rt::begin_panic",
    "std::rt::panic_fmt",
    "core::option::unwrap_failed",
    "core::option::expect_failed",
    "core::result::unwrap_failed",
)


def is_panic_call(t):
    if t["k"] != "call":
        return False
    c = callee(t) or ""
    if c.startswith("core::panicking::") or c.startswith("std::rt::begin_panic") or c.startswith("std::panicking::"):
        return True
    return c in PANIC_FNS


def span_macros(x):
    return x["span"].get("macros", [])


def in_debug_assert(x):
    return any(m.startswith("debug_assert") for m in span_macros(x))


def panic_message(body, bb):
    """best-effort: the string literal(s) feeding a panic call in block bb (format pieces)"""
    msgs = []
    t = body.blocks[bb]["term"]
    for a in t.get("args", []):
        if a["k"] == "const" and "str" in a:
            msgs.append(a["str"])
    # look back through a few predecessor blocks for Arguments::new_const / new_v1 with str pieces
    seen = set()
    stack = [bb]
    hops = 0
    while stack and hops < 12:
        b = stack.pop()
        if b in seen:
            continue
        seen.add(b)
        hops += 1
        bl = body.blocks[b]
        for s in bl["stmts"]:
            if s["k"] == "assign":
                for o in _rv_operands(s["rv"]):
                    if o["k"] == "const" and "str" in o:
                        msgs.append(o["str"])
        tt = bl["term"]
        if tt["k"] == "call" and b != bb:
            for a in tt["args"]:
                if a["k"] == "const" and "str" in a:
                    msgs.append(a["str"])
        for p in body.pred(b):
            # only walk back along straight-line predecessors (same macro expansion)
            if len(body.succ(p)) == 1:
                stack.append(p)
    return msgs


def _rv_operands(rv):
    k = rv["k"]
    if k in ("use", "cast", "repeat", "wrapbinder"):
        return [rv["op"]]
    if k == "binop":
        return [rv["a"], rv["b"]]
    if k == "unop":
        return [rv["a"]]
    if k == "aggregate":
        return rv["ops"]
    return []


def rv_operands(rv):
    return _rv_operands(rv)


# ------------------------------------------------------------------------------------------
# findings, evidence, known findings


class Finding:
    def __init__(self, rule, key, msg, body=None, line=None, file=None, detail=None):
        self.rule = rule
        self.key = key
        self.msg = msg
        self.file = file or (body.file if body is not None else None)
        self.line = line or (body.line if body is not None else None)
        self.detail = detail or {}

    def fullkey(self):
        return "%s:%s" % (self.rule, self.key)

    def to_json(self):
        return {"rule": self.rule, "key": self.fullkey(), "msg": self.msg, "file": self.file, "line": self.line, "detail": self.detail}


class Result:
    """accumulates obligations, findings, notes for one property run"""

    def __init__(self):
        self.obligations = 0
        self.discharged = 0
        self.findings = []
        self.samples = []
        self.notes = []
        self.assumptions = []
        self.undecided = []
        self.counters = {}
        self.distinct = set()
        self.clauses = []

    def ok(self, rule, key, what=None, nontrivial=True):
        self.obligations += 1
        self.discharged += 1
        if nontrivial:
            self.distinct.add("%s:%s" % (rule, key))
        if what is not None and len(self.samples) < 400:
            self.samples.append({"rule": rule, "instance": key, "verdict": "holds", "what": what})

    def fail(self, finding):
        self.obligations += 1
        self.distinct.add(finding.fullkey())
        self.findings.append(finding)

    def note(self, s):
        if s not in self.notes:
            self.notes.append(s)

    def assume(self, s):
        if s not in self.assumptions:
            self.assumptions.append(s)

    def count(self, k, n=1):
        self.counters[k] = self.counters.get(k, 0) + n

    def clause(self, s):
        if s not in self.clauses:
            self.clauses.append(s)


def load_known():
    p = os.path.join(VERIF, "known_findings.json")
    if not os.path.exists(p):
        return []
    with open(p) as fh:
        return json.load(fh).get("findings", [])


# ------------------------------------------------------------------------------------------
# MIR inlining of private helpers: lets the intraprocedural rules see through "extract helper" refactors


def _remap(x, lmap, bmap):
    """deep copy of a MIR JSON fragment with locals and block indices renamed"""
    if isinstance(x, list):
        return [_remap(y, lmap, bmap) for y in x]
    if not isinstance(x, dict):
        return x
    out = {}
    for k, v in x.items():
        if k == "local" and isinstance(v, int):
            out[k] = lmap(v)
        elif k in ("target", "otherwise", "unwind") and isinstance(v, int):
            out[k] = bmap(v)
        elif k == "targets" and isinstance(v, list):
            out[k] = [[e[0], bmap(e[1])] if isinstance(e, list) else (bmap(e) if isinstance(e, int) else e) for e in v]
        else:
            out[k] = _remap(v, lmap, bmap)
    return out


def inline_private(facts, body, keep=(), depth=2, max_blocks=120, _stack=()):
    """Body equal to `body` with every direct call of a small private (non-exported, non-recursive) function of the crate replaced
    by the callee's blocks.  `keep`: names / paths of callees that stay calls (the helpers a rule knows by name)."""
    blocks = [dict(bl, stmts=list(bl["stmts"])) for bl in body.blocks]
    locals_ = list(body.locals)
    changed = False
    inlined = []
    for i in range(len(body.blocks)):
        t = blocks[i].get("term")
        if not t or t["k"] != "call" or blocks[i].get("cleanup"):
            continue
        fn = callee_fn(t)
        if not fn or not fn.get("local") or not fn.get("path"):
            continue
        path = fn["path"]
        cb = facts.body(path)
        if cb is None or cb.kind not in ("Fn", "AssocFn") or cb.exported() or path == body.path or path in _stack:
            continue
        if path in keep or (cb.name in keep) or len(cb.blocks) > max_blocks or t.get("target") is None:
            continue
        if len(t["args"]) != cb.arg_count or t["dest"]["proj"]:
            continue
        if depth > 1:
            cb = inline_private(facts, cb, keep=keep, depth=depth - 1, max_blocks=max_blocks, _stack=_stack + (body.path,))
        loff, boff = len(locals_), len(blocks)
        locals_.extend(dict(l) for l in cb.locals)
        exit_b = boff + len(cb.blocks)
        lmap = lambda l, o=loff: l + o
        bmap = lambda b, o=boff: b + o
        for bl in cb.blocks:
            nb = {"stmts": _remap(bl["stmts"], lmap, bmap)}
            if bl.get("cleanup"):
                nb["cleanup"] = True
            tt = bl.get("term")
            if tt and tt["k"] == "return":
                nb["term"] = {"k": "goto", "target": exit_b, "span": tt.get("span")}
            else:
                nb["term"] = _remap(tt, lmap, bmap)
            blocks.append(nb)
        # exit block: dest = move callee._0 ; goto original target
        blocks.append({"stmts": [{"k": "assign", "place": dict(t["dest"]), "rv": {"k": "use", "op": {"k": "move", "place": {"local": loff, "proj": [], "ty": cb.locals[0]["ty"]}}}, "span": t.get("span")}], "term": {"k": "goto", "target": t["target"], "span": t.get("span")}})
        # parameter passing at the call site
        for k_, a in enumerate(t["args"]):
            blocks[i]["stmts"].append({"k": "assign", "place": {"local": loff + 1 + k_, "proj": [], "ty": cb.locals[1 + k_]["ty"]}, "rv": {"k": "use", "op": a}, "span": t.get("span")})
        blocks[i]["term"] = {"k": "goto", "target": boff, "span": t.get("span"), "inlined_call": path}
        inlined.append(path)
        changed = True
    if not changed:
        return body
    j = dict(body.j)
    j["blocks"] = blocks
    j["locals"] = locals_
    nb = Body(j, facts)
    nb.inlined_callees = inlined + [p for p in getattr(body, "inlined_callees", [])]
    return nb
