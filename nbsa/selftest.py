"""Liveness self-test of the rules whose instance count on the real tree is zero.

Each such rule is run on the facts of /verif/fixture (a look-alike skeleton with one positive example per rule and two
negative controls).  A rule that does not report its example - or reports a control - makes the check fail: its silence on
/repo would prove nothing.  The fixture is extracted with the same driver; its facts are cached by content like /repo's."""
import os

from . import core
from .core import Finding

FIXTURE = os.path.join(core.VERIF, "fixture")


class _FixtureCtx:
    tier = "quick"

    def __init__(self):
        self.repo = FIXTURE
        self.configs_used = []

    def facts(self, config="default"):
        # the fixture has one configuration; whatever a rule asks for, it gets that one
        return core.load("default", FIXTURE)

    def thorough(self):
        return False


def _run(rule_fn):
    r = core.Result()
    rule_fn(_FixtureCtx(), r)
    return r


def _cases():
    from . import r1, r2, r3, r8, r9

    return {
        "R2-count-narrowed": (lambda c, r: r2.check_no_count_narrowing(None, 0)(c, r, config="default"), "zero_digits|", ["zero_digits_mod"]),
        "R3c-operand-overflow": (lambda c, r: r3.check_operand_overflow(c, r, config="default"), "top_bit_mask|exp|Add", ["succ_checked"]),
        "R3c-operand-overflow-abs": (lambda c, r: r3.check_operand_overflow(c, r, config="default"), "scale_by|k|abs", ["scale_by_total"]),
        "R3c-shift-range": (lambda c, r: r3.check_shift_amount_range(c, r, config="default"), "low_mask|shift amount 1..=64", ["low_mask_ok"]),
        "R3c-digit-step": (lambda c, r: r3.check_digit_step_checked(c, r, config="default"), "borrow_one|- 1", ["bump_low"]),
        "R1-constant-cut": (lambda c, r: r1.check_no_constant_cut(c, r, config="default"), "add_assign|resize(2)", []),
        "R2-operand-narrowed": (lambda c, r: r2.check_no_operand_narrowing(c, r, config="default"), "Shl<u64>", []),
        "R9-carry-exit": (lambda c, r: r9.check_carry_exits(c, r, config="default"), "twice_negated|", ["twice_negated_ok"]),
        "R9-exhaustion-test": (lambda c, r: r9.check_exhaustion_tests_live(c, r, config="default"), "take_back|", ["take_back_ok"]),
        "R8-mul-reaches-long-division": (lambda c, r: r8.check_mul_calls_no_long_division(c, r, config="default"), "div_rem_core", []),
    }


def selftest(*rules):
    def f(ctx, res):
        cases = _cases()
        for rule in rules:
            fn, must, controls = cases[rule]
            try:
                r = _run(fn)
            except core.ExtractError as e:
                res.fail(Finding("R0-selftest", rule, "the fixture crate could not be analysed: %s" % str(e)[:200], file="fixture/src/lib.rs", line=0))
                continue
            hits = [x for x in r.findings if x.rule == rule or rule.startswith(x.rule + "-")]
            if not any(must in x.key for x in hits):
                res.fail(Finding("R0-selftest", rule, "the rule does not report its positive example (`%s`) in /verif/fixture: its silence on /repo proves nothing" % must, file="fixture/src/lib.rs", line=0))
            elif any(c in x.key for x in hits for c in controls):
                res.fail(Finding("R0-selftest", rule, "the rule reports a negative control of /verif/fixture (%s)" % controls, file="fixture/src/lib.rs", line=0))
            else:
                res.ok("R0-selftest", rule, {"positive_example_reported": must, "negative_controls_silent": controls})
        res.clause("R0: every zero-instance rule of this property reports its positive example in /verif/fixture and stays silent on the controls (run on every check)")

    f.__name__ = "selftest_" + "_".join(x.replace("-", "") for x in rules)
    return f
