"""R2 - operator-form conformance.

Every `impl Op<R> for L` (L or R in the Big family) is classified as *forwarder* or *leaf*.
Forwarders must (1) map operands in order (swap only for commutative operators), (2) promote
scalars losslessly, (3) route the callee's result to their own result, (4) form an acyclic
forwarding graph ending in leaves.  Leaves are compared against a reviewed table.
"""
import json
import os
import re

from . import core
from .core import Finding, callee, callee_fn, callee_name, op_local

BIG = ("biguint::BigUint", "bigint::BigInt")

FAMILIES = {
    "Add": ["core::ops::Add", "core::ops::AddAssign", "num_traits::CheckedAdd", "core::iter::Sum"],
    "Sub": ["core::ops::Sub", "core::ops::SubAssign", "num_traits::CheckedSub"],
    "Mul": ["core::ops::Mul", "core::ops::MulAssign", "num_traits::CheckedMul", "core::iter::Product"],
    "Div": ["core::ops::Div", "core::ops::DivAssign", "num_traits::CheckedDiv"],
    "Rem": ["core::ops::Rem", "core::ops::RemAssign"],
    "BitAnd": ["core::ops::BitAnd", "core::ops::BitAndAssign"],
    "BitOr": ["core::ops::BitOr", "core::ops::BitOrAssign"],
    "BitXor": ["core::ops::BitXor", "core::ops::BitXorAssign"],
    "Shl": ["core::ops::Shl", "core::ops::ShlAssign"],
    "Shr": ["core::ops::Shr", "core::ops::ShrAssign"],
    "Pow": ["num_traits::Pow"],
}
TRAIT_FAMILY = {}
for fam, trs in FAMILIES.items():
    for t in trs:
        TRAIT_FAMILY[t] = fam
COMMUTATIVE = {"Add", "Mul", "BitAnd", "BitOr", "BitXor"}
ASSIGN_TRAITS = {t for t in TRAIT_FAMILY if t.endswith("Assign")}
CHECKED_TRAITS = {t for t in TRAIT_FAMILY if "Checked" in t}

INT_RE = re.compile(r"^(u|i)(8|16|32|64|128|size)$")


def is_big(ty):
    return any(b in ty for b in BIG)


def strip_ref(ty):
    while ty.startswith("&"):
        ty = ty[1:].strip()
        if ty.startswith("mut "):
            ty = ty[4:]
        if ty.startswith("'"):
            ty = ty.split(" ", 1)[1] if " " in ty else ty
    return ty


PTR_BITS = [64]  # width of usize/isize in the fact base being analysed (set by _ptr_width)


def _ptr_width(config):
    PTR_BITS[0] = 32 if str(config).endswith("32") else 64


def int_info(ty):
    m = INT_RE.match(ty)
    if not m:
        return None
    bits = PTR_BITS[0] if m.group(2) == "size" else int(m.group(2))
    return (m.group(1) == "i", bits)


def lossless_cast(frm, to):
    a, b = int_info(frm), int_info(to)
    if a is None or b is None:
        return False
    (sa, ba), (sb, bb) = a, b
    if sa == sb:
        return bb >= ba
    if not sa and sb:
        return bb > ba
    return False  # signed -> unsigned never value preserving


def operator_bodies(facts):
    out = []
    for b in facts.bodies:
        tr = b.trait
        if tr not in TRAIT_FAMILY or b.kind != "AssocFn":
            continue
        tys = [b.self_ty] + list(b.trait_args)
        if not any(is_big(t) for t in tys):
            continue
        out.append(b)
    return out


# calls that do not count as "work" inside a forwarder
def transparent_call(t):
    fn = callee_fn(t)
    if not fn:
        return False
    nm = fn.get("raw_name")
    raw = fn.get("raw") or ""
    path = fn.get("path") or raw
    if raw == "core::clone::Clone::clone" or nm == "clone" and fn.get("raw_trait") == "core::clone::Clone":
        return True
    if raw in ("core::mem::replace", "core::mem::take"):
        return True
    if fn.get("raw_trait") == "biguint::IntDigits" and nm in ("capacity", "len"):
        return True
    if raw in ("core::ops::Deref::deref", "core::ops::DerefMut::deref_mut"):
        return True
    if raw in ("core::convert::From::from", "core::convert::Into::into"):
        # lossless promotion primitive -> primitive / primitive -> Big
        args = fn.get("args") or []
        if len(args) >= 2:
            dst, src = (args[0], args[1]) if raw.endswith("from") else (args[1], args[0])
            if int_info(src) is not None and (is_big(dst) or (int_info(dst) and lossless_cast(src, dst))):
                return True
    return False


class Tracer(core.Flow):
    """Flow that records int casts traversed and treats transparent calls as identity on arg 0"""

    def __init__(self, body):
        core.Flow.__init__(self, body, transparent=set())
        self.casts = []

    def roots_of_local(self, l, depth=0, _seen=None):
        b = self.b
        if _seen is None:
            _seen = set()
        if l in _seen or depth > 60:
            return set()
        _seen = _seen | {l}
        ds = b.defs().get(l, [])
        out = set()
        if b.is_param(l):
            out.add(("param", l, ()))
        if not ds and not b.is_param(l):
            return {("unknown", "undef _%d" % l)}
        for d in ds:
            if d[0] == "assign":
                rv = d[3]["rv"]
                if rv["k"] == "cast":
                    if rv["ck"] == "IntToInt":
                        self.casts.append((rv["from"], rv["to"], d[3]["span"]["line"]))
                    elif not rv["ck"].startswith("PointerCoercion"):
                        out.add(("cast", rv["ck"]))
                        continue
                out |= self.roots_of_rvalue(rv, d[1], d[2], depth + 1, _seen)
            elif d[0] == "call":
                t = d[2]
                if transparent_call(t) and t["args"]:
                    fn = callee_fn(t)
                    raw = fn.get("raw")
                    if raw in ("core::convert::From::from", "core::convert::Into::into"):
                        args = fn.get("args") or []
                        dst, src = (args[0], args[1]) if raw.endswith("from") else (args[1], args[0])
                        self.casts.append((src, dst if int_info(dst) else "Big", t["span"]["line"]))
                    out |= self._op(t["args"][0], depth + 1, _seen)
                else:
                    out.add(("call", d[1], callee(t), ()))
            else:
                out.add(("asm", d[1]))
        return out


def family_of(b):
    return TRAIT_FAMILY.get(b.trait)


def classify(facts, b):
    """returns dict(kind='forwarder'|'leaf', calls=[(bb, term)], reason=...)"""
    fam = family_of(b)
    live = b.live_blocks()
    sig = []
    fam_calls = []
    for i, t in b.calls():
        if i not in live:
            continue
        if core.is_panic_call(t):
            return {"kind": "leaf", "reason": "contains a panic path"}
        if transparent_call(t):
            continue
        fn = callee_fn(t)
        tr = fn.get("impl_trait") if fn else None
        if tr is None and fn:
            tr = fn.get("raw_trait")
        if fn and tr in TRAIT_FAMILY and TRAIT_FAMILY[tr] == fam:
            fam_calls.append((i, t))
        sig.append((i, t))
    if not fam_calls:
        return {"kind": "leaf", "reason": "no call to the same operator family"}
    if len(sig) != len(fam_calls):
        other = [callee(t) for i, t in sig if (i, t) not in fam_calls]
        return {"kind": "leaf", "reason": "other work: %s" % other[:3]}
    # any other work? arithmetic binops on non-bool, loops, asm
    for i, si, s in b.stmts():
        if i not in live:
            continue
        rv = s.get("rv")
        if rv and rv["k"] == "binop" and rv["op"] not in ("Ge", "Gt", "Le", "Lt", "Eq", "Ne"):
            return {"kind": "leaf", "reason": "arithmetic in body"}
    # exactly one family call per path
    blocks = [i for i, t in fam_calls]
    for i in blocks:
        r = b.reachable(b.blocks[i]["term"]["target"]) if b.blocks[i]["term"]["target"] is not None else set()
        if any(j in r for j in blocks):
            return {"kind": "leaf", "reason": "two family calls on one path"}
    rets = b.return_blocks()
    r = b.reachable(0, without_blocks=blocks)
    if any(x in r for x in rets):
        return {"kind": "leaf", "reason": "a path avoids the family call"}
    # a call that operates on a *component* of an operand (e.g. `self.data <<= rhs`) is an
    # implementation in terms of the magnitude, not a forwarder
    for i, t in fam_calls:
        tr = Tracer(b)
        for a in t["args"]:
            for r in tr.roots_of_operand(a):
                if r[0] == "param" and any(not f.startswith("#") for f in r[2]):
                    return {"kind": "leaf", "reason": "operates on a component (%s) of an operand" % ".".join(r[2])}
    return {"kind": "forwarder", "calls": fam_calls}


def param_root(roots):
    """single parameter root with no field path -> its local index, else None"""
    if len(roots) != 1:
        return None
    r = next(iter(roots))
    if r[0] == "param" and all(f.startswith("#") for f in r[2]):
        return r[1]
    return None


def _tuple_field_of(b, op, depth=0):
    """(tuple local, field index) when the operand is - through moves, reborrows and clones - a field of a local tuple"""
    for _ in range(10):
        pl = core.op_place(op)
        if pl is None:
            return None
        fs = [e for e in pl["proj"] if e["k"] == "field"]
        if fs and b.local_ty(pl["local"]).startswith("("):
            return (pl["local"], fs[0]["idx"])
        if fs:
            return None
        ds = b.defs().get(pl["local"], [])
        if len(ds) != 1:
            return None
        d = ds[0]
        if d[0] == "assign":
            rv = d[3]["rv"]
            if rv["k"] == "use":
                op = rv["op"]
                continue
            if rv["k"] in ("ref", "copyforderef"):
                op = {"k": "copy", "place": rv["place"]}
                continue
            return None
        if d[0] == "call" and callee_name(d[2]) in ("clone", "deref", "borrow", "as_ref") and d[2]["args"]:
            op = d[2]["args"][0]
            continue
        return None
    return None


def _tuple_select(b, a0, a1):
    """list of (param feeding arg0, param feeding arg1) over all definitions of the pair both arguments are taken from"""
    f0, f1 = _tuple_field_of(b, a0), _tuple_field_of(b, a1)
    if f0 is None or f1 is None or f0[0] != f1[0] or {f0[1], f1[1]} != {0, 1}:
        return None
    T = f0[0]
    out = []
    ds = b.defs().get(T, [])
    if not ds or b.partial_defs().get(T):
        return None
    for d in ds:
        if d[0] != "assign" or d[3]["rv"]["k"] != "aggregate" or len(d[3]["rv"]["ops"]) != 2:
            return None
        tr = Tracer(b)
        ps = [param_root(tr.roots_of_operand(o)) for o in d[3]["rv"]["ops"]]
        if None in ps:
            return None
        out.append((ps[f0[1]], ps[f1[1]]))
    return out


def check_forwarder(facts, b, calls, res, findings):
    fam = family_of(b)
    targets = []
    for i, t in calls:
        tr = Tracer(b)
        args = t["args"]
        tgt = callee(t)
        targets.append(tgt)
        key = "%s" % b.path
        if len(args) != 2:
            findings.append(Finding("R2-operand-mapping", key, "family call with %d arguments" % len(args), b, t["span"]["line"]))
            continue
        r0 = param_root(tr.roots_of_operand(args[0]))
        r1 = param_root(tr.roots_of_operand(args[1]))
        if r0 is None or r1 is None:
            # `let (a, b) = if c { (self, other) } else { (other, self) }; a.op(b)`: judge each way of filling the pair
            sel = _tuple_select(b, args[0], args[1])
            if sel is not None:
                pairs = set(sel)
                if pairs <= {(1, 2), (2, 1)} and (fam in COMMUTATIVE or pairs == {(1, 2)}):
                    res.ok("R2-forward", key, {"operands": "selected pair", "orders": sorted(pairs)})
                    continue
                if pairs <= {(1, 2), (2, 1)}:
                    findings.append(Finding("R2-operand-swap", key, "non-commutative operator %s forwards to `%s` with its operands swapped on one path of an operand selection" % (fam, tgt), b, t["span"]["line"], detail={"macros": core.span_macros(t)}))
                    continue
        if r0 is None or r1 is None:
            findings.append(
                Finding(
                    "R2-operand-mapping",
                    key,
                    "operands of the forwarded call `%s` do not derive from this impl's own operands through transparent steps only" % tgt,
                    b,
                    t["span"]["line"],
                )
            )
            continue
        if (r0, r1) == (1, 2):
            pass
        elif (r0, r1) == (2, 1):
            if fam not in COMMUTATIVE:
                findings.append(
                    Finding(
                        "R2-operand-swap",
                        key,
                        "non-commutative operator %s forwards to `%s` with its operands swapped (lhs <- rhs parameter, rhs <- lhs parameter)" % (fam, tgt),
                        b,
                        t["span"]["line"],
                        detail={"macros": core.span_macros(t)},
                    )
                )
                continue
        else:
            findings.append(Finding("R2-operand-mapping", key, "forwarded call `%s` uses parameter %d for both operands" % (tgt, r0), b, t["span"]["line"]))
            continue
        bad = [(f, to, ln) for f, to, ln in tr.casts if not (to == "Big" or lossless_cast(f, to))]
        if bad:
            f, to, ln = bad[0]
            findings.append(
                Finding(
                    "R2-lossy-promotion",
                    key,
                    "operand is cast %s -> %s before being forwarded to `%s`; the cast does not preserve every value" % (f, to, tgt),
                    b,
                    ln,
                )
            )
            continue
        res.ok("R2-forward", key, None)
    # result routing
    call_blocks = {i for i, t in calls}
    tr = Tracer(b)
    key = b.path
    ok = True
    if b.trait in ASSIGN_TRAITS:
        # either the callee gets `&mut *self` (assign-to-assign) or the callee's result is stored to *self
        stores = []
        for i, si, s in b.stmts():
            if s["k"] == "assign" and s["place"]["local"] == 1 and s["place"]["proj"] and s["place"]["proj"][0]["k"] == "deref" and len(s["place"]["proj"]) == 1:
                stores.append(s)
        for i, t in calls:
            fn = callee_fn(t)
            ttr = fn.get("impl_trait") or fn.get("raw_trait")
            if ttr in ASSIGN_TRAITS:
                continue
            # value-producing callee: its dest must be stored into *self
            routed = False
            for s in stores:
                roots = tr.roots_of_rvalue(s["rv"], 0, 0, 0, set())
                if ("call", i, callee(t), ()) in roots:
                    routed = True
            if not routed:
                ok = False
        for s in stores:
            roots = tr.roots_of_rvalue(s["rv"], 0, 0, 0, set())
            for r in roots:
                if not (r[0] == "call" and r[1] in call_blocks):
                    ok = False
    else:
        roots = tr.roots_of_local(0)
        for r in roots:
            if r[0] == "call" and r[1] in call_blocks:
                continue
            if r[0] == "agg":
                # Some(result)
                st = b.blocks[r[1]]["stmts"][r[2]]
                rv = st["rv"]
                if rv.get("adt") == "core::option::Option" and rv.get("variant") == "Some":
                    rr = tr.roots_of_operand(rv["ops"][0])
                    if all(x[0] == "call" and x[1] in call_blocks for x in rr):
                        continue
                ok = False
            elif r[0] == "param" and r[1] == 1:
                # `self op= other; From::from(self)`: callee is an *Assign on &mut self
                if any((callee_fn(t).get("impl_trait") or "") in ASSIGN_TRAITS for i, t in calls):
                    continue
                ok = False
            else:
                ok = False
    if not ok:
        findings.append(Finding("R2-result-routing", key, "the value returned / stored is not (only) the result of the forwarded call", b))
    else:
        res.ok("R2-result", key, None, nontrivial=False)
    return targets


def leaves_table_path():
    return os.path.join(core.VERIF, "tables", "r2_leaves.json")


def analyse(facts):
    """returns (ops, classes) for all operator bodies"""
    ops = operator_bodies(facts)
    classes = {}
    for b in ops:
        classes[b.path] = classify(facts, b)
    return ops, classes


def run(ctx, res, families=None, config="all", check_table=True):
    facts = ctx.facts(config)
    ops, classes = analyse(facts)
    findings = []
    graph = {}
    n_fwd = n_leaf = 0
    by_path = {b.path: b for b in ops}
    for b in ops:
        fam = family_of(b)
        if families and fam not in families:
            continue
        c = classes[b.path]
        if c["kind"] == "forwarder":
            n_fwd += 1
            graph[b.path] = check_forwarder(facts, b, c["calls"], res, findings)
        else:
            n_leaf += 1
    # acyclicity / every chain ends in a leaf of the same family
    state = {}

    def visit(p, stack):
        if p in state:
            return state[p]
        if p not in graph:
            state[p] = "leaf" if p in by_path else "external"
            return state[p]
        if p in stack:
            return "cycle"
        stack = stack | {p}
        r = "leaf"
        for q in graph[p]:
            v = visit(q, stack)
            if v == "cycle":
                r = "cycle"
            elif v == "external" and r != "cycle":
                r = "external"
        state[p] = r
        return r

    for p in list(graph):
        v = visit(p, frozenset())
        b = by_path[p]
        if v == "cycle":
            findings.append(Finding("R2-forward-cycle", p, "forwarding chain starting here never reaches an implementation (cycle)", b))
        elif v == "external":
            # forwards to an operator impl outside the crate's Big-family impls (e.g. a primitive op) - not an error per se
            res.ok("R2-chain", p, None, nontrivial=False)
        else:
            res.ok("R2-chain", p, None, nontrivial=False)
    res.count("R2 operator bodies", n_fwd + n_leaf)
    res.count("R2 forwarders", n_fwd)
    res.count("R2 leaves", n_leaf)
    # floors & leaf table
    if not families:
        total = len(ops)
        if total < 1277:
            findings.append(Finding("R2-anchor-lost", "operator-bodies", "only %d operator impl bodies found (floor 1277): the analysis lost sight of the operator forms" % total, file="src/macros.rs", line=0))
    if check_table:
        tp = leaves_table_path()
        if os.path.exists(tp):
            with open(tp) as fh:
                table = json.load(fh)
            # an impl is identified by `<impl Trait<Args> for Self>::method`, not by the module it is written in
            def impl_key(path):
                i = path.find("<impl ")
                return path[i:] if i >= 0 else path

            known = {impl_key(x) for x in table["leaves"]}
            for b in ops:
                fam = family_of(b)
                if families and fam not in families:
                    continue
                if classes[b.path]["kind"] == "leaf" and impl_key(b.path) not in known:
                    # an implementation of its own that nobody reviewed: this rule can neither show nor refute that it agrees with
                    # the canonical operation (the sign-level interpreter and the digit-level rules still look at it)
                    res.note("R2-unclassified-leaf: %s is neither a pure forwarder to its operator family nor one of the reviewed implementations (%s) - agreement with the canonical operation is not decided by R2" % (b.path, classes[b.path].get("reason")))
                    res.count("R2 unreviewed leaves")
        else:
            findings.append(Finding("R2-anchor-lost", "leaf-table", "tables/r2_leaves.json missing", file="(verif)", line=0))
    for f in findings:
        res.fail(f)
    # samples
    k = 0
    for b in ops:
        if families and family_of(b) not in families:
            continue
        c = classes[b.path]
        if c["kind"] == "forwarder" and k < 12:
            res.samples.append({"rule": "R2-forward", "instance": b.path, "forwards_to": graph.get(b.path), "verdict": "holds" if not any(f.key == b.path for f in findings) else "VIOLATED"})
            k += 1
    res.clause("R2: every operator impl is a verified forwarder (operands in order, lossless promotion, result routed, acyclic) or a reviewed leaf")
    return ops, classes, graph


SIGNED_LEAF_TYPES = ("i32", "i64", "i128")
ARITH = {"Add", "Sub", "Mul", "Div", "Rem"}


def check_signed_leaves(ctx, res, families=None, config="all"):
    """obligation 5: a leaf of + - * / % with a signed scalar operand must reach the scalar's unsigned
    magnitude (checked_uabs / unsigned_abs) - signed scalars meet Big values only through |x|"""
    facts = ctx.facts(config)
    ops, classes = analyse(facts)
    n = 0
    for b in ops:
        fam = family_of(b)
        if fam not in ARITH or (families and fam not in families):
            continue
        if classes[b.path]["kind"] != "leaf":
            continue
        tys = [strip_ref(b.self_ty)] + [strip_ref(t) for t in b.trait_args]
        sc = [t for t in tys if int_info(t) and int_info(t)[0]]
        if not sc:
            continue
        n += 1
        reach = facts.reach_calls([b.path])
        ok = False
        # direct or via local callees (<= whole reachable set, the crate is small)
        for p in reach:
            for bb in facts.by_path.get(p, []):
                for i, t in bb.calls():
                    nm = callee_name(t)
                    if nm in ("checked_uabs", "unsigned_abs", "uabs"):
                        ok = True
        if ok:
            res.ok("R2-signed-magnitude", b.path, {"scalar": sc[0]})
        else:
            res.fail(
                Finding(
                    "R2-signed-magnitude",
                    b.path,
                    "arithmetic leaf with signed scalar operand %s never takes the scalar's unsigned magnitude "
                    "(checked_uabs/unsigned_abs); narrowing the Big operand to the signed type is wrong at %s::MIN" % (sc[0], sc[0]),
                    b,
                )
            )
    res.count("R2 signed scalar leaves", n)
    if not families and n < 45:
        res.fail(Finding("R2-anchor-lost", "signed-leaves", "only %d signed arithmetic leaves found (floor 45)" % n, file="src/bigint.rs", line=0))
    res.clause("R2.5: every arithmetic leaf with a signed scalar operand works on the scalar's unsigned magnitude")


def check_folds(ctx, res, config="all"):
    """obligation 6: Sum/Product fold with seed ZERO / one() and the type's own add / mul"""
    facts = ctx.facts(config)
    n = 0
    for b in facts.bodies:
        if b.trait not in ("core::iter::Sum", "core::iter::Product") or not is_big(b.self_ty or ""):
            continue
        n += 1
        is_sum = b.trait.endswith("Sum")
        folds = [(i, t) for i, t in b.calls() if callee_name(t) == "fold"]
        ok = False
        why = "no Iterator::fold call"
        if len(folds) == 1:
            i, t = folds[0]
            a = t["args"]
            tr = Tracer(b)
            src = param_root(tr.roots_of_operand(a[0]))
            seed = tr.roots_of_operand(a[1])
            f = a[2]
            fraw = f.get("fn", {}).get("raw") if f["k"] == "const" else None
            fself = (f.get("fn", {}).get("args") or [None])[0] if f["k"] == "const" else None
            want_fn = "core::ops::Add::add" if is_sum else "core::ops::Mul::mul"
            if is_sum:
                seed_ok = all(r[0] == "named" and r[1].endswith("::ZERO") for r in seed) and len(seed) == 1
            else:
                seed_ok = len(seed) == 1 and all(r[0] == "call" and (r[2] or "").endswith("One>::one") for r in seed)
            rroots = tr.roots_of_local(0)
            routed = all(r[0] == "call" and r[1] == i for r in rroots)
            if src != 1:
                why = "fold does not consume the iterator argument"
            elif not seed_ok:
                why = "fold seed is not %s" % ("ZERO" if is_sum else "one()")
            elif fraw != want_fn or fself != b.self_ty:
                why = "folded function is %s on %s, expected %s on %s" % (fraw, fself, want_fn, b.self_ty)
            elif not routed:
                why = "fold result is not the returned value"
            else:
                ok = True
        if ok:
            res.ok("R2-fold", b.path, {"seed": "ZERO" if is_sum else "one()", "fn": "add" if is_sum else "mul"})
        else:
            res.fail(Finding("R2-fold", b.path, why, b))
    if n < 4:
        res.fail(Finding("R2-anchor-lost", "folds", "only %d Sum/Product impls found (floor 4)" % n, file="src/macros.rs", line=0))
    res.clause("R2.6: Sum/Product are folds of the type's own add/mul seeded with ZERO/one()")


def write_table(ctx, config="all"):
    facts = ctx.facts(config)
    ops, classes = analyse(facts)
    leaves = sorted(b.path for b in ops if classes[b.path]["kind"] == "leaf")
    os.makedirs(os.path.dirname(leaves_table_path()), exist_ok=True)
    with open(leaves_table_path(), "w") as fh:
        json.dump({"comment": "operator impls that are real implementations (not forwarders); reviewed by reading", "leaves": leaves}, fh, indent=0)
    return len(leaves)


def check_no_operand_narrowing(ctx, res, families=None, config="all"):
    """no operator implementation narrows one of its scalar operands with a lossy `as` cast (the crate never does; a value
    outside the narrower type would silently change the operation)"""
    from . import tests as _t

    facts = ctx.facts(config)
    ops, classes = analyse(facts)
    n = 0
    for b in ops:
        if families and family_of(b) not in families:
            continue
        at = None
        bad = None
        for i, si, s in b.stmts():
            rv = s.get("rv")
            if rv and rv["k"] == "cast" and rv["ck"] == "IntToInt" and not lossless_cast(rv["from"], rv["to"]):
                if at is None:
                    at = _t.Atoms(b)
                a = at.of_operand(rv["op"])
                if a and all(x[0] == "param" and not x[2] for x in a):
                    # a narrowing behind a range test of the same operand (`if other <= u64::MAX { other as u64 }`) is value-preserving
                    pl_ = core.op_place(rv["op"])
                    if pl_ is not None and _copy_root(b, pl_["local"]) in _compared_locals(b):
                        continue
                    bad = (rv["from"], rv["to"], s["span"]["line"])
        n += 1
        if bad:
            res.fail(Finding("R2-operand-narrowed", b.path, "operand of type %s is narrowed to %s by an `as` cast (line %s): values that do not fit are silently changed before the operation" % bad, b, bad[2]))
        else:
            res.ok("R2-operand-narrowed", b.path, None, nontrivial=False)
    res.distinct.add("R2-operand-narrowed:all")
    res.clause("R2: no operator impl narrows a scalar operand with a lossy cast")


CONVERSION_TRAITS = ("core::convert::TryFrom", "core::convert::From", "num_traits::FromPrimitive", "biguint::ToBigUint", "bigint::ToBigInt")
# reviewed: digit splitting of a wide primitive inside a loop that consumes every digit
NARROWING_OK = {
    "biguint::convert::<impl core::convert::From<u128> for biguint::BigUint>::from": "pushes `n as BigDigit` then shifts n down: every digit is consumed",
    "biguint::convert::<impl core::convert::From<u64> for biguint::BigUint>::from": "same loop; narrowing only with 32-bit digits",
}


def check_no_width_narrowing_in_conversions(ctx, res, config="all"):
    """conversions from primitives never cast their input to a narrower integer type (value-changing for large inputs)"""
    from . import tests as _t

    facts = ctx.facts(config)
    n = 0
    for b in facts.bodies:
        if b.trait not in CONVERSION_TRAITS or b.kind != "AssocFn":
            continue
        if not any(is_big(t) for t in [b.self_ty or ""] + list(b.trait_args)):
            continue
        n += 1
        at = None
        bad = None
        for i, si, s in b.stmts():
            rv = s.get("rv")
            if rv and rv["k"] == "cast" and rv["ck"] == "IntToInt":
                fa, fb = int_info(rv["from"]), int_info(rv["to"])
                if fa and fb and fb[1] < fa[1]:
                    if at is None:
                        at = _t.Atoms(b)
                    a = at.of_operand(rv["op"])
                    if _t.params_of(a) and not _t.calls_of(a):
                        bad = (rv["from"], rv["to"], s["span"]["line"])
        # a float is never converted with a (saturating, rounding) `as` cast: the crate decodes mantissa/exponent exactly
        for i, si, s in b.stmts():
            rv = s.get("rv")
            if rv and rv["k"] == "cast" and rv["ck"] == "FloatToInt":
                bad = (rv["from"], rv["to"] + " (saturating float cast)", s["span"]["line"])
        if bad and b.path not in NARROWING_OK:
            res.fail(Finding("R2-conversion-narrowed", b.path, "the input is cast %s -> %s (line %s): inputs that need more than %s lose their high bits" % (bad[0], bad[1], bad[2], bad[1]), b, bad[2]))
        else:
            res.ok("R2-conversion-narrowed", b.path, None, nontrivial=False)
    res.distinct.add("R2-conversion-narrowed:all")
    res.count("conversion impls checked for narrowing", n)
    if n < 85:
        res.fail(Finding("R2-anchor-lost", "conversions", "only %d conversion impls found (floor 85)" % n, file="src/biguint/convert.rs", line=0))
    res.clause("C08: no From/TryFrom/FromPrimitive/ToBig* impl casts its primitive input to a narrower integer type (one reviewed digit-splitting loop excepted)")


def check_signed_cast_guarded(ctx, res, config="all"):
    """conversions to signed primitives: an unsigned value cast with `as` to a signed type of the same or a smaller width
    changes sign for values at or above 2^(N-1).  Casting back and comparing for equality does not notice (the way back
    sign-extends: `(x as i64) as u64 == x` holds for every x; for a narrower iN it also accepts the top 2^(N-1) values), so such
    a cast is sound only behind an *ordering* test of the value (`n < 1 << 63`, `n.cmp(&m)`, `x <= iN::MAX as u64`)."""
    facts = ctx.facts(config)
    n = 0
    for b in facts.bodies:
        if not (b.file or "").endswith("convert.rs") and b.trait not in CONVERSION_TRAITS:
            continue
        ordered = None
        for i, si, s in b.stmts():
            rv = s.get("rv")
            if not (rv and rv["k"] == "cast" and rv["ck"] == "IntToInt"):
                continue
            fa, fb = int_info(rv["from"]), int_info(rv["to"])
            if not (fa and fb) or fa[0] or not fb[0] or fb[1] > fa[1]:
                continue
            if rv["op"]["k"] == "const" or i not in b.live_blocks():
                continue
            n += 1
            if ordered is None:
                ordered = set()
                for bi2, si2, s2 in b.stmts():
                    r2_ = s2.get("rv")
                    if r2_ and r2_["k"] == "binop" and r2_["op"] in ("Lt", "Le", "Gt", "Ge"):
                        for o in (r2_["a"], r2_["b"]):
                            if o["k"] != "const" and core.op_place(o) is not None:
                                ordered.add(_copy_root(b, o["place"]["local"]))
                for bi2, t2 in b.terms():
                    if t2["k"] == "call" and (core.callee_name(t2) or "") in ("lt", "le", "gt", "ge", "cmp", "partial_cmp", "min", "max", "try_from", "try_into"):
                        for o in t2["args"]:
                            if o["k"] != "const" and core.op_place(o) is not None:
                                l_ = o["place"]["local"]
                                ordered.add(_copy_root(b, l_))
                                # a reference to the value: `n.cmp(&m)` takes &n
                                for d_ in b.defs().get(l_, []):
                                    if d_[0] == "assign" and d_[3]["rv"]["k"] == "ref" and not d_[3]["rv"]["place"]["proj"]:
                                        ordered.add(_copy_root(b, d_[3]["rv"]["place"]["local"]))
            root = _copy_root(b, rv["op"]["place"]["local"])
            key = "%s|%s->%s" % (b.path, rv["from"], rv["to"])
            if root in ordered:
                res.ok("R2-signed-cast", key, {"guard": "the value is range-tested by an ordering comparison"})
            else:
                res.fail(Finding("R2-signed-cast", key, "an unsigned value is cast %s -> %s (line %s) and the function never compares it by order with anything: values of 2^%d and above come out negative, and a cast-back-and-compare test cannot see that (the way back sign-extends)" % (rv["from"], rv["to"], s["span"]["line"], fb[1] - 1), b, s["span"]["line"]))
    res.count("unsigned -> signed same-or-narrower casts in conversions", n)
    if config == "all" and n < 2:
        res.fail(Finding("R2-anchor-lost", "signed-casts", "only %d unsigned->signed casts found in the conversions (floor 2: to_i64/to_i128)" % n, file="src/bigint/convert.rs", line=0))
    res.clause("C08: an unsigned value is cast to a signed type of the same or a smaller width only behind an ordering test of that value")


# ------------------------------------------------------------------------------------------
# digit counts / indices are never truncated

COUNT_CALLS = ("len", "position", "rposition", "count", "capacity", "bits", "trailing_zeros", "trailing_ones")
COUNT_SELF_HINT = ("slice", "Vec", "Iter", "BigUint", "BigInt", "[")


def _count_source(b, op, depth=0, seen=None):
    """Is this operand an (unbounded) digit count / index?  Follows only value-preserving steps (moves, lossless casts,
    Option payload projections, + - *) back to a slice length, an iterator position or a big-number bit count.  Any
    bounding step (%, &, >>, /, min, a comparison on the value) ends the walk with 'no'."""
    if seen is None:
        seen = set()
    if op["k"] == "const" or depth > 25:
        return None
    pl = op["place"]
    l = pl["local"]
    if (l, len(pl["proj"])) in seen:
        return None
    seen.add((l, len(pl["proj"])))
    if b.is_param(l):
        return None
    ds = b.defs().get(l, [])
    if b.partial_defs().get(l) or len(ds) != 1:
        return None
    d = ds[0]
    if d[0] == "call":
        t = d[2]
        nm = core.callee_name(t) or ""
        ce = core.callee(t) or ""
        if nm in COUNT_CALLS:
            # primitive trailing_zeros/count (u64::trailing_zeros) is bounded by the width: only big-number / slice forms count
            if nm in ("trailing_zeros", "trailing_ones", "bits", "count"):
                if not ("BigUint" in ce or "BigInt" in ce or "biguint" in ce or "bigint" in ce) or "<u" in ce or "<i" in ce:
                    return None
            return "%s()" % nm
        if nm in ("unwrap", "unwrap_or", "unwrap_or_default", "expect") and t["args"]:
            return _count_source(b, t["args"][0], depth + 1, seen)
        return None
    if d[0] != "assign":
        return None
    rv = d[3]["rv"]
    k = rv["k"]
    if k == "ptrmeta" or (k == "unop" and rv.get("op") == "PtrMetadata"):
        return "len()"
    if k == "use":
        return _count_source(b, rv["op"], depth + 1, seen)
    if k == "cast":
        if rv["ck"] == "IntToInt" and lossless_cast(rv["from"], rv["to"]):
            return _count_source(b, rv["op"], depth + 1, seen)
        return None
    if k == "binop" and rv["op"] in ("Add", "Sub", "Mul", "AddWithOverflow", "SubWithOverflow", "MulWithOverflow", "AddUnchecked", "SubUnchecked", "MulUnchecked"):
        return _count_source(b, rv["a"], depth + 1, seen) or _count_source(b, rv["b"], depth + 1, seen)
    return None


def _copy_root(b, l, depth=0):
    """follow single-definition plain copies back to the variable they copy"""
    while depth < 20 and not b.is_param(l):
        ds = b.defs().get(l, [])
        if len(ds) != 1 or ds[0][0] != "assign" or b.partial_defs().get(l):
            break
        rv = ds[0][3]["rv"]
        if rv["k"] == "use" and rv["op"]["k"] != "const" and not rv["op"]["place"]["proj"]:
            l = rv["op"]["place"]["local"]
            depth += 1
        else:
            break
    return l


def _compared_locals(b):
    """variables (copy roots) that some comparison in the body looks at: a cast of such a value may be range-checked"""
    out = set()
    for bi, si, s in b.stmts():
        rv = s.get("rv")
        if rv and rv["k"] == "binop" and rv["op"] in ("Lt", "Le", "Gt", "Ge", "Eq", "Ne"):
            for o, other in ((rv["a"], rv["b"]), (rv["b"], rv["a"])):
                # a comparison against another unbounded count (a bounds check `i < len`) bounds nothing
                if o["k"] != "const" and not (other["k"] != "const" and _count_source(b, other)):
                    # a test against zero (`k > 0`, `k != 0`, `k == 0`) says nothing about how large the value is
                    if other["k"] == "const" and core.op_const(other) == 0:
                        continue
                    out.add(_copy_root(b, o["place"]["local"]))
    for bi, t in b.terms():
        if t["k"] == "call" and (core.callee_name(t) or "") in ("lt", "le", "gt", "ge", "eq", "ne", "cmp", "partial_cmp", "min", "max"):
            for o in t["args"]:
                if o["k"] != "const":
                    out.add(_copy_root(b, o["place"]["local"]))
    return out


def check_no_count_narrowing(files=None, floor=0):
    def run(ctx, res, config="all"):
        facts = ctx.facts(config)
        nb = ncast = 0
        for b in facts.bodies:
            f = b.file or ""
            if files and not any(f.endswith(x) for x in files):
                continue
            nb += 1
            cmp_l = None
            for bi, si, s in b.stmts():
                rv = s.get("rv")
                if not (rv and rv["k"] == "cast" and rv["ck"] == "IntToInt"):
                    continue
                a, c = int_info(rv["from"]), int_info(rv["to"])
                if not a or not c or c[1] >= a[1] or rv["op"]["k"] == "const":
                    continue
                ncast += 1
                src = _count_source(b, rv["op"])
                if not src:
                    continue
                if cmp_l is None:
                    cmp_l = _compared_locals(b)
                if _copy_root(b, rv["op"]["place"]["local"]) in cmp_l:
                    continue  # possibly range-checked: not decided
                res.fail(Finding("R2-count-narrowed", "%s|%s->%s" % (b.path, rv["from"], rv["to"]),
                                 "a digit count / index (%s) is truncated %s -> %s by an `as` cast (line %s): operands with more than 2^%d digits or bits silently use a wrong count" % (src, rv["from"], rv["to"], s["span"]["line"], c[1]), b, s["span"]["line"]))
            res.ok("R2-count-narrowed", b.path, None, nontrivial=False)
        res.distinct.add("R2-count-narrowed:all")
        res.count("bodies scanned for truncated counts", nb)
        res.count("narrowing integer casts inspected", ncast)
        if nb < floor:
            res.fail(Finding("R2-anchor-lost", "count-narrowing", "only %d bodies in %s (floor %d)" % (nb, files, floor), file="src", line=0))
        res.clause("R2: no slice length, iterator position or big-number bit count is truncated by a narrowing `as` cast (value-preserving def chain; any bounding step or comparison on the value ends the walk)")

    run.__name__ = "r2_no_count_narrowing_" + "_".join(x.split("/")[-1].replace(".rs", "") for x in (files or ["all"]))
    return run


# ------------------------------------------------------------------------------------------
# conversions to a primitive never go through a primitive that cannot hold every value of the target

_PRIMS = ("u8", "u16", "u32", "u64", "u128", "usize", "i8", "i16", "i32", "i64", "i128", "isize")


def _range_of(ty):
    sg, bits = int_info(ty)
    return (-(1 << (bits - 1)), (1 << (bits - 1)) - 1) if sg else (0, (1 << bits) - 1)


def check_conversion_intermediate(ctx, res, config="all"):
    """`TryFrom<&Big*> for T` / `ToPrimitive::to_T` may call another `to_X` on the big value only if X can represent every value
    of T; otherwise a value that fits T but not X is rejected (or mangled)"""
    facts = ctx.facts(config)
    n = 0
    for b in facts.bodies:
        target = None
        if b.trait == "core::convert::TryFrom" and (b.self_ty or "") in _PRIMS and any(is_big(t) for t in b.trait_args):
            target = b.self_ty
        elif b.trait == "num_traits::ToPrimitive" and is_big(b.self_ty or "") and (b.name or "").startswith("to_") and b.name[3:] in _PRIMS:
            target = b.name[3:]
        if target is None:
            continue
        n += 1
        lo, hi = _range_of(target)
        bad = None
        bodies = [b] + [c for c in facts.bodies if c.kind == "Closure" and c.path.startswith(b.path + "::{closure")]
        for bb_ in bodies:
            for i, t in bb_.calls():
                nm = callee_name(t) or ""
                if not nm.startswith("to_") or nm[3:] not in _PRIMS or not t["args"]:
                    continue
                pl0 = core.op_place(t["args"][0])
                aty = bb_.local_ty(pl0["local"]) if pl0 else ""
                if not is_big(aty):
                    continue
                # only the converted value itself (not its magnitude field: the sign gates are R5's business)
                from .r1 import _base_of_local

                base = _base_of_local(bb_, pl0["local"])
                if bb_ is b and not (base and base[0] == "param" and base[1] == 1 and not base[2] and not [e for e in pl0["proj"] if e["k"] == "field"]):
                    continue
                if bb_ is not b:
                    continue  # captured values in closures: not followed
                xlo, xhi = _range_of(nm[3:])
                tlo = max(lo, 0) if "BigUint" in aty else lo
                if xlo > tlo or xhi < hi:
                    bad = (nm, t["span"]["line"])
        if bad:
            res.fail(Finding("R2-conversion-intermediate", b.path, "the conversion to %s goes through %s() (line %s), which cannot represent every %s value: values that fit %s but not %s are rejected" % (target, bad[0], bad[1], target, target, bad[0][3:]), b, bad[1]))
        else:
            res.ok("R2-conversion-intermediate", b.path, None, nontrivial=False)
    res.distinct.add("R2-conversion-intermediate:all")
    res.count("conversions to primitives checked for a too-narrow intermediate", n)
    if n < 40:
        res.fail(Finding("R2-anchor-lost", "conversion-intermediate", "only %d conversions to primitives found (floor 40)" % n, file="src/bigint/convert.rs", line=0))
    res.clause("C08: no conversion of a BigInt/BigUint to a primitive T goes through to_X() for an X that cannot hold every value of T")
