#!/bin/bash
# usage: neutralround.sh <n>  - for every finished neutral refactor /tmp/seed<n>-Cxx/k: confirm the suite passes with it and run every check
N=$1
mkdir -p /tmp/nconfirm$N /tmp/nrun$N
one() {
  d=$1; id=$2
  if [ ! -f /tmp/nconfirm$N/$id.txt ]; then
    W=$(mktemp -d /var/tmp/nbneu.XXXXXX)
    rsync -a --exclude target --exclude .git /repo/ "$W/"
    ( cd "$W" && patch -p1 -s < $d/patch.diff ) || { echo "PATCH FAILED" > /tmp/nconfirm$N/$id.txt; rm -rf "$W"; return; }
    ( cd "$W" && CARGO_TARGET_DIR=$W/target CARGO_NET_OFFLINE=true cargo test --offline 2>&1 | grep -E "^test result|error(\[|:)|FAILED" | sort | uniq -c ) > /tmp/nconfirm$N/$id.txt 2>&1
    rm -rf "$W"
  fi
  if [ ! -f /tmp/nrun$N/$id.txt ]; then /verif/nbsa/seedrun.sh $d/patch.diff > /tmp/nrun$N/$id.txt 2>&1; fi
}
n=0
for d in /tmp/seed$N-C*/[123]; do
  [ -f $d/patch.diff ] && [ -f $d/notes.md ] || continue
  p=$(basename $(dirname $d)); p=${p#seed$N-}; k=$(basename $d)
  one $d $p-$k &
  n=$((n+1)); if [ $n -ge 6 ]; then wait; n=0; fi
done
wait
for f in /tmp/nrun$N/*.txt; do id=$(basename $f .txt); echo "$id: suite=$(grep -c 'test result: ok' /tmp/nconfirm$N/$id.txt)ok/$(grep -c 'FAILED\|error' /tmp/nconfirm$N/$id.txt)bad fires=$(grep -c FIRES $f) $(grep FIRES $f | head -3 | cut -c1-170 | tr '\n' ' ')"; done
