import hashlib
import json
import os
import sys
import time
import traceback

from . import core


class Ctx:
    def __init__(self, tier, repo=None, suffix="", only=None):
        self.only = only
        self.tier = tier
        self.repo = repo or core.REPO
        self.configs_used = []
        self.extract_errors = {}
        self.suffix = suffix  # "32": every configuration is taken from the i686 (32-bit digit) build instead

    def facts(self, config="all"):
        from . import r2

        config = config + self.suffix if not config.endswith(self.suffix) else config
        if self.only is not None and config not in self.only:
            raise core.SkipConfig(config)
        if config not in self.configs_used:
            self.configs_used.append(config)
        r2.PTR_BITS[0] = 32 if config.endswith("32") else 64
        return core.load(config, self.repo)

    def thorough(self):
        return self.tier == "thorough"


def _diverse(samples, n):
    """up to n samples, taken round-robin over the rules so that every rule is represented"""
    by = {}
    for s_ in samples:
        by.setdefault(s_.get("rule"), []).append(s_)
    out = []
    i = 0
    while len(out) < n and any(len(v) > i for v in by.values()):
        for k in sorted(by, key=str):
            if len(by[k]) > i and len(out) < n:
                out.append(by[k][i])
        i += 1
    return out


def write_evidence(pid, tier, seed, res, ctx, wall, extra=None, known_hits=None):
    from . import props

    meta = props.PROPS[pid]
    bodies = 0
    calls = 0
    try:
        f = ctx.facts(ctx.configs_used[0] if ctx.configs_used else "all")
        bodies = len(f.bodies)
        calls = sum(1 for b in f.bodies for _ in b.calls())
    except Exception:
        pass
    cov = {
        "explanation": "Static analysis of the type-checked program (MIR/HIR facts from a rustc_private driver run on /repo's "
        "working tree). Decides the clauses listed in 'clauses_decided' for every input; does NOT decide: " + meta["not_decided"],
        "clauses_decided": res.clauses,
        "obligations": res.obligations,
        "discharged": res.discharged,
        "evaluations": max(res.obligations, 1),
        "distinct_nontrivial": len(res.distinct),
        "rule": "one evaluation = one rule instance (a function, call site, table cell or abstract case discovered in the facts); "
        "distinct_nontrivial counts distinct (rule, construct) keys whose check was non-vacuous",
        "samples": _diverse(res.samples, 60) if res.samples else [{"note": "no instance sampled"}],
        "configs": ctx.configs_used,
        "bodies_analysed": bodies,
        "call_sites": calls,
        "counters": res.counters,
        "undecided": res.undecided[:100],
        "known_findings": known_hits or [],
        "notes": res.notes,
        "tree_sha": core.tree_sha(ctx.repo),
        "exhaustive": False,
    }
    if extra:
        cov.update(extra)
    ev = {
        "property_id": pid,
        "tier": tier,
        "seed": seed,
        "level": "other",
        "coverage": cov,
        "assumptions": res.assumptions,
        "wall_s": round(wall, 3),
        "violations": len(res.findings) - len(known_hits or []),
    }
    d = os.path.join(core.VERIF, "evidence")
    os.makedirs(d, exist_ok=True)
    tmp = os.path.join(d, pid + ".json.tmp")
    with open(tmp, "w") as fh:
        json.dump(ev, fh, indent=1, sort_keys=False)
    os.replace(tmp, os.path.join(d, pid + ".json"))


def run_property(pid, tier, seed, repo=None, write=True):
    from . import props

    t0 = time.time()
    ctx = Ctx(tier, repo)
    res = core.Result()
    meta = props.PROPS[pid]
    runs = [(fn, None) for fn in meta["clauses"]]
    if tier == "thorough":
        for fn in meta["clauses"]:
            if fn in props.PORTABLE:
                runs += [(fn, "default"), (fn, "nostd")]
    # thorough tier: the same clauses on the 32-bit-digit variants of the code (i686 build through -Zbuild-std); rules that
    # are about x86_64-only constructs or that compare against 64-bit instance tables are left out, with the reason
    # quick tier: the same, restricted to the one configuration `all32` (a clause that also wants release / default / no_std
    # facts is cut short there)
    ctx32 = Ctx(tier, repo, suffix="32", only=None if tier == "thorough" else {"all32"})
    for fn in meta["clauses"]:
        if not _skip32(fn):
            runs.append((fn, "@32"))
    n64 = None
    from . import scope

    for fn, cfg in runs:
        n_before = len(res.findings)
        try:
            if cfg is None:
                fn(ctx, res)
            elif cfg == "@32":
                if n64 is None:
                    n64 = len(res.findings)
                fn(ctx32, res)
            else:
                fn(ctx, res, config=cfg)
            # attribution: a finding located outside what this property is anchored in is a note here and a violation of the
            # property that owns the location (nbsa/scope.py)
            scope.apply(pid, res, n_before, ctx32 if cfg == "@32" else ctx)
        except core.SkipConfig:
            pass
        except core.ExtractError as e:
            # the tree does not build in a configuration the rule needs: the property cannot be shown
            tail = "\n".join(e.output.strip().splitlines()[-25:])
            res.fail(
                core.Finding(
                    "R0-extract",
                    "config=%s" % e.config,
                    "fact extraction (cargo check through the driver) failed for configuration %s:\n%s" % (e.config, tail),
                    file="Cargo.toml",
                    line=0,
                )
            )
        except Exception as e:  # engine bug: fail closed, but say so
            res.fail(
                core.Finding(
                    "R0-engine-error",
                    "%s:%s" % (fn.__module__.split(".")[-1], fn.__name__),
                    "internal error in rule %s: %s\n%s" % (fn.__name__, e, traceback.format_exc()),
                    file="(verif)",
                    line=0,
                )
            )
    if n64 is not None:
        for f in res.findings[n64:]:
            f.msg = "[32-bit digit build, i686] " + f.msg
            f.key = f.key + "@32"
        res.clause("%d clauses re-run on the facts of the i686 build (32-bit digits; std built from rust-src)%s" % (sum(1 for _, c in runs if c == "@32"), "" if tier == "thorough" else " - quick tier: configuration all32 only"))
        ctx.configs_used += [c for c in ctx32.configs_used if c not in ctx.configs_used]
        from . import r2 as _r2

        _r2.PTR_BITS[0] = 64
    known = [k for k in core.load_known() if k.get("property") == pid and k.get("status") == "known"]
    known_keys = {k["key"]: k for k in known}
    known_hits = []
    viol = []
    for f in res.findings:
        if f.fullkey() in known_keys:
            known_hits.append({"key": f.fullkey(), "what": known_keys[f.fullkey()].get("what", "")})
        else:
            viol.append(f)
    extra = None
    if tier == "thorough" and repo is None and write:
        extra = {"mutant_bank": mutant_bank(pid)}
    wall = time.time() - t0
    res.wall = wall
    if write:
        write_evidence(pid, tier, seed, res, ctx, wall, extra=extra, known_hits=known_hits)
    return res, viol, known_hits


SKIP32 = {
    "check_block_loops": "x86_64 inline assembly: not compiled for i686",
    "check_block_loop_callers": "x86_64 inline assembly: not compiled for i686",
    "check_inventory": "instance counts of the 64-bit build (asm blocks, unsafe calls / dev-vs-release table)",
    "check_raw_slice": "the u32 view of a u64 buffer exists only with 64-bit digits",
    "check_raw_slice_lengths": "the u32 view of a u64 buffer exists only with 64-bit digits",
    "check_matrix": "the ten-configuration matrix is a host build; the i686 configurations are type-checked by their extraction",
    "check_feature_stability": "fingerprints are compared within one target",
    "check_panic_site_table": "reviewed table of the 64-bit build",
    "check_div_wide": "hardware div is x86_64 only",
}


def _skip32(fn):
    nm = fn.__name__
    if nm.startswith("selftest"):
        return "fixture"
    for k, why in SKIP32.items():
        if nm == k or nm.startswith(k + "_"):
            return why
    return None


MUTANT_PROPS = {
    "revert_10cab46": ["C16"], "revert_15b3ffd": ["C05", "C14"], "revert_34e570a": ["C03", "C14"], "revert_9ca561a": ["C06", "C14"],
    "revert_c02e67c": ["C10", "C03"], "revert_ccc525b": ["C09"], "revert_d1a75b0": ["C08"], "r2_": ["C10"], "r4_": ["C15"],
    "b32_": ["C17", "C04"], "r1_monty": ["C05", "C04"], "r1_sub": ["C01", "C04"], "r5_bit": ["C07"], "r5_divfloor": ["C03"], "r5_modpow": ["C05"], "r3_div_scaling": ["C03", "C10"],
}


def mutant_bank(pid):
    """thorough tier: apply every kept mutant of this property (seeded/<pid>-*, mutants/*) to a scratch copy of /repo and record
    which rules report it; the behaviour-preserving edits (mutants/neutral_*) must stay silent.  Reported in the evidence only."""
    import glob
    import shutil
    import subprocess
    import tempfile

    bank = []
    for d in sorted(glob.glob(os.path.join(core.VERIF, "seeded", pid + "-*"))):
        bank.append(("seeded/" + os.path.basename(d), os.path.join(d, "patch.diff"), "breaking"))
    # behaviour-preserving refactors written by sub-agents for this property (must stay silent)
    for d in sorted(glob.glob(os.path.join(core.VERIF, "neutral", pid + "-*"))):
        bank.append(("neutral/" + os.path.basename(d), os.path.join(d, "patch.diff"), "neutral"))
    for m in sorted(glob.glob(os.path.join(core.VERIF, "mutants", "*.patch"))):
        name = os.path.basename(m)[:-6]
        if name.startswith("neutral_"):
            bank.append(("mutants/" + name, m, "neutral"))
            continue
        for k, props_ in MUTANT_PROPS.items():
            if name.startswith(k) and pid in props_:
                bank.append(("mutants/" + name, m, "breaking"))
    out = []
    for (name, patch, kind) in bank:
        w = tempfile.mkdtemp(prefix="nbbank.", dir="/var/tmp")
        try:
            subprocess.run(["rsync", "-a", "--exclude", "target", "--exclude", ".git", core.REPO + "/", w + "/"], check=True)
            p = subprocess.run(["patch", "-p1", "-s", "-i", patch], cwd=w, stdout=subprocess.PIPE, stderr=subprocess.STDOUT)
            if p.returncode != 0:
                out.append({"mutant": name, "kind": kind, "applies": False})
                continue
            r2_, viol, _ = run_property(pid, "quick", 0, repo=w, write=False)
            rules = sorted({f.rule for f in viol})
            out.append({"mutant": name, "kind": kind, "applies": True, "reported_by": rules, "as_expected": bool(rules) == (kind == "breaking")})
        except Exception as e:
            out.append({"mutant": name, "kind": kind, "error": str(e)[:200]})
        finally:
            shutil.rmtree(w, ignore_errors=True)
    return out


def cmd_check(args):
    pid = None
    tier = os.environ.get("VERIF_TIER", "quick")
    repo = None
    i = 0
    while i < len(args):
        a = args[i]
        if a == "--tier":
            tier = args[i + 1]
            i += 2
        elif a == "--repo":
            repo = args[i + 1]
            i += 2
        else:
            pid = a
            i += 1
    if tier not in ("quick", "thorough"):
        tier = "quick"
    seed = int(os.environ.get("VERIF_SEED", "0") or 0)
    from . import props

    if pid not in props.PROPS:
        print("unknown property %s" % pid)
        return 2
    res, viol, known_hits = run_property(pid, tier, seed, repo, write=(repo is None))
    for k in known_hits:
        print("KNOWN-FINDING: property=%s %s %s" % (pid, k["key"], k["what"]))
    rdir = os.path.join(core.VERIF, "replay")
    for f in viol:
        os.makedirs(rdir, exist_ok=True)
        h = hashlib.sha256(f.fullkey().encode()).hexdigest()[:10]
        rp = os.path.join(rdir, "%s-%s-%s.json" % (pid, f.rule, h))
        with open(rp, "w") as fh:
            json.dump({"property": pid, "tier": tier, "finding": f.to_json(), "tree_sha": core.tree_sha(repo or core.REPO)}, fh, indent=1)
        print("VIOLATION property=%s replay=%s" % (pid, rp))
        print("  rule=%s instance=%s" % (f.rule, f.key))
        print("  at %s:%s" % (f.file, f.line))
        for ln in f.msg.splitlines():
            print("  " + ln)
    print(
        "%s [%s]: %d rule instances, %d hold, %d violations, %d known findings, %d notes (%.1fs)"
        % (pid, tier, res.obligations, res.discharged, len(viol), len(known_hits), len(res.notes), res.wall if hasattr(res, "wall") else 0.0)
    )
    return 1 if viol else 0


def cmd_explain(args):
    rp = args[0]
    with open(rp) as fh:
        r = json.load(fh)
    pid = r["property"]
    want = r["finding"]["key"]
    res, viol, known = run_property(pid, r.get("tier", "quick"), 0, write=False)
    hit = [f for f in res.findings if f.fullkey() == want]
    if hit:
        f = hit[0]
        print("REPRODUCED property=%s %s" % (pid, f.fullkey()))
        print("  at %s:%s" % (f.file, f.line))
        print("  " + f.msg.replace("\n", "\n  "))
        if f.detail:
            print(json.dumps(f.detail, indent=1))
        return 1
    print("not reproduced on the current tree: %s" % want)
    return 0


def cmd_facts(args):
    config = "all"
    sub = None
    i = 0
    while i < len(args):
        if args[i] == "--config":
            config = args[i + 1]
            i += 2
        elif args[i] == "--body":
            sub = args[i + 1]
            i += 2
        else:
            i += 1
    f = core.load(config)
    if sub is None:
        print("config %s: %d bodies" % (config, len(f.bodies)))
        for b in f.bodies:
            print(b.path)
        return 0
    for b in f.bodies:
        if sub in b.path:
            print(core.pretty(b))
            print()
    return 0


def main(argv):
    if not argv:
        print(__doc__)
        return 2
    cmd = argv[0]
    if cmd == "check":
        return cmd_check(argv[1:])
    if cmd == "explain":
        return cmd_explain(argv[1:])
    if cmd == "facts":
        return cmd_facts(argv[1:])
    if cmd == "selftest":
        from . import selftest

        return selftest.main(argv[1:])
    print("unknown command", cmd)
    return 2
