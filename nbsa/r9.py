"""R9 - read-set necessity.  If the specified answer of a function depends on a component of its input, every
correct implementation must (transitively) read it.  Reads are counted only in release-live code (debug assertions
do not count)."""
from . import core
from .core import Finding, callee, callee_fn, callee_name
from .r3 import release_live_blocks


def _place_reads(b, pl, flow, out):
    """record (param, field-name-path) for a place used in a read context"""
    fields = [e.get("name") for e in pl["proj"] if e["k"] == "field" and e.get("name")]
    roots = flow.roots_of_local(pl["local"])
    for r in roots:
        if r[0] == "param":
            path = tuple(x for x in r[2] if not x.startswith("#")) + tuple(fields)
            out.add((r[1], path))
        elif r[0] == "call":
            pass


def direct_reads(b):
    """set of (param index, field path) read in release-live, non-cleanup code; plus calls passing param-derived refs"""
    flow = core.Flow(b, transparent={"deref", "deref_mut", "borrow", "as_ref", "clone", "iter", "into_iter", "as_slice"})
    live = release_live_blocks(b) & b.live_blocks()
    reads = set()
    passes = []  # (callee path, arg index, param, fieldpath)
    for x in live:
        bl = b.blocks[x]
        if bl.get("cleanup"):
            continue
        for s in bl["stmts"]:
            if s["k"] != "assign":
                continue
            rv = s["rv"]
            for o in core.rv_operands(rv):
                pl = core.op_place(o)
                if pl:
                    _place_reads(b, pl, flow, reads)
            if rv["k"] in ("ref", "rawptr", "copyforderef", "discriminant"):
                _place_reads(b, rv["place"], flow, reads)
            # a store through a deeper projection also reads the base pointer, not the field: ignore
        t = bl.get("term")
        if not t:
            continue
        if t["k"] == "switch":
            pl = core.op_place(t["discr"])
            if pl:
                _place_reads(b, pl, flow, reads)
        if t["k"] == "call":
            fn = callee_fn(t)
            for ai, a in enumerate(t["args"]):
                pl = core.op_place(a)
                if not pl:
                    continue
                tmp = set()
                _place_reads(b, pl, flow, tmp)
                reads |= {r for r in tmp if r[1]}
                for (p, path) in tmp:
                    if fn and fn.get("local") and fn.get("path"):
                        passes.append((fn["path"], ai + 1, p, path))
                    elif not path:
                        # whole parameter handed to foreign code: unknown reads -> conservatively none
                        pass
    return reads, passes


def read_sets(facts):
    """fixpoint: body path -> set of (param, fieldpath) including callee reads mapped through arguments"""
    direct = {}
    for b in facts.bodies:
        direct[b.path] = direct_reads(b)
    rs = {p: set(d[0]) for p, d in direct.items()}
    # closures: what each captured variable refers to in the creating body: (parent, closure path, capture index) -> {(param, path)}
    captures = []
    for b in facts.bodies:
        flow = None
        live = None
        for x, si, s_ in b.stmts():
            rv = s_.get("rv")
            if rv and rv["k"] == "aggregate" and rv.get("akind") == "closure":
                if live is None:
                    live = release_live_blocks(b) & b.live_blocks()
                    flow = core.Flow(b, transparent={"deref", "deref_mut", "borrow", "as_ref", "clone", "iter", "into_iter", "as_slice"})
                if x not in live:
                    continue
                for k, o in enumerate(rv["ops"]):
                    pl = core.op_place(o)
                    if pl is None:
                        continue
                    tmp = set()
                    _place_reads(b, pl, flow, tmp)
                    for (pp, path) in tmp:
                        captures.append((b.path, rv["closure"], str(k), pp, path))
    changed = True
    it = 0
    while changed and it < 30:
        changed = False
        it += 1
        for (parent, clo, k, pp, path) in captures:
            cur = rs.get(parent)
            if cur is None:
                continue
            for (q, qpath) in list(rs.get(clo, ())):
                if q == 1 and qpath[:1] == (k,):
                    new = (pp, path + qpath[1:])
                    if new not in cur:
                        cur.add(new)
                        changed = True
        for p, (reads, passes) in direct.items():
            cur = rs[p]
            for (cp, cparam, param, path) in passes:
                for (q, qpath) in rs.get(cp, ()):
                    if q == cparam:
                        new = (param, path + qpath)
                        if new not in cur:
                            cur.add(new)
                            changed = True
    return rs


def _has(rs, param, field):
    return any(p == param and field in path for (p, path) in rs)


def _u32digits_is_cursor(facts):
    """with 64-bit digits U32Digits is a half-digit cursor (data, next_is_lo, last_hi_is_zero); with 32-bit digits it wraps the
    slice iterator (`it`) and the cursor rules do not apply"""
    a = facts.adts.get("biguint::iter::U32Digits")
    names = {f["name"] for v in (a or {}).get("variants", []) for f in v["fields"]}
    return "next_is_lo" in names or not names


def check_iterators(ctx, res, config="all"):
    facts = ctx.facts(config)
    rs = read_sets(facts)
    need = ("data", "next_is_lo", "last_hi_is_zero") if _u32digits_is_cursor(facts) else ("it",)
    methods = ("next", "next_back", "len", "last", "count", "size_hint")
    found = 0
    for b in facts.bodies:
        if b.kind != "AssocFn" or not b.self_ty or not b.self_ty.startswith("biguint::iter::U32Digits"):
            continue
        if b.name not in methods:
            continue
        found += 1
        missing = [f for f in need if not _has(rs[b.path], 1, f)]
        key = "biguint::iter::U32Digits::%s" % b.name
        if missing:
            res.fail(
                Finding(
                    "R9-readset",
                    key,
                    "U32Digits::%s never reads cursor field(s) %s (directly or through the methods it calls); two iterator states that differ only "
                    "in that field have different correct answers, so the result is wrong for one of them" % (b.name, ", ".join(missing)),
                    b,
                )
            )
        else:
            res.ok("R9-readset", key, {"reads": list(need)})
    if found < 6:
        res.fail(Finding("R9-anchor-lost", "U32Digits", "only %d of the 6 U32Digits cursor methods found" % found, file="src/biguint/iter.rs", line=0))
    # U64Digits on 64-bit digits delegates to slice::Iter: every method must pass self.it on
    n64 = 0
    for b in facts.bodies:
        if b.kind == "AssocFn" and b.self_ty and b.self_ty.startswith("biguint::iter::U64Digits") and b.name in ("next", "next_back", "len", "last", "count", "size_hint", "nth"):
            n64 += 1
            if _has(rs[b.path], 1, "it"):
                res.ok("R9-readset", "biguint::iter::U64Digits::%s" % b.name, {"reads": ["it"]}, nontrivial=False)
            else:
                res.fail(Finding("R9-readset", "biguint::iter::U64Digits::%s" % b.name, "U64Digits::%s does not consult the underlying slice iterator" % b.name, b))
    res.clause("R9: every U32Digits cursor method (next, next_back, len, last, count, size_hint) reads all three cursor fields; U64Digits methods delegate to the slice iterator")


def check_eq_ord_hash(ctx, res, config="all"):
    facts = ctx.facts(config)
    rs = read_sets(facts)
    rsets = {}
    for ty, fields in (("bigint::BigInt", ("sign", "data")), ("biguint::BigUint", ("data",))):
        for tr, nm, nparams in (("core::hash::Hash", "hash", 1), ("core::cmp::PartialEq", "eq", 2), ("core::cmp::Ord", "cmp", 2)):
            bs = facts.find(trait=tr, self_ty=ty, name=nm)
            key = "<%s as %s>::%s" % (ty, tr, nm)
            if len(bs) != 1:
                res.fail(Finding("R9-anchor-lost", key, "impl not found", file="src", line=0))
                continue
            b = bs[0]
            rsets[(ty, nm)] = rs[b.path]
            missing = []
            for p in range(1, nparams + 1):
                for f in fields:
                    if not _has(rs[b.path], p, f):
                        missing.append("operand %d: %s" % (p, f))
            if missing:
                res.fail(Finding("R9-readset", key, "%s does not read %s in release code; equal/unequal values that differ only there are misjudged" % (key, "; ".join(missing)), b))
            else:
                res.ok("R9-readset", key, {"reads": ["%s of each operand" % f for f in fields]})
        # Hash must be a function of what Eq compares: fields read by hash on operand 1 subset of fields read by eq on operand 1
        h = {path[0] for (p, path) in rsets.get((ty, "hash"), ()) if p == 1 and path}
        e = {path[0] for (p, path) in rsets.get((ty, "eq"), ()) if p == 1 and path}
        if h and e:
            if h <= e:
                res.ok("R9-hash-subset-eq", ty, {"hash_reads": sorted(h), "eq_reads": sorted(e)})
            else:
                res.fail(Finding("R9-hash-subset-eq", ty, "Hash reads %s which Eq does not compare: equal values may hash differently" % sorted(h - e), file="src", line=0))
    # cmp_slice reads both lengths and both contents
    bs = facts.find(suffix="biguint::cmp_slice")
    if bs:
        b = bs[0]
        lens = {}
        iters = {}
        flow = core.Flow(b)
        for i, t in b.calls():
            nm = callee_name(t)
            if nm in ("len", "iter", "cmp", "eq", "ne", "zip", "rev") and t["args"]:
                for r in flow.roots_of_operand(t["args"][0]):
                    if r[0] == "param":
                        (lens if nm == "len" else iters).setdefault(r[1], 0)
        # element reads by indexing (a[i]): place projections `(*p)[i]` and Index::index calls
        live_ = release_live_blocks(b) & b.live_blocks()
        for x, si, s_ in b.stmts():
            if x not in live_ or s_["k"] != "assign":
                continue
            pls = [core.op_place(o) for o in core.rv_operands(s_["rv"])] + ([s_["rv"]["place"]] if "place" in s_["rv"] else [])
            for pl in pls:
                if pl and any(e["k"] in ("index", "constant_index", "subslice") for e in pl["proj"]):
                    for r in flow.roots_of_local(pl["local"]):
                        if r[0] == "param":
                            iters.setdefault(r[1], 0)
        for i, t in b.calls():
            if callee_name(t) in ("index", "get", "get_unchecked") and t["args"] and i in live_:
                for r in flow.roots_of_operand(t["args"][0]):
                    if r[0] == "param":
                        iters.setdefault(r[1], 0)
        # content reads inside closures created here (`len_cmp.then_with(|| a.iter().rev().cmp(b.iter().rev()))`): map the
        # closure's captured variables back to this function's parameters
        for x, si, s_ in b.stmts():
            rv = s_.get("rv")
            if not (rv and rv["k"] == "aggregate" and rv.get("akind") == "closure") or x not in live_:
                continue
            cb = facts.body(rv["closure"])
            if cb is None:
                continue
            cap = {}
            for k_, o in enumerate(rv["ops"]):
                for r in flow.roots_of_operand(o):
                    if r[0] == "param":
                        cap[str(k_)] = r[1]
            cflow = core.Flow(cb)
            for i, t in cb.calls():
                if callee_name(t) in ("iter", "cmp", "eq", "ne", "zip", "rev", "index", "get") and t["args"]:
                    for r in cflow.roots_of_operand(t["args"][0]):
                        if r[0] == "param" and r[1] == 1 and r[2][:1] and r[2][0] in cap:
                            iters.setdefault(cap[r[2][0]], 0)
        # iteration may be via zip(a.iter().rev(), b.iter().rev()) - roots flow through 'iter' (transparent)
        ok = set(lens) >= {1, 2} and set(iters) >= {1, 2}
        if ok:
            res.ok("R9-readset", "biguint::cmp_slice", {"reads": ["len(a)", "len(b)", "a[..]", "b[..]"]})
        else:
            res.fail(Finding("R9-readset", "biguint::cmp_slice", "cmp_slice must read both lengths and both contents (lengths read for %s, contents for %s)" % (sorted(lens), sorted(iters)), b))
    else:
        res.fail(Finding("R9-anchor-lost", "cmp_slice", "biguint::cmp_slice not found", file="src/biguint.rs", line=0))
    res.clause("R9: Eq/Ord/Hash of BigInt read sign and data of every operand, of BigUint the data; Hash reads only what Eq compares; cmp_slice reads both lengths and contents (release code only)")


SIGN_READERS = [
    # (selector kwargs, description)
    ({"suffix": "bigint::BigInt::to_str_radix"}, "BigInt::to_str_radix"),
    ({"trait": "core::fmt::Display", "self_ty": "bigint::BigInt", "name": "fmt"}, "Display for BigInt"),
    ({"trait": "core::fmt::Binary", "self_ty": "bigint::BigInt", "name": "fmt"}, "Binary for BigInt"),
    ({"trait": "core::fmt::Octal", "self_ty": "bigint::BigInt", "name": "fmt"}, "Octal for BigInt"),
    ({"trait": "core::fmt::LowerHex", "self_ty": "bigint::BigInt", "name": "fmt"}, "LowerHex for BigInt"),
    ({"trait": "core::fmt::UpperHex", "self_ty": "bigint::BigInt", "name": "fmt"}, "UpperHex for BigInt"),
    ({"suffix": "bigint::BigInt::bit"}, "BigInt::bit"),
    ({"suffix": "bigint::BigInt::set_bit"}, "BigInt::set_bit"),
    ({"suffix": "bigint::shift::shr_round_down"}, "shr_round_down"),
    ({"suffix": "bigint::BigInt::to_signed_bytes_le"}, "to_signed_bytes_le"),
    ({"suffix": "bigint::BigInt::to_signed_bytes_be"}, "to_signed_bytes_be"),
    ({"suffix": "bigint::BigInt::to_bytes_le"}, "BigInt::to_bytes_le"),
    ({"suffix": "bigint::BigInt::to_bytes_be"}, "BigInt::to_bytes_be"),
]


def check_sign_readers(ctx, res, config="all"):
    facts = ctx.facts(config)
    rs = read_sets(facts)
    for sel, desc in SIGN_READERS:
        bs = facts.find(**sel)
        if len(bs) != 1:
            res.fail(Finding("R9-anchor-lost", desc, "%s not found (%d matches)" % (desc, len(bs)), file="src/bigint.rs", line=0))
            continue
        b = bs[0]
        need = ["sign", "data"]
        missing = [f for f in need if not _has(rs[b.path], 1, f)]
        if missing:
            res.fail(Finding("R9-readset", desc, "%s never reads `%s` of its receiver in release code, but its specified result depends on it" % (desc, "`, `".join(missing)), b))
        else:
            res.ok("R9-readset", desc, {"reads": need})
    res.clause("R9: sign-dependent exporters/queries of BigInt (to_str_radix, 5 formatters, bit, set_bit, shr_round_down, byte exporters) read both sign and magnitude")


def _field_writes(b):
    """fields of the receiver (param 1) assigned in release-live code"""
    out = set()
    live = release_live_blocks(b) & b.live_blocks()
    fl = core.Flow(b)
    for x in live:
        for s in b.blocks[x]["stmts"]:
            if s["k"] != "assign":
                continue
            pl = s["place"]
            fs = [e.get("name") for e in pl["proj"] if e["k"] == "field" and e.get("name")]
            if not fs:
                continue
            if any(r[0] == "param" and r[1] == 1 for r in fl.roots_of_local(pl["local"])):
                out.add(fs[0])
    return out


def check_iterator_write_sets(ctx, res, config="all"):
    """U32Digits (64-bit digits): `next` and `next_back` each update all three cursor fields - when the two ends meet inside one
    native digit the *other* end's flag has to be reset, otherwise len() is computed from an inconsistent state"""
    facts = ctx.facts(config)
    need = {"data", "next_is_lo", "last_hi_is_zero"}
    if not _u32digits_is_cursor(facts):
        res.ok("R9-writeset", "biguint::iter::U32Digits", {"not applicable": "32-bit digits: U32Digits wraps the slice iterator"}, nontrivial=False)
        res.clause("R9: U32Digits write sets (not applicable with 32-bit digits)")
        return
    n = 0
    for b in facts.bodies:
        if b.kind == "AssocFn" and b.self_ty and b.self_ty.startswith("biguint::iter::U32Digits") and b.name in ("next", "next_back"):
            n += 1
            w = _field_writes(b)
            key = "biguint::iter::U32Digits::%s" % b.name
            if need <= w:
                res.ok("R9-writeset", key, {"writes": sorted(need)})
            else:
                res.fail(Finding("R9-writeset", key, "U32Digits::%s never updates cursor field(s) %s: after the two ends meet inside one digit the iterator state is inconsistent (len() underflows / a digit is yielded twice)" % (b.name, sorted(need - w)), b))
    if n < 2:
        res.fail(Finding("R9-anchor-lost", "U32Digits-writers", "next/next_back of U32Digits not found", file="src/biguint/iter.rs", line=0))
    res.clause("R9: U32Digits::next and ::next_back both update data, next_is_lo and last_hi_is_zero")


# ------------------------------------------------------------------------------------------
# R9-float: every digit reaches the float conversion


def _fwd_taint(b, seeds):
    """locals computed (flow-insensitively) from the seed locals"""
    tainted = set(seeds)
    changed = True
    while changed:
        changed = False
        for j, sj, s2 in b.stmts():
            if s2["k"] != "assign" or s2["place"]["local"] in tainted:
                continue
            used = [(core.op_place(o) or {}).get("local") for o in core.rv_operands(s2["rv"])]
            if isinstance(s2["rv"].get("place"), dict):
                used.append(s2["rv"]["place"].get("local"))
            if any(l in tainted for l in used):
                tainted.add(s2["place"]["local"])
                changed = True
        for j, t2 in b.calls():
            d = t2.get("dest")
            if d is None or d["local"] in tainted:
                continue
            if any((core.op_place(a) or {}).get("local") in tainted for a in t2["args"]):
                tainted.add(d["local"])
                changed = True
    return tainted


def check_float_reads_every_digit(ctx, res, config="all"):
    """to_f64/to_f32 are correctly rounded only if every digit below the 64 gathered bits can still set the sticky (round-to-odd)
    bit.  In the digit loop of the conversion (helpers inlined) an exit before the iterator is exhausted is sound only when it
    is decided by what was read (e.g. "the sticky bit is already set"); an exit decided by position alone ("64 bits gathered")
    makes the unread digits irrelevant - two values that differ only there convert alike, one of them wrongly."""
    from .tests import tests_of, fate

    facts = ctx.facts(config)
    n_loops = 0
    found_fn = 0
    for b0 in facts.bodies:
        if b0.name not in ("to_f64", "to_f32") or "BigUint" not in (b0.self_ty or "") or b0.kind == "closure":
            continue
        found_fn += 1
        n_here = 0
        b = core.inline_private(facts, b0, depth=3, max_blocks=200)
        live = b.live_blocks()
        tl, atoms = tests_of(b)
        for hi, ht in b.calls():
            if hi not in live or core.callee_name(ht) not in ("next", "next_back"):
                continue
            rty = str((core.callee_fn(ht) or {}).get("args"))
            if "Iter" not in rty or not any(w in rty for w in ("u64", "u32", "BigDigit")):
                continue
            # the loop of this header
            fwd = b.reachable(hi)
            loop = {x for x in fwd if hi in b.reachable(x)} if hi in {s for x in fwd for s in b.succ(x)} else set()
            if not loop:
                continue
            n_loops += 1
            n_here += 1
            item = ht["dest"]["local"]
            tainted = _fwd_taint(b, {item})
            key = "%s|digit-loop#%d" % (b0.path, n_here - 1)
            bad = None
            for x in sorted(loop):
                t = b.blocks[x]["term"]
                if t["k"] != "switch":
                    continue
                for s in b.succ(x):
                    if s in loop or hi in b.reachable(s):
                        continue
                    if fate(b, s) == "panic":
                        continue
                    dl = (core.op_place(t["discr"]) or {}).get("local")
                    # the exhaustion exit: the switch on the discriminant of the iterator's own answer
                    ds = b.defs().get(dl, []) if dl is not None else []
                    if len(ds) == 1 and ds[0][0] == "assign" and ds[0][3]["rv"]["k"] == "discriminant" and ds[0][3]["rv"]["place"]["local"] == item:
                        continue
                    if dl in tainted:
                        res.note("R9-float-readset: %s: the digit loop can stop early on a condition computed from the digits read so far (line %s) - accepted, not verified" % (key, t["span"]["line"]))
                        continue
                    bad = t
            if bad is not None:
                res.fail(Finding("R9-float-readset", key, "the digit loop of the float conversion can stop before the last digit on a condition that looks at no digit (line %s): the unread low digits can no longer set the round-to-odd bit, so values that differ only there convert to the same float - ties and near-ties round wrongly" % bad["span"]["line"], b0, bad["span"]["line"]))
            else:
                res.ok("R9-float-readset", key, {"loop_blocks": len(loop)})
    if config == "all" and found_fn < 1:
        res.fail(Finding("R9-anchor-lost", "to_f64", "no BigUint::to_f64/to_f32 found", file="src/biguint/convert.rs", line=0))
    elif n_loops == 0:
        res.note("R9-float-readset: no digit loop found in to_f64/to_f32 (helpers inlined) - the read set of the conversion is not decided")
    res.count("float conversion digit loops", n_loops)
    res.clause("R9-float: the digit loop of to_f64/to_f32 leaves before exhaustion only on a condition computed from the digits read (every digit can reach the sticky bit)")


def _croot(b, l, depth=0):
    """copy root of a local: through plain moves and `.0` of an overflow-checked operation's own result"""
    for _ in range(20):
        ds = b.defs().get(l, [])
        if len(ds) != 1 or ds[0][0] != "assign":
            return l
        rv = ds[0][3]["rv"]
        if rv["k"] == "use" and rv["op"]["k"] != "const":
            pl = rv["op"]["place"]
            if not pl["proj"]:
                l = pl["local"]
                continue
            if len(pl["proj"]) == 1 and pl["proj"][0]["k"] == "field" and pl["proj"][0]["idx"] == 0:
                d2 = b.defs().get(pl["local"], [])
                if len(d2) == 1 and d2[0][0] == "assign" and d2[0][3]["rv"]["k"] == "binop" and d2[0][3]["rv"]["op"].endswith("WithOverflow"):
                    return ("ovf", pl["local"])
        return l
    return l


def _binop_of(b, l):
    """the binop that computes local l (through copies and the `.0` of checked arithmetic), or None"""
    r = _croot(b, l)
    if isinstance(r, tuple):
        return b.defs()[r[1]][0][3]["rv"]
    ds = b.defs().get(r, [])
    if len(ds) == 1 and ds[0][0] == "assign" and ds[0][3]["rv"]["k"] == "binop":
        return ds[0][3]["rv"]
    return None


def check_float_position_tracking(ctx, res, config="all"):
    """The float conversion walks the digits from the top with a position `bits`; the number of significant bits of the current
    digit is `(bits - 1) % BITS + 1`, which is BITS for every digit but the first *only if* the position is moved on by exactly
    that number after each digit.  Moved on by anything else (the number of bits that still fitted into the 64-bit window),
    the following digits are taken for partial digits and only their low bits reach the round-to-odd test."""
    facts = ctx.facts(config)
    n = 0
    for b0 in facts.bodies:
        if b0.name not in ("to_f64", "to_f32") or "BigUint" not in (b0.self_ty or "") or b0.kind == "closure":
            continue
        b = core.inline_private(facts, b0, depth=3, max_blocks=200)
        live = b.live_blocks()
        # position variables: one definition from bits(), one `pos = pos - X`
        for l in range(len(b.locals)):
            ds = [d for d in b.defs().get(l, []) if d[1] in live]
            if len(ds) != 2:
                continue
            init = [d for d in ds if d[0] == "call" and core.callee_name(d[2]) == "bits"]
            upd = [d for d in ds if d[0] == "assign"]
            if len(init) != 1 or len(upd) != 1:
                continue
            rv = upd[0][3]["rv"]
            if rv["k"] != "use" or rv["op"]["k"] == "const":
                continue
            ul = rv["op"]["place"]["local"]
            sub = _binop_of(b, ul) if not rv["op"]["place"]["proj"] else (b.defs()[ul][0][3]["rv"] if len(b.defs().get(ul, [])) == 1 and b.defs()[ul][0][0] == "assign" else None)
            if not sub or sub.get("k") != "binop" or not sub["op"].startswith("Sub"):
                continue
            if core.op_local(sub["a"]) is None or _croot(b, core.op_local(sub["a"])) != l and core.op_local(sub["a"]) != l:
                continue
            step = core.op_local(sub["b"])
            if step is None:
                continue
            # the digit width read from the position: ((pos - 1) % BITS) + 1   (or  & (BITS - 1))
            widths = set()
            for i, si, st in b.stmts():
                if i not in live or st["k"] != "assign":
                    continue
                r2 = st["rv"]
                if r2["k"] == "binop" and r2["op"].startswith("Add") and core.op_const(r2["b"]) == 1 and core.op_local(r2["a"]) is not None:
                    m = _binop_of(b, core.op_local(r2["a"]))
                    if m and m["op"] in ("Rem", "BitAnd") and core.op_local(m["a"]) is not None:
                        s1 = _binop_of(b, core.op_local(m["a"]))
                        if s1 and s1["op"].startswith("Sub") and core.op_const(s1["b"]) == 1 and core.op_local(s1["a"]) is not None and (core.op_local(s1["a"]) == l or _croot(b, core.op_local(s1["a"])) == l):
                            widths.add(st["place"]["local"])
            if not widths:
                continue
            n += 1
            key = "%s|position" % b0.path
            wroots = set()
            for w in widths:
                wroots.add(w)
                wroots.add(_croot(b, w) if not isinstance(_croot(b, w), tuple) else w)
                # `.0` consumers: locals copied from the tuple
                for i2, si2, s2 in b.stmts():
                    if s2["k"] == "assign" and s2["rv"]["k"] == "use" and s2["rv"]["op"]["k"] != "const":
                        p2 = s2["rv"]["op"]["place"]
                        if p2["local"] == w and p2["proj"]:
                            wroots.add(s2["place"]["local"])
            def _norm(x):
                r_ = _croot(b, x)
                return r_[1] if isinstance(r_, tuple) else r_

            sroot = _norm(step)
            ok = step in wroots or sroot in wroots or any(_norm(w_) == sroot for w_ in wroots)
            if ok:
                res.ok("R9-float-position", key, {"step": "the digit's own width"})
            else:
                res.fail(Finding("R9-float-position", key, "the digit position of the float conversion is moved on by something other than the width it just computed for the digit (line %s): after the 64-bit window fills in the middle of a digit, later digits count as partial digits and only their low bits can set the round-to-odd bit - values of three or more digits round a more-than-half case as a tie" % upd[0][3]["span"]["line"], b0, upd[0][3]["span"]["line"]))
    if n == 0:
        res.note("R9-float-position: no position variable of the shape `bits -= step` with `(bits - 1) % BITS + 1` found in to_f64/to_f32 - not decided")
    res.count("float conversion position variables", n)
    res.clause("R9-float: the digit position of to_f64/to_f32 advances by the width computed for the digit (so every later digit is a full digit for the sticky test)")


# ------------------------------------------------------------------------------------------
# carry chains: a digit loop that threads running carries may stop early only when every one of them has been looked at


_INT_TYS = ("u8", "u16", "u32", "u64", "u128", "usize", "i8", "i16", "i32", "i64", "i128", "isize")


def _ref_root(b, l, depth=0):
    """the scalar local a `&mut` temporary points to (through reborrows), or None"""
    if depth > 6:
        return None
    ds = b.defs().get(l, [])
    if len(ds) != 1 or ds[0][0] != "assign":
        return None
    rv = ds[0][3]["rv"]
    if rv["k"] == "ref":
        pl = rv["place"]
        if not pl["proj"]:
            return pl["local"]
        if len(pl["proj"]) == 1 and pl["proj"][0]["k"] == "deref":
            return _ref_root(b, pl["local"], depth + 1)
        return None
    if rv["k"] == "use":
        p = core.op_place(rv["op"]) if "op" in rv else None
        if p is not None and not p["proj"]:
            return _ref_root(b, p["local"], depth + 1)
    return None


def _natural_loop(b, h):
    """blocks of the natural loop(s) with header h: h plus everything that reaches a back edge into h without passing h"""
    fwd = b.reachable(h)
    tails = [p for p in b.pred(h) if p in fwd and b.block_dominates(h, p)]
    if not tails:
        return set()
    loop = {h}
    stack = list(tails)
    while stack:
        x = stack.pop()
        if x in loop:
            continue
        loop.add(x)
        stack.extend(p for p in b.pred(x) if p in fwd)
    return loop


def _threaded_calls(b):
    """(block, carry local) for every call of a crate-local function that gets `&mut <integer local>`"""
    out = []
    live = b.live_blocks()
    for i, t in b.calls():
        if i not in live:
            continue
        fn = core.callee_fn(t) or {}
        if not fn.get("local"):
            continue
        for a in t["args"]:
            p = core.op_place(a)
            if p is None or p["proj"]:
                continue
            ty = p.get("ty") or ""
            if not (ty.startswith("&mut ") and ty[5:] in _INT_TYS):
                continue
            root = _ref_root(b, p["local"])
            if root is not None and (b.locals[root]["ty"] in _INT_TYS):
                out.append((i, root))
        # the by-value form: `carry = adc(carry, ..)`
        d = t.get("dest")
        if d is not None and not d["proj"] and b.locals[d["local"]]["ty"] in _INT_TYS and not b.locals[d["local"]].get("name"):
            # the result temporary is moved into the named accumulator
            for j, sj, s2 in b.stmts():
                if s2["k"] == "assign" and not s2["place"]["proj"] and s2["rv"]["k"] == "use":
                    q = core.op_place(s2["rv"].get("op")) if s2["rv"].get("op") is not None else None
                    if q is not None and not q["proj"] and q["local"] == d["local"]:
                        d = s2["place"]
                        break
        if d is not None and not d["proj"] and b.locals[d["local"]]["ty"] in _INT_TYS and b.locals[d["local"]].get("name"):
            for a in t["args"]:
                p = core.op_place(a)
                if p is None or p["proj"]:
                    continue
                src = p["local"]
                ds = b.defs().get(src, [])
                if src != d["local"] and len(ds) == 1 and ds[0][0] == "assign" and ds[0][3]["rv"]["k"] == "use":
                    q = core.op_place(ds[0][3]["rv"].get("op")) if ds[0][3]["rv"].get("op") is not None else None
                    if q is not None and not q["proj"]:
                        src = q["local"]
                if src == d["local"]:
                    out.append((i, d["local"]))
    return out


def check_carry_exits(ctx, res, config="all"):
    """A loop over digits that threads running carries/borrows (integer locals handed as `&mut` to adc/sbb/negate_carry/
    mac_with_carry-like helpers) computes the rest of the result from those carries.  Leaving it before the digits are
    exhausted is exact only when every threaded carry has settled; an exit that looks at some of them and not at another one -
    which nothing after the loop keeps propagating - drops that carry for the digits not visited."""
    from .tests import fate

    facts = ctx.facts(config)
    n_loops = 0
    n_early = 0
    for b in facts.bodies:
        if not b.blocks:
            continue
        thr = _threaded_calls(b)
        if not thr:
            continue
        live = b.live_blocks()
        k_here = 0
        loops = []
        for hi, ht in b.calls():
            if hi not in live or core.callee_name(ht) not in ("next", "next_back"):
                continue
            loop = _natural_loop(b, hi)
            if loop:
                loops.append((hi, ht, loop))
        for hi, ht, loop in loops:
            # a carry belongs to the innermost loop its helper call sits in (an outer loop re-initialises it per round)
            carries = sorted({c for (i, c) in thr if i in loop and not any(i in l2 and len(l2) < len(loop) for (_, _, l2) in loops)})
            if not carries:
                continue
            n_loops += 1
            k_here += 1
            item = ht["dest"]["local"]
            taint = {c: _fwd_taint(b, {c}) for c in carries}
            key = "%s|carry-loop#%d" % (b.path, k_here - 1)
            bad = None
            for x in sorted(loop):
                t = b.blocks[x]["term"]
                if t["k"] != "switch":
                    continue
                for s in b.succ(x):
                    if s in loop:
                        continue
                    if fate(b, s) == "panic":
                        continue
                    dl = (core.op_place(t["discr"]) or {}).get("local")
                    ds = b.defs().get(dl, []) if dl is not None else []
                    if len(ds) == 1 and ds[0][0] == "assign" and ds[0][3]["rv"]["k"] == "discriminant" and ds[0][3]["rv"]["place"]["local"] == item:
                        continue  # the iterator is exhausted
                    n_early += 1
                    # the tests this exit is decided by: the switches of the loop that every path header -> x passes
                    deciders = [x]
                    for y in sorted(loop):
                        if y != x and b.blocks[y]["term"]["k"] == "switch" and x not in b.reachable(hi, without_blocks=(y,)):
                            deciders.append(y)
                    dlocals = {(core.op_place(b.blocks[y]["term"]["discr"]) or {}).get("local") for y in deciders}
                    after = b.reachable(s)
                    for c in carries:
                        if dlocals & taint[c]:
                            continue
                        if any(i in after and i not in loop and c2 == c for (i, c2) in thr):
                            continue  # a later loop goes on propagating this carry
                        bad = (t, c)
            if bad is not None:
                t, c = bad
                nm = b.locals[c].get("name") or "_%d" % c
                res.fail(Finding("R9-carry-exit", key, "the digit loop can stop before the last digit (line %s) on a condition that does not look at the running carry `%s`, and nothing after the loop keeps propagating it: when that carry is still pending, the digits not visited miss it" % (t["span"]["line"], nm), b, t["span"]["line"]))
            else:
                res.ok("R9-carry-exit", key, {"loop_blocks": len(loop), "carries": [b.locals[c].get("name") or "_%d" % c for c in carries]})
    res.count("digit loops threading carries", n_loops)
    res.count("early exits of carry loops", n_early)
    if config == "all" and n_loops < 12:
        res.fail(Finding("R9-anchor-lost", "carry-loops", "only %d digit loops threading a carry found (12 counted on the reviewed tree)" % n_loops, file="src/biguint/addition.rs", line=0))
    res.clause("R9-carry: a digit loop threading running carries (adc/sbb/mac_with_carry/negate_carry through `&mut`) leaves before exhaustion only on a condition computed from every such carry that no later loop keeps propagating")


# ------------------------------------------------------------------------------------------
# cursor iterators: an exhaustion test must be able to come out either way


def _field_place_key(pl):
    """identity of a place like (*self).data: (local, ((kind, idx), ..)) - None for anything with an index in it"""
    if pl is None or not pl["proj"]:
        return None
    ks = []
    for e in pl["proj"]:
        if e["k"] not in ("deref", "field"):
            return None
        ks.append((e["k"], e.get("idx")))
    return (pl["local"], tuple(ks))


def _arg_field_place(b, op):
    """the self-field a call argument was copied from (`x(copy (*self).data)`), else None"""
    p = core.op_place(op)
    if p is None:
        return None
    if p["proj"]:
        return _field_place_key(p)
    ds = b.defs().get(p["local"], [])
    if len(ds) == 1 and ds[0][0] == "assign" and ds[0][3]["rv"]["k"] in ("use", "ref"):
        src = ds[0][3]["rv"].get("op") or {"k": "copy", "place": ds[0][3]["rv"].get("place")}
        if src.get("k") == "const":
            return None
        q = src["place"]
        if q["proj"]:
            if [e["k"] for e in q["proj"]] == ["deref"] and not b.is_param(q["local"]):
                # `&*tmp` with tmp = copy of the field (a reborrow of the slice reference)
                inner = _arg_field_place(b, {"k": "copy", "place": {"local": q["local"], "proj": []}})
                if inner is not None:
                    return inner
            return _field_place_key(q)
        return _arg_field_place(b, src)
    return None


def check_exhaustion_tests_live(ctx, res, config="all"):
    """Inside `if let Some(..) = self.data.split_last()` (or first/last/split_first) the slice field is known to be non-empty.
    An `is_empty()` of that same field there, with no store to the field in between, is constantly false: the branch it
    guards - in a cursor iterator, the one that reports exhaustion - can never be taken.  The test has to look at the
    remainder that split_* handed out (or at the field after it was updated)."""
    facts = ctx.facts(config)
    n_tests = 0
    n_bodies = 0
    for b in facts.bodies:
        if not b.blocks or "biguint::iter" not in b.path:
            continue
        n_bodies += 1
        live = b.live_blocks()
        splits = []
        for i, t in b.calls():
            if i in live and core.callee_name(t) in ("split_last", "split_first", "first", "last") and t["args"]:
                pk = _arg_field_place(b, t["args"][0])
                if pk is None or t.get("target") is None:
                    continue
                # the switch on the discriminant of the result, and its Some target
                tb = t["target"]
                tt = b.blocks[tb]["term"]
                if tt["k"] != "switch":
                    continue
                dl = (core.op_place(tt["discr"]) or {}).get("local")
                ds = b.defs().get(dl, []) if dl is not None else []
                if not (len(ds) == 1 and ds[0][0] == "assign" and ds[0][3]["rv"]["k"] == "discriminant" and ds[0][3]["rv"]["place"]["local"] == t["dest"]["local"]):
                    continue
                some = [tg for (v, tg) in (tt.get("targets") or []) if v == 1]
                if len(some) == 1:
                    splits.append((pk, tb, some[0]))
        for i, t in b.calls():
            if i not in live or core.callee_name(t) != "is_empty" or not t["args"]:
                continue
            pk = _arg_field_place(b, t["args"][0])
            if pk is None:
                continue
            n_tests += 1
            key = "%s|is_empty@%s" % (b.path, ".".join("*" if k_ == "deref" else "f%s" % ix_ for (k_, ix_) in pk[1]))
            bad = None
            for (pk1, sw, some) in splits:
                if pk1 != pk or not b.edge_dominates((sw, some), i):
                    continue
                between = b.reachable(some) & {x for x in live if i in b.reachable(x)}
                wrote = False
                for x in between:
                    stmts = b.blocks[x]["stmts"]
                    for s in stmts:
                        if s["k"] == "assign" and _field_place_key(s["place"]) == pk:
                            wrote = True
                    tx = b.blocks[x]["term"]
                    if tx["k"] == "call" and x != i:
                        for a in tx["args"]:
                            p = core.op_place(a)
                            if p is not None and (b.local_ty(p["local"]) or "").startswith("&mut"):
                                wrote = True  # the cursor itself is handed to something that may advance it
                if not wrote:
                    bad = t
            if bad is not None:
                res.fail(Finding("R9-exhaustion-test", key, "`is_empty()` of a slice field inside the `Some` arm of split_*/first/last of that same field, which nothing has stored to since (line %s): the test is constantly false, so the branch it guards - the cursor's exhaustion answer - is never taken" % bad["span"]["line"], b, bad["span"]["line"]))
            else:
                res.ok("R9-exhaustion-test", key, {})
    res.count("iterator bodies scanned for constant exhaustion tests", n_bodies)
    res.count("is_empty tests of a cursor field", n_tests)
    if config == "all" and n_bodies < 6:
        res.fail(Finding("R9-anchor-lost", "biguint::iter", "only %d bodies found in biguint::iter" % n_bodies, file="src/biguint/iter.rs", line=0))
    res.clause("R9-exhaustion: no cursor method tests a slice field for emptiness where a dominating split_*/first/last of that unmodified field has already answered Some (such a test is constantly false)")
