"""R5 driver: targets, abstract inputs, oracles (written from the mathematical definitions), comparison."""
import itertools

from . import core, r2, tests
from .core import Finding
from .poly import Poly
from .r5 import (
    BIGINT, BOOL, ENUM, INT, MAG, ORD, PTR, SIGN, SIGNED, STRUCT, TUPLE, UNIT, UNSIGNED, Interp, State, Unsupported, PathLimit,
    bigint_value, strip_refs, map_value,
)
from .r5models import is_bigint, int_value

SYMS = ["A", "B", "C", "D"]


class NeedCase(Exception):
    def __init__(self, poly):
        Exception.__init__(self, "case")
        self.poly = poly


class Mismatch(Exception):
    pass


def build_inputs(body):
    """yields (label, args builder) : list of per-parameter alternatives"""
    alts = []
    for i in range(1, body.arg_count + 1):
        ty = body.local_ty(i)
        base = strip_refs(ty)
        isref = ty.startswith("&")
        sym = SYMS[i - 1] if i - 1 < len(SYMS) else "P%d" % i
        if base == "bigint::BigInt":
            alts.append([("big", s, sym, isref) for s in (-1, 0, 1)])
        elif base == "biguint::BigUint":
            alts.append([("mag", None, sym, isref)])
        elif base in UNSIGNED:
            alts.append([("uint", base, "U" + sym, isref)])
        elif base in SIGNED:
            alts.append([("sint", base, "I" + sym, isref)])
        elif base == "bigint::Sign":
            alts.append([("sign", s, None, isref) for s in (-1, 0, 1)])
        elif base == "bool":
            alts.append([("bool", bv, None, isref) for bv in (False, True)])
        elif base in ("alloc::vec::Vec<u32>", "[u32]", "[u8]", "alloc::vec::Vec<u8>"):
            alts.append([("digits", base, sym, isref)])
        elif base in ("R", "Self") or (len(base) == 1 and base.isupper() and ty.startswith("&mut")):
            alts.append([("opaque", base, sym, isref)])
        elif (base in ("T", "U") and len(base) == 1) or base.startswith("impl ") and ("Integer" in base or "PrimInt" in base or "Unsigned" in base):
            # generic numeric parameter (e.g. powsign's exponent): an unsigned magnitude
            alts.append([("uint", "u64", "U" + sym, isref)])
        else:
            raise Unsupported("parameter %d of type %s" % (i, ty))
    return itertools.product(*alts)


def make_state(body, combo):
    st = State()
    args = []
    desc = []
    for i, (kind, x, sym, isref) in enumerate(combo):
        if kind == "big":
            v = BIGINT(SIGN(x), Poly.sym(sym) if x != 0 else Poly())
            if x != 0:
                st.nz.add(sym)
            desc.append("%s:%s" % (sym, {-1: "-", 0: "0", 1: "+"}[x]))
        elif kind == "mag":
            v = MAG(Poly.sym(sym))
            desc.append("%s:mag" % sym)
        elif kind == "uint":
            v = INT(Poly.sym(sym), x)
            desc.append("%s:%s" % (sym, x))
        elif kind == "sint":
            v = INT(Poly.sym(sym), x)
            desc.append("%s:%s" % (sym, x))
        elif kind == "digits":
            v = ("digits", sym)
            desc.append("%s:digits" % sym)
        elif kind == "opaque":
            v = ("opaque", "param " + sym)
            desc.append("%s:opaque" % sym)
        elif kind == "sign":
            v = SIGN(x)
            desc.append("sign:%d" % x)
        elif kind == "bool":
            v = BOOL(x)
            desc.append("bool:%s" % x)
        cell = "arg%d" % (i + 1)
        st.env[cell] = v
        args.append(PTR(cell) if isref else v)
    return st, args, ",".join(desc)


def numeric(it, st, v):
    """integer value polynomial of an abstract value"""
    v = it.deref_all(st, v)
    if v[0] in ("mag", "int"):
        return v[1]
    if is_bigint(v):
        return int_value(v)
    raise Mismatch("result of kind %s is not numeric" % v[0])


def sign_mag(st, p):
    """(sign, magnitude poly) of an input value polynomial whose sign is determined by its coefficients"""
    if p.is_zero():
        return 0, Poly()
    if all(c > 0 for c in p.t.values()):
        return 1, p
    if all(c < 0 for c in p.t.values()):
        return -1, -p
    raise Mismatch("cannot determine the sign of %r" % (p,))


def find_div(st, x, y):
    for (x0, y0, q, r) in st.divs:
        if x0 == x and y0 == y:
            return Poly.sym(q).subst(st.subst), Poly.sym(r).subst(st.subst)
    if x.is_zero():
        return Poly(), Poly()
    return None


def rzero(st, r):
    """is remainder polynomial zero on this path? forks the comparison if undetermined"""
    kz = st.known_zero(r)
    if kz is None:
        raise NeedCase(r)
    return kz


class Ctx5:
    """what an oracle sees: initial argument values (final substitution applied) and the final state"""

    def __init__(self, it, st, body, combo):
        self.it, self.st, self.body, self.combo = it, st, body, combo

    def val(self, i):
        v = self.st.env["arg%d" % i]
        return numeric(self.it, self.st, v)

    def init_val(self, i):
        """value polynomial of argument i as it was on entry (with the path's substitutions)"""
        kind, x, sym, isref = self.combo[i - 1]
        m = self.st.subst
        if kind == "big":
            return (Poly.sym(sym) * x).subst(m) if x != 0 else Poly()
        if kind in ("mag", "uint", "sint"):
            return Poly.sym(sym).subst(m)
        if kind == "digits":
            return Poly.sym("M" + sym).subst(m)
        raise Mismatch("argument %d is not numeric" % i)

    def sm(self, i):
        kind, x, sym, isref = self.combo[i - 1]
        if kind == "big":
            return x, (Poly.sym(sym).subst(self.st.subst) if x != 0 else Poly())
        return sign_mag(self.st, self.init_val(i))

    def div(self, i, j):
        sa, A = self.sm(i)
        sb, B = self.sm(j)
        kz = self.st.known_zero(B)
        if kz is None:
            raise NeedCase(B)
        if kz:
            return "panic"
        d = find_div(self.st, A, B)
        if d is None:
            # the code never divided |a| by |b| on this path: only legitimate when the quotient is known otherwise
            raise Mismatch("no division of |arg%d| by |arg%d| on this path" % (i, j))
        return sa, A, sb, B, d[0], d[1]


# --- oracles (Appendix B of DESIGN.md) -----------------------------------------------------


def o_add(c):
    return c.init_val(1) + c.init_val(2)


def o_sub(c):
    return c.init_val(1) - c.init_val(2)


def o_mul(c):
    return c.init_val(1) * c.init_val(2)


def o_div(c):
    d = c.div(1, 2)
    if d == "panic":
        return "panic"
    sa, A, sb, B, Q, R = d
    return Q * (sa * sb)


def o_rem(c):
    d = c.div(1, 2)
    if d == "panic":
        return "panic"
    sa, A, sb, B, Q, R = d
    return R * sa


def o_div_rem(c):
    d = c.div(1, 2)
    if d == "panic":
        return "panic"
    sa, A, sb, B, Q, R = d
    return (Q * (sa * sb), R * sa)


def _floor(c):
    d = c.div(1, 2)
    if d == "panic":
        return "panic"
    sa, A, sb, B, Q, R = d
    if sa * sb >= 0:
        return (Q, R * sb)
    z = rzero(c.st, R)
    if z:
        return (-Q, Poly())
    return (-Q - 1, (B - R) * sb)


def o_div_floor(c):
    r = _floor(c)
    return r if r == "panic" else r[0]


def o_mod_floor(c):
    r = _floor(c)
    return r if r == "panic" else r[1]


def o_div_mod_floor(c):
    return _floor(c)


def o_div_ceil(c):
    d = c.div(1, 2)
    if d == "panic":
        return "panic"
    sa, A, sb, B, Q, R = d
    if sa * sb > 0:
        return Q if rzero(c.st, R) else Q + 1
    return -Q


def _euclid(c):
    d = c.div(1, 2)
    if d == "panic":
        return "panic"
    sa, A, sb, B, Q, R = d
    if sa >= 0:
        return (Q * sb, R)
    if rzero(c.st, R):
        return (-Q * sb, Poly())
    return (-(Q + 1) * sb, B - R)


def o_div_euclid(c):
    r = _euclid(c)
    return r if r == "panic" else r[0]


def o_rem_euclid(c):
    r = _euclid(c)
    return r if r == "panic" else r[1]


def o_div_rem_euclid(c):
    return _euclid(c)


def checked(o):
    def f(c):
        r = o(c)
        return ("none",) if r == "panic" else ("some", r)

    return f


def o_neg(c):
    return -c.init_val(1)


def o_not(c):
    return -c.init_val(1) - 1


def o_abs(c):
    s, A = c.sm(1)
    return A


def o_signum(c):
    s, A = c.sm(1)
    return Poly.const(s)


def o_is_positive(c):
    return ("bool", c.sm(1)[0] > 0)


def o_is_negative(c):
    return ("bool", c.sm(1)[0] < 0)


def o_inc(c):
    return c.init_val(1) + 1


def o_dec(c):
    return c.init_val(1) - 1


# (family, method names) -> oracle
OP_ORACLES = {
    "core::ops::Add": o_add, "core::ops::AddAssign": o_add, "num_traits::CheckedAdd": None,
    "core::ops::Sub": o_sub, "core::ops::SubAssign": o_sub,
    "core::ops::Mul": o_mul, "core::ops::MulAssign": o_mul,
    "core::ops::Div": o_div, "core::ops::DivAssign": o_div,
    "core::ops::Rem": o_rem, "core::ops::RemAssign": o_rem,
}
INTEGER_ORACLES = {
    "div_rem": o_div_rem, "div_floor": o_div_floor, "mod_floor": o_mod_floor, "div_mod_floor": o_div_mod_floor, "div_ceil": o_div_ceil,
}
EUCLID_ORACLES = {"div_euclid": o_div_euclid, "rem_euclid": o_rem_euclid, "div_rem_euclid": o_div_rem_euclid}


def compare(it, st, got, exp):
    """raises Mismatch / NeedCase; got: abstract value, exp: oracle value"""
    if isinstance(exp, tuple) and exp and exp[0] == "bool":
        g = it.deref_all(st, got)
        if g[0] != "bool" or g[1] != exp[1]:
            raise Mismatch("returned %s, expected %s" % (g, exp[1]))
        return
    if isinstance(exp, tuple) and exp and exp[0] == "none":
        g = it.deref_all(st, got)
        if not (g[0] == "enum" and g[2] == "None"):
            raise Mismatch("returned %s, expected None" % (g[0:3],))
        return
    if isinstance(exp, tuple) and exp and exp[0] == "some":
        g = it.deref_all(st, got)
        if not (g[0] == "enum" and g[2] == "Some"):
            raise Mismatch("returned None/other, expected Some(..)")
        return compare(it, st, g[3][0], exp[1])
    if isinstance(exp, tuple) and exp and exp[0] == "ok":
        g = it.deref_all(st, got)
        if not (g[0] == "enum" and g[2] == "Ok"):
            raise Mismatch("expected Ok(..)")
        return compare(it, st, g[3][0], exp[1])
    if isinstance(exp, tuple) and exp and exp[0] == "err_original":
        g = it.deref_all(st, got)
        if not (g[0] == "enum" and g[2] == "Err"):
            raise Mismatch("expected Err(..)")
        e = it.deref_all(st, g[3][0])
        if e[0] == "struct" and "original" in e[2]:
            return compare(it, st, e[2]["original"], exp[1])
        raise Mismatch("the error value does not carry the original argument")
    if isinstance(exp, tuple) and exp and exp[0] == "any":
        return
    if isinstance(exp, tuple) and exp and exp[0] == "custom":
        return exp[1](it, st, got)
    if isinstance(exp, tuple) and exp and exp[0] == "signed":
        g = it.deref_all(st, got)
        if not (g[0] == "struct" and g[1] == "bigint::BigInt"):
            raise Mismatch("expected a BigInt in (sign, magnitude) form")
        sg, d = g[2]["sign"], g[2]["data"]
        kz = st.known_zero(d[1])
        if kz is None:
            raise NeedCase(d[1])
        if kz:
            if sg[2] is None and sg[1] != 0:
                raise Mismatch("sign %d stored with a zero magnitude" % sg[1])
            return
        if sg[2] is not None:
            sg = ("sign", sg[1], None)
        if sg[1] != exp[1]:
            raise Mismatch("non-zero result has sign %d, the operation on the sign bits gives %d" % (sg[1], exp[1]))
        return
    if isinstance(exp, tuple) and exp and exp[0] == "sign":
        g = it.deref_all(st, got)
        if g[0] != "sign":
            raise Mismatch("expected a Sign")
        if g[2] is not None:
            raise NeedCase(g[2])
        if g[1] != exp[1]:
            raise Mismatch("returned sign %d, expected %d" % (g[1], exp[1]))
        return
    if isinstance(exp, tuple) and exp and exp[0] == "ord":
        g = it.deref_all(st, got)
        if g[0] != "ord" or g[1] != exp[1]:
            raise Mismatch("returned ordering %s, expected %d" % (g, exp[1]))
        return
    if isinstance(exp, tuple):
        g = it.deref_all(st, got)
        if g[0] != "tuple" or len(g[1]) != len(exp):
            raise Mismatch("expected a %d-tuple" % len(exp))
        for x, e in zip(g[1], exp):
            compare(it, st, x, e)
        return
    g = it.deref_all(st, got)
    p = numeric(it, st, g)
    if not (p - exp).is_zero():
        # the case under comparison may have been split further on the oracle's side (an operand known to be 0 there):
        # apply what is known about the symbols to the returned term as well
        try:
            p2 = p.subst(st.subst)
            # uninterpreted terms carry their arguments in their name (`pow(A,B)`): rewrite those too for symbols known to be
            # constants
            consts = {k_: repr(v_) for k_, v_ in st.subst.items() if hasattr(v_, "is_const") and v_.is_const()}
            if consts:
                import re as _re

                ren = {}
                for sname in p2.symbols():
                    if "(" not in sname:
                        continue
                    new = sname
                    for k_, v_ in consts.items():
                        new = _re.sub(r"(?<![A-Za-z0-9_])%s(?![A-Za-z0-9_(])" % _re.escape(k_), v_, new)
                    if new != sname:
                        ren[sname] = Poly.sym(new)
                if ren:
                    p2 = p2.subst(ren)
        except Exception:
            p2 = p
        if not (p2 - exp).is_zero():
            raise Mismatch("returned %r, definition gives %r" % (p, exp))
    # canonical sign of a BigInt result
    if g[0] == "struct" and g[1] == "bigint::BigInt":
        s, d = g[2]["sign"], g[2]["data"]
        if s[2] is None:
            kz = st.known_zero(d[1])
            if s[1] == 0 and kz is False:
                raise Mismatch("NoSign with a non-zero magnitude")
            if s[1] != 0 and kz is True:
                raise Mismatch("sign %d stored with a zero magnitude" % s[1])
            if s[1] != 0 and kz is None:
                raise NeedCase(d[1])


def check_body(facts, body, oracle, result_of="return", max_cases=400):
    """returns (n_cases, failures[list of str], undecided_reason or None)"""
    it = Interp(facts)
    failures = []
    ncases = 0
    try:
        combos = list(build_inputs(body))
    except Unsupported as e:
        return 0, [], str(e)
    for combo in combos:
        st, args, desc = make_state(body, combo)
        it.npaths = 0
        try:
            outs = list(it.run_body(body, st, args))
        except Unsupported as e:
            return ncases, failures, "%s [case %s]" % (e, desc)
        except PathLimit:
            return ncases, failures, "path limit [case %s]" % desc
        except RecursionError:
            return ncases, failures, "recursion limit [case %s]" % desc
        for out in outs:
            kind, s2 = out[0], out[1]
            work = [s2]
            guard = 0
            while work:
                guard += 1
                if guard > 512:
                    return ncases, failures, "too many sub-cases"
                s3 = work.pop()
                c = Ctx5(it, s3, body, combo)
                label = "%s | %s" % (desc, " ".join(s3.trace))
                try:
                    exp = oracle(c)
                    ncases += 1
                    if kind == "unreachable":
                        failures.append("%s: reaches an `unreachable` terminator" % label)
                        continue
                    if exp == "panic":
                        if kind != "panic":
                            failures.append("%s: returns normally, definition requires a panic" % label)
                        continue
                    if kind == "panic":
                        failures.append("%s: panics (%s), definition gives a value" % (label, out[2]))
                        continue
                    if result_of == "return":
                        got = s3.apply(out[2])
                    else:
                        got = s3.env["arg1"]
                    compare(it, s3, got, exp)
                except NeedCase as nc:
                    try:
                        forks = it.fork_on(s3, ("zero", nc.poly))
                    except Unsupported:
                        return ncases, failures, "comparison needs the zero-ness of compound term %r" % (nc.poly,)
                    for fk in forks:
                        fk.trace[-1] = "[%s]" % fk.trace[-1]
                    work.extend(forks)
                except Mismatch as m:
                    failures.append("%s: %s" % (label, m))
                except Unsupported as e:
                    return ncases, failures, "%s [comparison, case %s]" % (e, label)
    return ncases, failures, None


# ------------------------------------------------------------------------------------------
# target discovery + rule entry points


def arithmetic_targets(facts, families=None):
    ops, classes = r2.analyse(facts)
    out = []
    for b in ops:
        if classes[b.path]["kind"] != "leaf":
            continue
        if families and r2.family_of(b) not in families:
            continue
        tys = [b.self_ty] + list(b.trait_args)
        if not any("bigint::BigInt" in t for t in tys):
            continue
        o = OP_ORACLES.get(b.trait)
        if o is None:
            continue
        out.append((b, o, "arg1" if b.trait.endswith("Assign") else "return", "%s definition" % b.trait.split("::")[-1]))
    return out


def division_method_targets(facts):
    out = []
    for b in facts.bodies:
        if b.trait == "num_integer::Integer" and b.self_ty == "bigint::BigInt" and b.name in INTEGER_ORACLES:
            out.append((b, INTEGER_ORACLES[b.name], "return", b.name))
        if b.trait == "num_traits::Euclid" and b.self_ty == "bigint::BigInt" and b.name in EUCLID_ORACLES:
            out.append((b, EUCLID_ORACLES[b.name], "return", b.name))
        if b.trait == "num_traits::CheckedEuclid" and b.self_ty == "bigint::BigInt":
            out.append((b, checked(EUCLID_ORACLES[b.name.replace("checked_", "")]), "return", b.name))
        if b.trait == "num_traits::CheckedDiv" and b.self_ty == "bigint::BigInt":
            out.append((b, checked(o_div), "return", b.name))
        if b.path == "bigint::BigInt::checked_div":
            out.append((b, checked(o_div), "return", b.name))
        # the total checked forms: Some(a op b) in every case
        for tr, nm, o in (("num_traits::CheckedAdd", "checked_add", o_add), ("num_traits::CheckedSub", "checked_sub", o_sub), ("num_traits::CheckedMul", "checked_mul", o_mul)):
            if (b.trait == tr and b.self_ty == "bigint::BigInt") or b.path == "bigint::BigInt::" + nm:
                out.append((b, checked(o), "return", nm + " = Some(a op b)"))
    return out


def run_targets(ctx, res, targets, rule, floor, clause, config="all"):
    facts = ctx.facts(config)
    n = 0
    cases = 0
    for (b, oracle, result_of, what) in targets(facts):
        n += 1
        nc, fails, und = check_body(facts, b, oracle, result_of)
        cases += nc
        key = b.path
        if und:
            # a construct outside the interpreter's language (digit-level code, a std helper without a model): the body is neither
            # shown to agree with the definition nor refuted.  Reported, not alarmed: an alarm here would fire on every
            # behaviour-preserving rewrite that leaves the modelled language (third and fourth neutral rounds); the price is
            # that a defect hidden behind such a construct is not reported by this rule (DESIGN 12.4)
            res.undecided.append({"target": key, "rule": rule, "reason": und})
            res.note("%s-undecided: %s: the abstract interpreter cannot decide this body (%s); its agreement with the definition (%s) is not shown" % (rule, key, und, what))
            res.count(rule + " undecided targets")
        elif fails:
            res.fail(Finding(rule, key, "result differs from the definition (%s) in %d abstract case(s); first: %s" % (what, len(fails), fails[0][:300]), b, detail={"cases": fails[:12]}))
        else:
            res.ok(rule, key, {"abstract_cases": nc, "definition": what})
    res.count(rule + " targets", n)
    res.count(rule + " abstract cases", cases)
    if n < floor:
        res.fail(Finding("R5-anchor-lost", rule, "only %d targets found (floor %d)" % (n, floor), file="src/bigint.rs", line=0))
    res.clause(clause)


def check_arithmetic(families=None, floor=1):
    def f(ctx, res):
        run_targets(
            ctx,
            res,
            lambda facts: arithmetic_targets(facts, families),
            "R5-arith",
            floor,
            "R5: every BigInt leaf of %s returns exactly a (op) b as a polynomial identity in (sign, magnitude), in all sign cases x order cases, for val/ref/scalar duplicates (conditional on exact magnitude arithmetic)" % (sorted(families) if families else "+ - * / %"),
        )

    f.__name__ = "r5_arith_" + ("_".join(sorted(families)) if families else "all")
    return f


def check_division_methods(ctx, res):
    run_targets(
        ctx,
        res,
        division_method_targets,
        "R5-division-convention",
        19,
        "R5: div_rem, div_floor, mod_floor, div_mod_floor, div_ceil, div_euclid, rem_euclid, div_rem_euclid and the checked variants of BigInt equal the textbook tables (checked_add/sub/mul = Some(a op b), trait and inherent forms) in (sa, sb, Q, R, [R=0]); zero divisor -> panic / None",
    )


# ------------------------------------------------------------------------------------------
# sign algebra, helpers, predicates (C19) and friends

from .r5models import opaque_sym


def o_sign_neg(c):
    return ("sign", -c.combo[0][1])


def o_sign_mul(c):
    return ("sign", c.combo[0][1] * c.combo[1][1])


def o_sign_of(c):
    return ("sign", c.sm(1)[0])


def o_magnitude(c):
    return c.sm(1)[1]


def o_into_parts(c):
    s, A = c.sm(1)
    return (("sign", s), A)


def o_is_zero(c):
    s, A = c.sm(1)
    kz = c.st.known_zero(A)
    if kz is None:
        raise NeedCase(A)
    return ("bool", kz)


def o_set_zero(c):
    return Poly()


def o_set_one(c):
    return Poly.const(1)


def o_zero(c):
    return Poly()


def o_one(c):
    return Poly.const(1)


def order_of(c, i, j):
    sa, A = c.sm(i)
    sb, B = c.sm(j)
    if sa != sb:
        return -1 if sa < sb else 1
    if sa == 0:
        return 0
    d = A - B
    if d.is_const():
        o = (d.const_value() > 0) - (d.const_value() < 0)
    elif (repr(A), repr(B)) in c.st.lt:
        o = -1
    elif (repr(B), repr(A)) in c.st.lt:
        o = 1
    else:
        raise Mismatch("the order of the magnitudes was never established on this path")
    return o if sa > 0 else -o


def o_cmp(c):
    return ("ord", order_of(c, 1, 2))


def o_eq(c):
    sa, A = c.sm(1)
    sb, B = c.sm(2)
    if sa != sb:
        return ("bool", False)
    return ("bool", order_of(c, 1, 2) == 0)


def o_abs_sub(c):
    o = order_of(c, 1, 2)
    if o <= 0:
        return Poly()
    return c.init_val(1) - c.init_val(2)


def o_to_biguint(c):
    s, A = c.sm(1)
    if s < 0:
        return ("none",)
    return ("some", A)


def o_from_biguint_value(c):
    return c.init_val(1)


def o_some_value(c):
    return ("some", c.init_val(1))


def o_powsign(c):
    s = c.combo[0][1]
    E = c.init_val(2)
    kz = c.st.known_zero(E)
    if kz is None:
        raise NeedCase(E)
    if kz:
        return ("sign", 1)
    if s >= 0:
        return ("sign", s)
    key = "is_odd(%r)" % (E,)
    if E.is_const():
        odd = E.const_value() % 2 == 1
    elif key in c.st.bools:
        odd = c.st.bools[key]
    else:
        raise Mismatch("exponent parity never tested for a negative base")
    return ("sign", -1 if odd else 1)


def o_pow(c):
    s, A = c.sm(1)
    E = c.init_val(2)
    kz = c.st.known_zero(E)
    if kz is None:
        raise NeedCase(E)
    mag = opaque_sym("pow", A, E).subst(c.st.subst)
    if kz:
        ps = 1
    elif s >= 0:
        ps = s
    else:
        key = "is_odd(%r)" % (E,)
        if key not in c.st.bools:
            raise Mismatch("exponent parity never tested for a negative base")
        ps = -1 if c.st.bools[key] else 1
    return mag * ps


def o_root(name, deg_arg):
    def f(c):
        s, A = c.sm(1)
        if deg_arg:
            n = c.init_val(2)
            if s < 0:
                key = "is_odd(%r)" % (n,)
                if key not in c.st.bools:
                    raise Mismatch("degree parity never tested for a negative radicand")
                if not c.st.bools[key]:
                    return "panic"
            return opaque_sym(name, A, n).subst(c.st.subst) * s
        if name == "sqrt" and s < 0:
            return "panic"
        return opaque_sym(name, A).subst(c.st.subst) * s

    return f


def o_gcdlike(name):
    def f(c):
        return opaque_sym(name, c.sm(1)[1], c.sm(2)[1]).subst(c.st.subst)

    return f


def o_extended_gcd_lcm(c):
    """(ExtendedGcd { gcd, x, y }, lcm): a*x + b*y = gcd, gcd is the non-negative gcd handed out by extended_gcd on (+-a, +-b),
    lcm * gcd = |a*b| (0 when a = b = 0) - checked modulo the Bezout relation and the exactness of divisions by the gcd"""
    a, b = c.init_val(1), c.init_val(2)
    sa, A = c.sm(1)
    sb, B = c.sm(2)

    def chk(it, st, got):
        g = it.deref_all(st, got)
        if g[0] != "tuple" or len(g[1]) != 2:
            raise Mismatch("expected (ExtendedGcd, lcm)")
        e = it.deref_all(st, g[1][0])
        if e[0] != "struct" or not {"gcd", "x", "y"} <= set(e[2]):
            raise Mismatch("first component is not an ExtendedGcd")
        gg, xx, yy = (numeric(it, st, e[2][k]) for k in ("gcd", "x", "y"))
        lcm = numeric(it, st, g[1][1])
        rel = None
        for (P, Q, gs, xs, ys) in st.egcds:
            if (gg - gs.subst(st.subst)).is_zero() and ((P - a).is_zero() or (P + a).is_zero()) and ((Q - b).is_zero() or (Q + b).is_zero()):
                rel = (P, Q, gs, xs, ys)
        if rel is None:
            raise Unsupported("the gcd component is not the gcd of an extended_gcd call on (+-a, +-b)")
        P, Q, gs, xs, ys = rel
        gsym = gs.single_symbol()
        gcur = gs.subst(st.subst)
        kzg = st.known_zero(gcur)
        ka, kb = st.known_zero(A.subst(st.subst)), st.known_zero(B.subst(st.subst))
        if ka is None:
            raise NeedCase(A)
        if kb is None:
            raise NeedCase(B)
        if kzg is None:
            raise NeedCase(gcur)
        if kzg != (ka and kb):
            return  # infeasible: gcd = 0 exactly when a = b = 0
        bez = (a * xx + b * yy - gg).subst({gsym: P * xs + Q * ys}) if not kzg else (a * xx + b * yy - gg)
        if not bez.is_zero():
            raise Mismatch("a*x + b*y - g = %r does not vanish under the Bezout relation of extended_gcd" % (bez,))
        # lcm
        if ka or kb:
            if not lcm.is_zero():
                raise Mismatch("lcm with a zero operand is %r, expected 0" % (lcm,))
            return
        d = lcm * gcur - A * B
        if d.is_zero():
            return
        for (X, Y, q, r) in st.divs:
            if not (Y - gcur).is_zero():
                continue
            relp = X - Poly.sym(q) * Y if isinstance(q, str) else X - q * Y
            for k in (Poly.const(1), Poly.const(-1), A, B, Poly() - A, Poly() - B):
                if (d - k * relp).is_zero():
                    return
        raise Mismatch("lcm * gcd - |a*b| = %r is not a consequence of the exact divisions by the gcd" % (d,))

    return ("custom", chk)


def o_is_multiple_of(c):
    sa, A = c.sm(1)
    sb, B = c.sm(2)
    kz = c.st.known_zero(B)
    if kz is None:
        raise NeedCase(B)
    if kz:
        ka = c.st.known_zero(A)
        if ka is None:
            raise NeedCase(A)
        return ("bool", ka)
    d = find_div(c.st, A, B)
    if d is None:
        raise Mismatch("no remainder computed")
    return ("bool", rzero(c.st, d[1]))


def o_next_multiple_of(c):
    f = _floor(c)
    if f == "panic":
        return "panic"
    m = f[1]
    kz = c.st.known_zero(m) if not m.is_zero() else True
    if m.is_zero():
        return c.init_val(1)
    # m is +-R or +-(B-R): non-zero on this branch unless R == 0 (then _floor returned 0)
    return c.init_val(1) + (c.init_val(2) - m)


def o_prev_multiple_of(c):
    f = _floor(c)
    if f == "panic":
        return "panic"
    return c.init_val(1) - f[1]


def o_modpow(c):
    sx, X = c.sm(1)
    se, E = c.sm(2)
    sm_, M = c.sm(3)
    if se < 0 or sm_ == 0:
        return "panic"
    rho = opaque_sym("modpow", X, E, M).subst(c.st.subst)
    kz = c.st.known_zero(rho)
    if kz is None:
        raise NeedCase(rho)
    if kz:
        return Poly()
    neg = False
    if sx < 0:
        if E.is_zero():
            neg = False
        else:
            key = "is_odd(%r)" % (E,)
            if key not in c.st.bools:
                raise Mismatch("exponent parity never tested for a negative base")
            neg = c.st.bools[key]
    if sm_ > 0:
        return (M - rho) if neg else rho
    return -rho if neg else -(M - rho)


def o_modinv(c):
    sx, X = c.sm(1)
    sm_, M = c.sm(2)
    rho0 = opaque_sym("modinv", X, M)
    key = "some:" + repr(rho0)
    rho = rho0.subst(c.st.subst)
    if key not in c.st.bools:
        raise Mismatch("the unsigned inverse was never computed")
    if not c.st.bools[key]:
        return ("none",)
    kz = c.st.known_zero(rho)
    if kz is None:
        raise NeedCase(rho)
    if kz:
        return ("some", Poly())
    neg = sx < 0
    if sm_ > 0:
        return ("some", (M - rho) if neg else rho)
    return ("some", -rho if neg else -(M - rho))


def helper_targets(facts):
    out = []

    def add(bodies, oracle, what, result_of="return"):
        for b in bodies:
            out.append((b, oracle, result_of, what))

    F = facts.find
    add(F(trait="core::ops::Neg", self_ty="bigint::Sign", name="neg"), o_sign_neg, "Neg for Sign = -s")
    add(F(trait="core::ops::Mul", self_ty="bigint::Sign", name="mul"), o_sign_mul, "Mul<Sign> = rule of signs")
    add(F(trait="core::ops::Neg", self_ty="bigint::BigInt", name="neg"), o_neg, "-a")
    add(F(trait="core::ops::Neg", self_ty="&bigint::BigInt", name="neg"), o_neg, "-a")
    add(F(trait="core::ops::Not", self_ty="bigint::BigInt", name="not"), o_not, "!a = -a - 1")
    add(F(trait="core::ops::Not", self_ty="&bigint::BigInt", name="not"), o_not, "!a = -a - 1")
    add(F(trait="num_traits::Signed", self_ty="bigint::BigInt", name="abs"), o_abs, "|a|")
    add(F(trait="num_traits::Signed", self_ty="bigint::BigInt", name="signum"), o_signum, "signum")
    add(F(trait="num_traits::Signed", self_ty="bigint::BigInt", name="is_positive"), o_is_positive, "a > 0")
    add(F(trait="num_traits::Signed", self_ty="bigint::BigInt", name="is_negative"), o_is_negative, "a < 0")
    add(F(trait="num_traits::Signed", self_ty="bigint::BigInt", name="abs_sub"), o_abs_sub, "max(a-b,0)")
    add(F(suffix="bigint::BigInt::sign"), o_sign_of, "sign(a)")
    add(F(suffix="bigint::BigInt::magnitude"), o_magnitude, "|a|")
    add(F(suffix="bigint::BigInt::into_parts"), o_into_parts, "(sign, |a|)")
    add(F(trait="num_traits::Zero", self_ty="bigint::BigInt", name="is_zero"), o_is_zero, "a == 0")
    add(F(trait="num_traits::Zero", self_ty="bigint::BigInt", name="zero"), o_zero, "0")
    add(F(trait="num_traits::One", self_ty="bigint::BigInt", name="one"), o_one, "1")
    add(F(trait="num_traits::Zero", self_ty="bigint::BigInt", name="set_zero"), o_set_zero, "a := 0", "arg1")
    add(F(trait="core::default::Default", self_ty="bigint::BigInt", name="default"), o_zero, "0")
    add(F(trait="core::cmp::Ord", self_ty="bigint::BigInt", name="cmp"), o_cmp, "numerical order")
    add(F(trait="core::cmp::PartialEq", self_ty="bigint::BigInt", name="eq"), o_eq, "numerical equality")
    add(F(suffix="bigint::BigInt::to_biguint"), o_to_biguint, "Some(|a|) iff a >= 0")
    add(F(trait="biguint::ToBigUint", self_ty="bigint::BigInt", name="to_biguint"), o_to_biguint, "Some(|a|) iff a >= 0")
    add(F(trait="bigint::ToBigInt", self_ty="biguint::BigUint", name="to_bigint"), o_some_value, "Some(a)")
    add(F(trait="bigint::ToBigInt", self_ty="bigint::BigInt", name="to_bigint"), o_some_value, "Some(a)")
    add(F(trait="biguint::ToBigUint", self_ty="biguint::BigUint", name="to_biguint"), o_some_value, "Some(a)")
    add([b for b in F(trait="core::convert::From", self_ty="bigint::BigInt", name="from") if b.trait_args == ["biguint::BigUint"]], o_from_biguint_value, "value preserved")
    add(F(trait="num_integer::Integer", self_ty="bigint::BigInt", name="inc"), o_inc, "a + 1", "arg1")
    add(F(trait="num_integer::Integer", self_ty="bigint::BigInt", name="dec"), o_dec, "a - 1", "arg1")
    add(F(trait="num_integer::Integer", self_ty="bigint::BigInt", name="gcd"), o_gcdlike("gcd"), "gcd(|a|,|b|) >= 0")
    add(F(trait="num_integer::Integer", self_ty="bigint::BigInt", name="lcm"), o_gcdlike("lcm"), "lcm(|a|,|b|) >= 0")
    add(F(trait="num_integer::Integer", self_ty="bigint::BigInt", name="extended_gcd_lcm"), o_extended_gcd_lcm, "a*x + b*y = g >= 0 (Bezout relation of extended_gcd), lcm * g = |a*b|")
    add(F(trait="num_integer::Integer", self_ty="bigint::BigInt", name="is_multiple_of"), o_is_multiple_of, "b == 0 ? a == 0 : b | a")
    add(F(trait="num_integer::Integer", self_ty="biguint::BigUint", name="is_multiple_of"), o_is_multiple_of, "b == 0 ? a == 0 : b | a")
    add(F(trait="num_integer::Integer", self_ty="bigint::BigInt", name="next_multiple_of"), o_next_multiple_of, "next multiple")
    add(F(trait="num_integer::Integer", self_ty="bigint::BigInt", name="prev_multiple_of"), o_prev_multiple_of, "previous multiple")
    return out


def power_targets(facts):
    out = []
    for b in facts.find(suffix="bigint::power::powsign"):
        out.append((b, o_powsign, "return", "powsign table"))
    for b in facts.bodies:
        if b.trait == "num_traits::Pow" and b.self_ty in ("bigint::BigInt", "&bigint::BigInt") and b.name == "pow":
            out.append((b, o_pow, "return", "powsign(s,e) * |a|^e"))
    b = facts.body("bigint::BigInt::pow")
    if b is not None:
        out.append((b, o_pow, "return", "powsign(s,e) * |a|^e (inherent method)"))
    return out


def modular_targets(facts):
    out = []
    for b in facts.find(suffix="bigint::power::modpow"):
        out.append((b, o_modpow, "return", "floor-mod representative of b^e mod m"))
    b = facts.body("bigint::BigInt::modpow")
    if b is not None:
        out.append((b, o_modpow, "return", "floor-mod representative of b^e mod m (inherent method)"))
    for b in facts.find(suffix="bigint::BigInt::modinv"):
        out.append((b, o_modinv, "return", "floor-mod representative of the inverse"))
    return out


def root_targets(facts):
    out = []
    for nm, deg in (("nth_root", True), ("sqrt", False), ("cbrt", False)):
        for b in facts.find(trait="num_integer::Roots", self_ty="bigint::BigInt", name=nm):
            out.append((b, o_root(nm, deg), "return", "sign(a) * root(|a|)"))
        # the inherent methods of the same name must behave identically (they forward today)
        b = facts.body("bigint::BigInt::" + nm)
        if b is not None:
            out.append((b, o_root(nm, deg), "return", "sign(a) * root(|a|) (inherent method)"))
    return out


def check_helpers(ctx, res):
    run_targets(ctx, res, helper_targets, "R5-helper", 30, "R5: Sign negation/multiplication tables, Neg, Not, abs, signum, is_positive/negative, abs_sub, sign, magnitude, into_parts, zero/one/default, set_zero, Ord, PartialEq, to_biguint/to_bigint gates, From<BigUint>, inc/dec, gcd/lcm sign, is_multiple_of, next/prev_multiple_of equal their definitions in every abstract case")


def check_powers(ctx, res):
    run_targets(ctx, res, power_targets, "R5-pow-sign", 30, "R5: powsign table and BigInt::pow = powsign(sign, e) * |a|^e for all exponent types and val/ref forms")


def check_modular(ctx, res):
    run_targets(ctx, res, modular_targets, "R5-modular-sign", 2, "R5: BigInt::modpow / modinv place the unsigned residue as the floor-mod representative in all sign cases, including residue 0; guards panic")


def check_roots(ctx, res):
    run_targets(ctx, res, root_targets, "R5-root-sign", 6, "R5: BigInt roots = sign(a) * root(|a|); even root / sqrt of a negative panics")


# ------------------------------------------------------------------------------------------
# constructors, BigUint ^ BigUint decision order, random range terms


def o_ctor(sign_idx, mag_idx):
    def f(c):
        s = c.combo[sign_idx - 1][1]
        return c.init_val(mag_idx) * s

    return f


def o_ctor_opt(sign_idx, mag_idx):
    def f(c):
        s = c.combo[sign_idx - 1][1]
        sym = c.combo[mag_idx - 1][2]
        key = "parsed:" + sym
        if key not in c.st.bools:
            raise Mismatch("the digits were never parsed")
        if not c.st.bools[key]:
            return ("none",)
        return ("some", c.init_val(mag_idx) * s)

    return f


def o_upow(c):
    A = c.init_val(1)
    E = c.init_val(2)
    kz = c.st.known_zero(E)
    if kz is None:
        raise NeedCase(E)
    if kz:
        return Poly.const(1)
    if A.is_const() and A.const_value() == 1:
        return Poly.const(1)
    if not A.is_const() and c.st.known_zero(A - 1) is None and A.single_symbol():
        raise NeedCase(A - 1)
    ka = c.st.known_zero(A)
    if ka is None:
        raise NeedCase(A)
    if ka:
        return Poly()
    for ty in ("u64", "u128"):
        if c.st.bools.get("fits_%s(%r)" % (ty, E)):
            return opaque_sym("pow", A, E).subst(c.st.subst)
    if any(k.startswith("fits_") for k in c.st.bools):
        return "panic"
    return opaque_sym("pow", A, E).subst(c.st.subst)


def o_bigint_range(c):
    sl, L = c.sm(2)
    su, U = c.sm(3)
    lo, hi = c.init_val(2), c.init_val(3)
    if order_of(c, 2, 3) >= 0:
        return "panic"
    if sl == 0:
        return opaque_sym("below", U).subst(c.st.subst)
    if su == 0:
        return lo + opaque_sym("below", L).subst(c.st.subst)
    return lo + opaque_sym("below", hi - lo).subst(c.st.subst)


def o_biguint_range(c):
    lo, hi = c.init_val(2), c.init_val(3)
    d = hi - lo
    if not ((repr(lo), repr(hi)) in c.st.lt):
        if (repr(hi), repr(lo)) in c.st.lt or d.is_zero():
            return "panic"
        kz = c.st.known_zero(lo)
        if not (kz is True and c.st.known_zero(hi) is False):
            raise Mismatch("order of the bounds was never established")
    kz = c.st.known_zero(lo)
    if kz is None:
        raise NeedCase(lo)
    if kz:
        return opaque_sym("below", hi).subst(c.st.subst)
    return lo + opaque_sym("below", d).subst(c.st.subst)


def ctor_targets(facts):
    out = []
    F = facts.find
    for b in F(suffix="bigint::BigInt::from_biguint"):
        out.append((b, o_ctor(1, 2), "return", "sign * magnitude, canonical"))
    for nm in ("new", "from_slice", "from_bytes_be", "from_bytes_le"):
        for b in F(suffix="bigint::BigInt::" + nm):
            out.append((b, o_ctor(1, 2), "return", "sign * magnitude(digits), canonical"))
    for b in F(suffix="bigint::BigInt::assign_from_slice"):
        out.append((b, o_ctor(2, 3), "arg1", "self := sign * magnitude(digits), canonical"))
    for nm in ("from_radix_be", "from_radix_le"):
        for b in F(suffix="bigint::BigInt::" + nm):
            out.append((b, o_ctor_opt(1, 2), "return", "Some(sign * magnitude) / None"))
    return out


def upow_targets(facts):
    out = []
    ops, classes = r2.analyse(facts)
    leaf = {b.path for b in ops if classes[b.path]["kind"] == "leaf"}
    for b in facts.bodies:
        if b.path not in leaf:
            continue
        if b.trait == "num_traits::Pow" and b.name == "pow" and b.self_ty in ("biguint::BigUint", "&biguint::BigUint") and b.trait_args and "BigUint" in b.trait_args[0]:
            out.append((b, o_upow, "return", "1 if a == 1 or e == 0; 0 if a == 0; else a^e (0^0 = 1)"))
    return out


def range_targets(facts):
    out = []
    for b in facts.find(suffix="bigrand::RandBigInt>::gen_bigint_range"):
        out.append((b, o_bigint_range, "return", "lbound + below(ubound - lbound) with the zero-bound special cases"))
    for b in facts.find(suffix="bigrand::RandBigInt>::gen_biguint_range"):
        out.append((b, o_biguint_range, "return", "lbound + below(ubound - lbound)"))
    return out


def check_constructors(ctx, res):
    run_targets(ctx, res, ctor_targets, "R5-constructor", 8, "R5: from_biguint, new, from_slice, from_bytes_*, assign_from_slice, from_radix_* build sign * magnitude and are canonical for every (Sign, magnitude) pair including inconsistent ones")


def check_upow(ctx, res):
    run_targets(ctx, res, upow_targets, "R5-pow-biguint-exp", 2, "R5: BigUint ^ BigUint decides `a == 1 or e == 0 -> 1` before `a == 0 -> 0` (0^0 = 1) in all val/ref forms, then narrows the exponent to u64, u128, else panics")


def check_ranges(ctx, res):
    run_targets(ctx, res, range_targets, "R5-range-term", 2, "R5: gen_biguint_range / gen_bigint_range return lbound + below(ubound - lbound) (below(ubound) for lbound = 0, lbound + below(|lbound|) for ubound = 0) and panic unless lbound < ubound")


def prim_max(ty):
    b = {"8": 8, "16": 16, "32": 32, "64": 64, "128": 128, "size": 64}.get(ty[1:], 64)
    return 2 ** (b - 1) - 1 if ty.startswith("i") else 2 ** b - 1


def o_shl(c):
    s, A = c.sm(1)
    k = c.init_val(2)
    if A.is_zero():
        return Poly()
    if k.is_zero():
        return A * s
    return opaque_sym("shl", A, k).subst(c.st.subst) * s


def o_shr(c):
    s, A = c.sm(1)
    k = c.init_val(2)
    if A.is_zero():
        return Poly()
    if not k.is_zero() and all(x < 0 for x in k.t.values()):
        return ("any",)  # negative shift amount: the unsigned shift panics (checked by R3a), nothing to compare here
    m = A if k.is_zero() else opaque_sym("shr", A, k).subst(c.st.subst)
    if s >= 0:
        return m
    # floor semantics for negatives: add one iff some one-bit is shifted out:
    #   k == 0 -> no; k does not fit in u64 -> everything is shifted out -> yes; else iff trailing_zeros(|a|) < k
    kz = c.st.known_zero(k)
    if kz is None:
        raise NeedCase(k)
    if kz:
        return -m
    # the comparison may instead be made in the shift's own type, by narrowing trailing_zeros(|a|) to it: when that
    # does not fit, trailing_zeros(|a|) > T::MAX >= k, so no one-bit is shifted out
    zfits = [(key, v) for key, v in c.st.bools.items() if key.startswith("fits_") and "(tz(" in key]
    for key, v in zfits:
        if not v:
            zt = key[5:key.index("(")]
            kt = (c.body.trait_args[0] if c.body.trait_args else "").lstrip("&")
            if kt in UNSIGNED | SIGNED and prim_max(zt) >= prim_max(kt):
                return -m
            return ("any",)
    fits = [v for key, v in c.st.bools.items() if key.startswith("fits_u64(") and "(tz(" not in key]
    if fits and not fits[0]:
        return -(m + 1)
    # (no narrowing at all: the comparison was made in a type that holds both values - the interpreter does not follow
    # value-changing casts)
    lt = [v for key, v in c.st.bools.items() if key.startswith("Lt(tz(") or key.startswith("Gt(")]
    # the same comparison through PartialOrd/Ord on the (generic) amount type: a three-way outcome
    if not lt:
        lt += [True for (x, y) in c.st.lt if x.startswith("tz(") and not y.startswith("tz(")]
        lt += [False for (x, y) in c.st.lt if y.startswith("tz(") and not x.startswith("tz(")]
        if not lt and repr(k).startswith("tz("):
            lt.append(False)  # the three-way comparison came out Equal (the amount was identified with the count)
    if not lt:
        raise Mismatch("trailing_zeros(|a|) was never compared with the shift amount")
    return -(m + (1 if lt[0] else 0))


def shift_targets(facts):
    ops, classes = r2.analyse(facts)
    out = []
    for b in ops:
        if classes[b.path]["kind"] != "leaf":
            continue
        fam = r2.family_of(b)
        if fam not in ("Shl", "Shr"):
            continue
        if not any("bigint::BigInt" in t for t in [b.self_ty] + list(b.trait_args)):
            continue
        out.append((b, o_shl if fam == "Shl" else o_shr, "arg1" if b.trait.endswith("Assign") else "return", "a << k = s*(|a| << k)" if fam == "Shl" else "a >> k = floor(a / 2^k)"))
    return out


def check_shifts(ctx, res):
    run_targets(ctx, res, shift_targets, "R5-shift", 24, "R5: the BigInt shift leaves (72 on the pinned tree; at least the 24 assigning forms must remain leaves when the others forward to them) keep the sign, shift the magnitude, add the rounding increment to negative right shifts and leave a canonical value (zero result -> NoSign)")


# ------------------------------------------------------------------------------------------
# primitive conversions (C08)


def o_toprim(ty):
    signed = ty in SIGNED
    bits = {"8": 8, "16": 16, "32": 32, "64": 64, "128": 128, "size": 64}[ty[1:]]

    def f(c):
        s, A = c.sm(1)
        if s == 0:
            return ("some", Poly())
        if s > 0:
            key = "fits_%s(%r)" % (ty, A)
            if key not in c.st.bools:
                raise Mismatch("the magnitude was never narrowed to %s" % ty)
            return ("some", A) if c.st.bools[key] else ("none",)
        if not signed:
            return ("none",)
        uty = "u" + ty[1:]
        key = "fits_%s(%r)" % (uty, A)
        # on the Equal path A has been substituted by the constant 2^(bits-1)
        lim = Poly.const(1 << (bits - 1))
        if A.is_const():
            return ("some", -A) if A.const_value() <= (1 << (bits - 1)) else ("none",)
        keys = [k for k in c.st.bools if k.startswith("fits_%s(" % uty)]
        if not keys:
            raise Mismatch("the magnitude was never narrowed to %s" % uty)
        if not c.st.bools[keys[0]]:
            return ("none",)
        if (repr(A), repr(lim)) in c.st.lt:
            return ("some", -A)
        if (repr(lim), repr(A)) in c.st.lt:
            return ("none",)
        # the same decision written with `<` / `==` / `<=` on the scalars instead of cmp(): opaque boolean keys
        def bk(op, x, y):
            return c.st.bools.get("%s(%r,%r)" % (op, x, y))

        lt_, le_, eq_, gt_, ge_ = bk("Lt", A, lim), bk("Le", A, lim), bk("Eq", A, lim), bk("Gt", A, lim), bk("Ge", A, lim)
        if eq_ is True:
            return ("some", -lim)  # |a| = 2^(bits-1): the MIN edge
        if lt_ is True or le_ is True or gt_ is False:
            return ("some", -A)
        if gt_ is True or le_ is False or (lt_ is False and eq_ is False) or (ge_ is True and eq_ is False):
            return ("none",)
        # comparisons against neighbouring constants (`n <= iN::MAX as uN`, then `n == MAX + 1`): collect what every tested
        # relation says about |a| and decide from the resulting range
        import re as _re

        lo_, hi_, excl = 0, None, set()
        limv = 1 << (bits - 1)
        ra = _re.escape(repr(A))
        for k_, v_ in c.st.bools.items():
            m_ = _re.match(r"^(Lt|Le|Eq|Ne|Gt|Ge)\((%s),(\d+)\)$" % ra, k_)
            flip = False
            if not m_:
                m_ = _re.match(r"^(Lt|Le|Eq|Ne|Gt|Ge)\((\d+),(%s)\)$" % ra, k_)
                flip = True
            if not m_ or v_ is None:
                continue
            op_ = m_.group(1)
            kv = int(m_.group(2) if flip else m_.group(3))
            if flip:
                op_ = {"Lt": "Gt", "Le": "Ge", "Gt": "Lt", "Ge": "Le"}.get(op_, op_)
            if not v_:
                op_ = {"Lt": "Ge", "Le": "Gt", "Gt": "Le", "Ge": "Lt", "Eq": "Ne", "Ne": "Eq"}[op_]
            if op_ == "Lt":
                hi_ = kv - 1 if hi_ is None else min(hi_, kv - 1)
            elif op_ == "Le":
                hi_ = kv if hi_ is None else min(hi_, kv)
            elif op_ == "Gt":
                lo_ = max(lo_, kv + 1)
            elif op_ == "Ge":
                lo_ = max(lo_, kv)
            elif op_ == "Eq":
                lo_ = max(lo_, kv)
                hi_ = kv if hi_ is None else min(hi_, kv)
            elif op_ == "Ne":
                excl.add(kv)
        while lo_ in excl:
            lo_ += 1
        if hi_ is not None and hi_ < limv:
            return ("some", -A)
        if hi_ is not None and lo_ == hi_ == limv:
            return ("some", -lim)
        if lo_ > limv:
            return ("none",)
        raise Mismatch("|a| was never compared with 2^%d" % (bits - 1))

    return f


def o_from_signed(c):
    v = c.init_val(1)
    if all(x > 0 for x in v.t.values()) or v.is_zero():
        return ("some", v)
    if all(x < 0 for x in v.t.values()):
        return ("none",)
    raise Mismatch("sign of the primitive never tested")


def o_from_unsigned(c):
    return ("some", c.init_val(1))


def o_tryfrom_biguint(c):
    s, A = c.sm(1)
    if s < 0:
        return ("err_original", c.init_val(1))
    return ("ok", A)


def conversion_targets(facts):
    out = []
    for b in facts.bodies:
        if b.trait == "num_traits::ToPrimitive" and b.self_ty == "bigint::BigInt" and b.name in ("to_i64", "to_i128", "to_u64", "to_u128"):
            out.append((b, o_toprim(b.name[3:]), "return", "Some(a) iff a fits the target type (MIN edge included)"))
        if b.trait == "num_traits::FromPrimitive" and b.self_ty == "biguint::BigUint" and b.name in ("from_i64", "from_i128"):
            out.append((b, o_from_signed, "return", "Some(n) iff n >= 0"))
        if b.trait == "num_traits::FromPrimitive" and b.self_ty == "biguint::BigUint" and b.name in ("from_u64", "from_u128"):
            out.append((b, o_from_unsigned, "return", "Some(n)"))
        if b.trait == "core::convert::TryFrom" and b.self_ty == "biguint::BigUint" and b.trait_args == ["bigint::BigInt"]:
            out.append((b, o_tryfrom_biguint, "return", "Ok(|a|) for a >= 0, Err carrying a itself otherwise"))
    return out


def check_conversions(ctx, res):
    run_targets(ctx, res, conversion_targets, "R5-conversion", 9, "R5: BigInt::to_{i64,i128,u64,u128} return Some(a) exactly when a fits (sign gates and the MIN edge), BigUint::from_iN rejects negatives, TryFrom<BigInt> for BigUint returns the argument itself in Err")


def check_tryfrom_err_carries_input(ctx, res, config="all"):
    """by-value TryFrom<BigInt>/<BigUint> for primitives: the closure given to map_err captures the argument and wraps exactly it"""
    facts = ctx.facts(config)
    n = 0
    for b in facts.bodies:
        if b.trait != "core::convert::TryFrom" or b.name != "try_from" or not b.trait_args:
            continue
        src = b.trait_args[0]
        if src not in ("bigint::BigInt", "biguint::BigUint") or b.self_ty in ("biguint::BigUint", "bigint::BigInt"):
            continue
        n += 1
        key = b.path
        errs = []
        clos = [(i, si, s) for i, si, s in b.stmts() if s["k"] == "assign" and s["rv"]["k"] == "aggregate" and s["rv"].get("akind") == "closure"]
        me = [(i, t) for i, t in b.calls() if core.callee_name(t) == "map_err"]
        if len(clos) != 1 or len(me) != 1:
            errs.append("expected `try_from(&value).map_err(|_| TryFromBigIntError::new(value))`")
        else:
            rv = clos[0][2]["rv"]
            caps = [core.op_place(o) for o in rv["ops"]]
            if not (len(caps) == 1 and caps[0] and caps[0]["local"] == 1 and not caps[0]["proj"]):
                errs.append("the error closure does not capture the argument by value")
            cb = facts.body(rv["closure"])
            if cb is None:
                errs.append("closure body not found")
            else:
                news = [(i, t) for i, t in cb.calls() if core.callee_name(t) == "new" and "TryFromBigIntError" in (core.callee(t) or "")]
                if len(news) != 1:
                    errs.append("the closure does not build TryFromBigIntError::new(..)")
                else:
                    fl = core.Flow(cb)
                    rr = fl.roots_of_operand(news[0][1]["args"][0])
                    if not any(r[0] == "param" and r[1] == 1 for r in rr):
                        errs.append("TryFromBigIntError::new does not receive the captured argument")
                    r0 = fl.roots_of_local(0)
                    if not all(r[0] == "call" and r[1] == news[0][0] for r in r0):
                        errs.append("the closure does not return the constructed error")
            # result is map_err's result
            rr = core.Flow(b).roots_of_local(0)
            if not all(r[0] == "call" and r[1] == me[0][0] for r in rr):
                errs.append("the result is not map_err's result")
        if errs:
            res.fail(Finding("R5-tryfrom-original", key, "; ".join(errs), b))
        else:
            res.ok("R5-tryfrom-original", key, {"err": "TryFromBigIntError::new(value) with the argument itself"})
    res.count("by-value TryFrom impls", n)
    if n < 22:
        res.fail(Finding("R5-anchor-lost", "tryfrom", "only %d by-value TryFrom impls found (floor 22)" % n, file="src/bigint/convert.rs", line=0))
    res.clause("C08: every by-value TryFrom<BigInt|BigUint> for a primitive returns the original big value in its error")


def check_float_guard(ctx, res, config="all"):
    facts = ctx.facts(config)
    from .tests import tests_of, params_of, fate

    bs = [b for b in facts.bodies if b.trait == "num_traits::FromPrimitive" and b.self_ty == "biguint::BigUint" and b.name == "from_f64"]
    if len(bs) != 1:
        res.fail(Finding("R5-anchor-lost", "from_f64", "BigUint::from_f64 not found", file="src/biguint/convert.rs", line=0))
        return
    b = bs[0]
    tl, atoms = tests_of(b)
    ok = False
    neg_ok = False
    for t in tl:
        c = t.cond
        if c is not None and c.kind == "call" and c.name == "is_finite" and params_of(c.args[0]) == {1}:
            # non-finite edge returns None without any conversion work
            reg = b.reachable(t.f, without_blocks=[t.t])
            none = any(s["k"] == "assign" and s["place"]["local"] == 0 and s["rv"]["k"] == "aggregate" and s["rv"].get("variant") == "None" for x in reg for s in b.blocks[x]["stmts"])
            work = any(b.blocks[x]["term"]["k"] == "call" and (core.callee_fn(b.blocks[x]["term"]) or {}).get("local") for x in reg)
            others = [i for i, tt in b.calls() if i in b.live_blocks() and core.callee_name(tt) in ("integer_decode", "trunc", "shl_assign", "shr_assign", "from")]
            if none and not work and all(b.edge_dominates((t.bb, t.t), i) for i in others):
                ok = True
        if c is not None and c.kind == "cmp" and c.op in ("Eq", "Ne") and -1 in tests.consts_of(c.b) and "integer_decode" in tests.calls_of(c.a):
            neg_edge = t.t if c.op == "Eq" else t.f
            reg = b.reachable(neg_edge, without_blocks=[t.f if c.op == "Eq" else t.t])
            none = any(s["k"] == "assign" and s["place"]["local"] == 0 and s["rv"]["k"] == "aggregate" and s["rv"].get("variant") == "None" for x in reg for s in b.blocks[x]["stmts"])
            if none:
                neg_ok = True
    if ok:
        res.ok("C08-float-guard", "BigUint::from_f64:non-finite", {"guard": "!is_finite() -> None before decoding"})
    else:
        res.fail(Finding("C08-float-guard", "BigUint::from_f64:non-finite", "NaN / infinities are not rejected (None) before the float is decoded", b))
    if neg_ok:
        res.ok("C08-float-guard", "BigUint::from_f64:negative", {"guard": "sign == -1 -> None"})
    else:
        res.fail(Finding("C08-float-guard", "BigUint::from_f64:negative", "negative floats are not rejected with None", b))
    res.clause("C08: BigUint::from_f64 returns None for NaN/infinities before decoding and for negative values")


def o_bitop(op):
    def f(c):
        sa, A = c.sm(1)
        sb, B = c.sm(2)
        if sa == 0:
            return Poly() if op == "and" else c.init_val(2)
        if sb == 0:
            return Poly() if op == "and" else c.init_val(1)
        na, nb = sa < 0, sb < 0
        neg = {"and": na and nb, "or": na or nb, "xor": na != nb}[op]
        return ("signed", -1 if neg else 1)

    return f


def bitop_targets(facts):
    ops, classes = r2.analyse(facts)
    out = []
    for b in ops:
        fam = r2.family_of(b)
        if fam not in ("BitAnd", "BitOr", "BitXor") or classes[b.path]["kind"] != "leaf":
            continue
        if not any("bigint::BigInt" in t for t in [b.self_ty] + list(b.trait_args)):
            continue
        op = {"BitAnd": "and", "BitOr": "or", "BitXor": "xor"}[fam]
        out.append((b, o_bitop(op), "arg1" if b.trait.endswith("Assign") else "return", "sign of a %s b = %s of the sign bits; zero operands: identity/annihilator; canonical result" % (op, op)))
    return out


def check_bitops(ctx, res):
    run_targets(ctx, res, bitop_targets, "R5-bitop-sign", 5, "R5: BigInt & | ^ (assign and by-reference leaves): the result is negative iff op(a<0, b<0) in all 9 sign pairs, zero operands act as annihilator/identity, every arm leaves a canonical value")
