"""property id -> clauses (rule functions) + the honest remainder.  Single source for MANIFEST.json."""
from . import r1, r2, r3, r4, r5check, r6, r7, r8, r9, r10, r11
from .selftest import selftest


def fam(*names):
    s = set(names)

    def f(ctx, res):
        r2.run(ctx, res, families=s)

    f.__name__ = "r2_forwarders_" + "_".join(names)
    return f


def signed(*names):
    s = set(names)

    def f(ctx, res):
        r2.check_signed_leaves(ctx, res, families=s)

    f.__name__ = "r2_signed_" + "_".join(names)
    return f


def guards(*roles):
    def f(ctx, res):
        r3.check_guard_table(ctx, res, config="all", roles=roles or None)
        r3.check_guard_table(ctx, res, config="all-rel", roles=roles or None)

    f.__name__ = "r3_guards_" + "_".join(r.replace(" ", "-") for r in roles)
    return f


def both(fn):
    def f(ctx, res):
        fn(ctx, res, config="all")
        fn(ctx, res, config="all-rel")
        if ctx.thorough():
            # the same rule on the facts of the default and the no_std build
            for cfg in ("default", "nostd"):
                fn(ctx, res, config=cfg)

    f.__name__ = fn.__name__ + "_dev_and_release"
    return f


def profile_diff(fn, name=None):
    """C16 form of a dev-and-release guard rule.  The property is that debug and release builds *agree*: a guard or assertion
    that neither profile has is not C16's finding (C14 and the owning property report it); one that only the dev build has
    (debug_assert!) is.  The rule is run as usual on both profiles (debug-only assertions do not count as guards) and once more
    on the dev facts with debug-only assertions counted: a finding of the strict runs that the lenient run does not have
    exists only because its guard is debug-only."""
    from . import core, scope

    def f(ctx, res):
        strict = []
        n_ok = 0
        for cfg in ("all", "all-rel"):
            n = len(res.findings)
            try:
                fn(ctx, res, config=cfg)
                n_ok += 1
            except core.SkipConfig:
                pass
            strict += res.findings[n:]
            del res.findings[n:]
        # lenient run: on a scratch result (its instances are not obligations of the check)
        lenient = core.Result()
        r3.COUNT_DEBUG_GUARDS[0] = True
        try:
            fn(ctx, lenient, config="all")
        except core.SkipConfig:
            lenient = None
        finally:
            r3.COUNT_DEBUG_GUARDS[0] = False
        common = {x.fullkey() for x in lenient.findings} if lenient is not None else set()
        seen = set()
        for x in strict:
            k = x.fullkey()
            if k in seen:
                res.obligations -= 1
                continue
            seen.add(k)
            if scope.engine_level(x) or k not in common:
                res.findings.append(x)
            else:
                res.obligations -= 1
                res.note("not attributed to C16: %s at %s - neither profile has this guard (the profiles agree; C14 owns the missing guard)" % (x.rule, x.key))
        res.clause("C16 reads the guard rules differentially: a finding is a configuration dependence only if a debug-only assertion would have discharged it")

    f.__name__ = name or (fn.__name__ + "_profile_diff")
    return f


def _guard_table(ctx, res, config="all"):
    r3.check_guard_table(ctx, res, config=config, roles=None)


PORTABLE = set()


def portable(*fns):
    """rules that hold verbatim on the default and no_std fact bases: the thorough tier re-runs them there"""
    for fn in fns:
        PORTABLE.add(fn)


def _c10_forwarders(ctx, res):
    r2.run(ctx, res)


def _c10_signed(ctx, res):
    r2.check_signed_leaves(ctx, res)


def _c10_folds(ctx, res):
    r2.check_folds(ctx, res)


def _conv_narrowing(ctx, res):
    r2.check_no_width_narrowing_in_conversions(ctx, res)


def _conv_intermediate(ctx, res):
    r2.check_conversion_intermediate(ctx, res)


def _conv_signed_cast(ctx, res):
    r2.check_signed_cast_guarded(ctx, res)


def _no_narrowing(ctx, res):
    r2.check_no_operand_narrowing(ctx, res)


def _filtered(fn, keep, name, clause):
    """run a rule on a scratch result and take over only the findings `keep` selects (their instances count as obligations)"""
    from . import core

    def f(ctx, res):
        sub = core.Result()
        fn(ctx, sub)
        kept = [x for x in sub.findings if keep(x)]
        res.obligations += max(1, len(kept))
        if kept:
            res.findings.extend(kept)
        else:
            res.discharged += 1
        res.clause(clause)

    f.__name__ = name
    return f


# side effects inside debug-only code (a call folded into debug_assert!): the release build skips the work - reported under
# the arithmetic property whose code it is, not only under C14/C16
_debug_effects = _filtered(r3.check_inventory, lambda x: x.rule == "R6d-debug-effect", "check_inventory_debug_effects", "R6d: debug-only code (debug_assert! and friends) in this property's functions has no effect on program state, so release and debug builds do the same work")
# a checked negation of a signed primitive that the reviewed tree does not have is a panic only overflow-checking builds have
_overflow_neg_sites = _filtered(r3.check_panic_site_table, lambda x: x.key.endswith("|checked-negation|OverflowNeg") or "OverflowNeg" in x.key, "check_panic_site_table_overflow_neg", "R3c (C16 form): no new overflow-checked negation of a signed primitive (a panic that only builds with overflow checks have)")


# a std/no_std-dependent value that reaches a parsed or printed result makes the conversion wrong in one configuration
_cfg_values = _filtered(r6.check_cfg_taint, lambda x: x.rule == "R6c-cfg-value-reaches-result", "check_cfg_taint_values", "R6c (scoped): in this property's functions a value computed differently with and without std reaches only capacity estimates or a Newton initial guess, never the result")


def count_ok(*files, floor=1):
    return r2.check_no_count_narrowing(tuple("src/" + f for f in files), floor)


T_R2 = "MIR dataflow over operator impls (forwarder classification, operand provenance, cast losslessness, forwarding-graph acyclicity, reviewed leaf table)"
T_R3 = "CFG dominance / guard-or-forward analysis over MIR in dev and release configurations (mandatory guards, checked-API guard dominance, divisor non-zero provenance)"

PROPS = {
    "C01": {
        "clauses": [fam("Add", "Sub"), signed("Add", "Sub"), both(r3.check_underflow_asserts), r3.check_checked_sub, r3.check_add2_carry_used, r9.check_carry_exits, selftest("R9-carry-exit"), r3.check_underflow_check_sees_all_digits, r3.check_panic_site_table, r4.check_block_loops, r4.check_block_loop_callers, r5check.check_arithmetic({"Add", "Sub"}, 30), count_ok("biguint/addition.rs", "biguint/subtraction.rs", "bigint/addition.rs", "bigint/subtraction.rs", floor=70), r1.check_biguint_normal_form, r5check.check_division_methods, r1.check_no_constant_cut, r3.check_digit_step_checked, selftest("R1-constant-cut", "R2-count-narrowed", "R3c-digit-step"), r3.check_operand_overflow, selftest("R3c-operand-overflow", "R3c-operand-overflow-abs")],
        "not_decided": "the digit arithmetic itself: adc/sbb of the scalar tail, how far a carry or borrow ripples into the longer operand, result growth (a seeded lost "
        "ripple inside `&a - b` is not detected)",
        "level_text": "Decides structural necessary conditions for every input: the two x86_64 block loops are well-formed carry chains (template data flow, addressing, "
        "counter = len/5, carry preserved to setc, add/sub agree) and hand (carry, done) to the scalar tail; all + and - operator forms forward with operands "
        "in order (never swapped for -) or are reviewed implementations whose sign/zero/order case analysis is checked against a +/- by abstract interpretation "
        "for all magnitudes; the underflow assertions of sub2/sub2rev are mandatory in release builds, test both the final borrow and the subtrahend's high "
        "digits and see all digits of the subtrahend; checked_sub returns None exactly on Less and subtracts only on Greater; no call site drops the "
        "carry/borrow returned by __add2, adc, sbb or __sub2rev; results escape in canonical form; no digit count is truncated by a cast. Also: no overflow-checked `+=`/`-=` is applied directly to an element of a digit slice without a test of that element (a carry or borrow taken from one digit must be propagated); new explicit panic sites and unchecked negations in the add/sub code are reported.",
        "technique": "MIR dataflow over operator impls (forwarder classification, operand provenance); CFG dominance of the mandatory assertions in dev and release; "
        "inline-asm template data-flow analysis; abstract interpretation over the sign domain with polynomial result terms",
    },
    "C02": {
        "clauses": [fam("Mul"), signed("Mul"), both(r3.check_underflow_asserts), r3.check_add2_carry_used, r9.check_carry_exits, r8.check_mac3_accumulates, r8.check_cost_general, r8.check_shorter_first, r5check.check_arithmetic({"Mul"}, 15), count_ok("biguint/multiplication.rs", "bigint/multiplication.rs", floor=40), r1.check_biguint_normal_form, r5check.check_division_methods, selftest("R2-count-narrowed"), r3.check_panic_site_table, r3.check_operand_overflow, selftest("R3c-operand-overflow", "R3c-operand-overflow-abs")],
        "not_decided": "temporary sizing, the Karatsuba/Toom-3 algebra (evaluation points, interpolation), mac_with_carry arithmetic, the low-zero stripping arithmetic (all "
        "value-level)",
        "level_text": "Decides: all Mul operator forms forward (operands in either order only because * is commutative) or are reviewed implementations with the sign table "
        "checked for all magnitudes; the carry-overflow assertion of mac_digit is mandatory in release builds and tests the carry returned by __add2; no call "
        "site drops a carry; the regime dispatch read from mac3 has a base case, passes the shorter operand first and yields a cost recurrence inside the "
        "documented bounds; the multiplication never reaches the multi-digit division; results escape in canonical form. Also: new explicit panic sites / unchecked negations in the multiplication code are reported (a native-integer fast path that can overflow).",
        "technique": "MIR dataflow over operator impls; CFG dominance of the carry assertion; regime/recurrence extraction from mac3 (dominance regions + call-graph "
        "reachability); abstract interpretation over the sign domain; derived-window analysis of the accumulator parameter (who may write it, and how)",
    },
    "C03": {
        "clauses": [fam("Div", "Rem"), signed("Div", "Rem"), both(r3.check_div_guards), r3.check_checked_div, r3.check_division_sites, r5check.check_arithmetic({"Div", "Rem"}, 30), r5check.check_division_methods, count_ok("biguint/division.rs", "bigint/division.rs", floor=90), r1.check_biguint_normal_form, selftest("R2-count-narrowed"), r3.check_panic_site_table, r3.check_operand_overflow, selftest("R3c-operand-overflow", "R3c-operand-overflow-abs"), _debug_effects, r3.check_division_scaling],
        "not_decided": "Knuth algorithm D (trial digit, add-back), the arithmetic of the normalisation shift (only the balance of << on the dividend and >> on the remainder around div_rem_core is decided), the single-digit division loops",
        "level_text": "Decides for every input: each of the ~390 division-family functions either tests its divisor for zero with a release-mode panic before any division "
        "work or forwards the divisor to another division function; the 9 checked division functions return None on the zero edge and reach a division only "
        "behind the non-zero edge; all Div/Rem operator forms forward with operands in order; every internal division call site divides by a provably non-zero "
        "value; and - given exact magnitude division - the truncated, floored and Euclidean conventions (div_rem, div_floor, mod_floor, div_mod_floor, "
        "div_euclid, rem_euclid, div_ceil and the checked forms) return the mathematically defined quotient/remainder terms in every sign/zero/remainder case "
        "(abstract interpretation, polynomial normal form).",
        "technique": "guard-or-forward CFG dominance analysis over the division family in dev and release; divisor non-zero provenance at call sites; abstract "
        "interpretation over the sign domain with polynomial quotient/remainder terms compared with the definitions; interprocedural def-use count of scaling shifts around the long-division core",
    },
    "C05": {
        "clauses": [guards("modulus", "exponent"), r3.check_parity_dispatch, r3.check_residue_complement, r3.check_division_sites, r3.check_add2_carry_used, both(r3.check_underflow_asserts), r1.check_biguint_normal_form, r5check.check_modular, count_ok("biguint/monty.rs", "biguint/power.rs", "bigint/power.rs", "biguint.rs", "bigint.rs", floor=100), both(r11.check_montgomery_operand_lengths), both(r11.check_montgomery_result_length), selftest("R2-count-narrowed"), r3.check_panic_site_table],
        "not_decided": "Montgomery arithmetic (montgomery's inner loops, inv_mod_alt, the window walk), plain_modpow's squaring schedule, extended Euclid",
        "level_text": "Decides: zero-modulus and negative-exponent guards exist in release builds and dominate the computation; the Montgomery path is entered only behind "
        "is_odd(modulus); every BigUint handed to montgomery in monty_modpow has exactly len(modulus) digits on every path (length typestate: reduce-then-pad "
        "for long bases, pad for short ones; montgomery returns n digits); every modulus-minus-residue complement in modpow/modinv/mod_floor is guarded by "
        "residue != 0 (the clause that exposed the modinv defect for |modulus| = 1); reductions divide by the guarded modulus; BigInt::modpow/modinv "
        "(trait-free and inherent forms) place the result in the documented interval in every sign case given an exact unsigned modpow/modinv (abstract "
        "interpretation); monty_modpow's result is normalised before it is compared or returned; no carry/borrow is dropped and no digit count is truncated in "
        "the modular code.",
        "technique": "CFG dominance of guards in dev and release, parity-dispatch and residue-complement rules over MIR; forward length-typestate dataflow over "
        "monty_modpow; abstract interpretation of the BigInt wrappers over the sign domain; must-pass-through canonicalisation analysis",
    },
    "C06": {
        "clauses": [r3.check_parse_validation_order, r7.check_bases, r7.check_formatters, r9.check_sign_readers, r5check.check_constructors, r1.check_biguint_normal_form, count_ok("biguint/convert.rs", "bigint/convert.rs", floor=100), selftest("R2-count-narrowed")],
        "not_decided": "bit-regrouping and chunked Horner/division arithmetic, the accept/reject language of the digit classifier beyond the validation order, padding "
        "(delegated to core::fmt)",
        "level_text": "Decides: text "
        "parsing strips the sign before the empty / leading-underscore rejections; both const-evaluated per-radix (base, power) tables are exactly the largest "
        "fitting powers for every radix 3..255; the ten formatter impls pass the right (non-negativity flag, prefix, radix, magnitude text, upper-casing) to "
        "Formatter::pad_integral; BigInt text export reads the sign; parsed values escape in canonical form; no digit count is truncated by a cast. (The radix-range "
        "assertions are a failure-case rule: a radix outside 2..=36 is not an input of this property, so that rule is reported under C14, C15 and - differentially - C16.)",
        "technique": T_R3 + " (validation order); const-evaluated static tables read from the compiler; MIR argument-provenance tables; normal-form escape analysis",
    },
    "C07": {
        "clauses": [guards("shift"), fam("Shl", "Shr", "BitAnd", "BitOr", "BitXor"), r5check.check_helpers, r5check.check_shifts, r5check.check_bitops, r9.check_carry_exits, selftest("R9-carry-exit"), count_ok("biguint/shift.rs", "bigint/shift.rs", "biguint/bits.rs", "bigint/bits.rs", "biguint.rs", "bigint.rs", floor=100), r1.check_biguint_normal_form, selftest("R2-count-narrowed"), r3.check_panic_site_table, r3.check_shift_amount_range, selftest("R3c-shift-range")],
        "not_decided": "running two's-complement carries and result lengths inside the nine bit helpers (decided only: a carry loop never leaves early while a carry it threads is unexamined), intra-digit shift arithmetic, bit queries (bit, trailing_zeros, "
        "count_ones) and set_bit's digit arithmetic",
        "level_text": "Decides: the negative-shift panic precedes everything else in biguint_shl/biguint_shr in release builds (comparison against T::zero() on the shift "
        "amount); every shift/bit operator form is a verified forwarder or a reviewed implementation; for all 72 BigInt shift leaves the result is sign * (|a| "
        "<< k) resp. floor semantics via shr_round_down (interpreted, including the default for amounts that do not fit u64) in every sign case; the BigInt "
        "bit-operator leaves give the result the sign that the operator yields on the operands' sign bits, handle zero operands and return canonical values.",
        "technique": "CFG dominance of the negative-shift guard (dev and release); operator forwarder classification; abstract interpretation over the sign domain of all "
        "shift leaves and the bit-operator leaves; natural-loop exit analysis with forward taint from the threaded carries (carry loops)",
    },
    "C04": {
        "clauses": [r1.check_closed_world, r1.check_biguint_normal_form, r1.check_normalize_body, r7.check_serde_tables, r9.check_eq_ord_hash, r9.check_sign_readers, r5check.check_helpers, r5check.check_constructors, r5check.check_shifts, r1.check_no_constant_cut, selftest("R1-constant-cut")],
        "not_decided": "cmp_slice's most-significant-first iteration order; canonical form of values produced by the 12 reviewed arithmetic writers (argued value-level, "
        "listed in the evidence)",
        "level_text": "Decides: the representation is written only inside the crate's closed set of writer functions (no public field, no foreign writer, feature modules "
        "included); every BigUint that escapes a writer passes normalize/normalized/biguint_from_vec after its last denormalising write on every path and is "
        "not read as a number before that; normalize strips all high zeros; every BigInt result of the ~260 interpreted bodies has NoSign exactly for zero "
        "magnitude; serde rebuilds BigInt through the canonicalising constructor; Eq/Ord/Hash of BigInt read sign and magnitude of every operand, of BigUint "
        "the digit vector; Hash reads only components that Eq compares; cmp_slice consults both lengths and both contents.",
        "technique": "must-pass-through (dominance) analysis of canonicalisation over MIR with a closed-world writer inventory; interprocedural field read-set analysis; "
        "abstract interpretation over the sign domain for BigInt results",
    },
    "C08": {
        "clauses": [r5check.check_conversions, r5check.check_tryfrom_err_carries_input, r5check.check_float_guard, r9.check_float_reads_every_digit, r9.check_float_position_tracking, _conv_narrowing, count_ok("biguint/convert.rs", "bigint/convert.rs", floor=100), selftest("R2-count-narrowed"), _conv_intermediate, _conv_signed_cast],
        "not_decided": "digit accumulation / overflow position in BigUint::to_uN, high_bits_to_u64 and float rounding (ties-to-even, infinity cut-off), from_f64's shift arithmetic, two's-complement magnitude arithmetic of From<iN>",
        "level_text": "Decides the sign-gate and ownership clauses for every input: BigInt::to_{i64,i128,u64,u128} return Some(a) exactly when a fits, including the MIN edge "
        "(|a| compared with 2^63 / 2^127 read from MIR), negative -> None for unsigned targets, zero -> Some(0); BigUint::from_iN rejects negatives; "
        "TryFrom<BigInt> for BigUint and all 24 by-value TryFrom impls for primitives hand the original value back in the error; BigUint::from_f64 rejects "
        "NaN/infinities before decoding and negative values after; no conversion casts its primitive input to a narrower integer type or through a saturating "
        "float cast; no conversion to a primitive T goes through to_X() for an X that cannot hold every value of T; no bit count is truncated before it is "
        "range-checked. Also: the digit position of to_f64/to_f32 advances by the width computed for the digit, so every later digit is a full digit for the round-to-odd test (the rule written for defect D7, fixed by d1a75b0); the digit loop (helpers inlined) leaves before the last digit only on a condition computed from the digits read - an exit decided by position alone would make the unread digits unable to set the round-to-odd bit.",
        "technique": "abstract interpretation over the sign domain (R5) + MIR def-use checks of the error closures + guard dominance; loop-exit forward taint over the float conversion's digit loop (read set); ordering-test requirement for unsigned-to-signed casts",
    },
    "C09": {
        "clauses": [r9.check_iterators, r9.check_iterator_write_sets, r9.check_exhaustion_tests_live, selftest("R9-exhaustion-test"), r9.check_sign_readers, r5check.check_constructors, r1.check_biguint_normal_form, count_ok("biguint/convert.rs", "bigint/convert.rs", "biguint/iter.rs", floor=100), selftest("R2-count-narrowed")],
        "not_decided": "byte regrouping arithmetic, two's-complement byte loops, the value sequences of the iterators beyond the read/write-set conditions and the liveness of their exhaustion tests",
        "level_text": "Decides: every U32Digits cursor method (next, next_back, len, last, count, size_hint) consults all three cursor fields, directly or through the cursor "
        "methods it calls (the rule that exposed the U32Digits::last defect), and next/next_back update all three; U64Digits methods delegate to the slice "
        "iterator; signed-byte exporters read the sign; importers (from_bytes_*, from_slice, new, from_signed_bytes_*) return canonical values with the sign "
        "placed as documented. Also: no cursor method tests a slice field for emptiness where a dominating split_last/first/last of that unmodified field has already answered Some (a constantly false exhaustion test).",
        "technique": "interprocedural field read-set analysis over MIR (necessity rule); dominance-based contradiction check of exhaustion tests",
    },
    "C10": {
        "clauses": [_c10_forwarders, _c10_signed, _c10_folds, _no_narrowing, r3.check_panic_site_table, both(r3.check_underflow_asserts), r3.check_add2_carry_used, r9.check_carry_exits, r3.check_division_scaling, r5check.check_arithmetic(None, 85), r5check.check_powers, r5check.check_upow, r3.check_operand_overflow, r5check.check_shifts, r5check.check_bitops, r5check.check_division_methods, r5check.check_roots, r5check.check_modular, r1.check_no_constant_cut, selftest("R2-operand-narrowed", "R3c-operand-overflow", "R3c-operand-overflow-abs", "R1-constant-cut", "R3c-digit-step"), both(r3.check_div_guards), r3.check_digit_step_checked, r1.check_biguint_normal_form],
        "not_decided": "digit splitting/padding inside the unsigned scalar leaves and the digit arithmetic of the leaf implementations; an operator impl that is "
        "neither a forwarder nor in the reviewed table, and a signed leaf whose body leaves the interpreter's language, are listed as undecided (notes), not shown",
        "level_text": "Every one of the ~1286 operator impl bodies is classified from its MIR: ~970 are proven pure forwarders (operands reach the callee in order - swapped "
        "only for commutative operators -, scalar promotions are value-preserving casts, the callee's result is the result, the forwarding graph is acyclic and "
        "ends in an implementation); the ~310 implementations are compared with a reviewed table, and 88 of them (the signed ones) are interpreted abstractly: "
        "in every sign/zero/order case the result term equals the operator applied to the operands; signed scalar leaves work on the unsigned magnitude; no "
        "operand is narrowed; Sum/Product are folds of add/mul from ZERO/one(). This is a for-all-inputs argument for the forwarding layer, which is what the "
        "property is about; tests sample a handful of the forms. Also: every value an operator form returns or leaves in its receiver is in canonical form (R1, attributed to the operator impls and what they reach), and no form steps a digit with checked arithmetic in place of a carry.",
        "technique": "MIR dataflow over operator impls (forwarder classification, operand provenance, cast losslessness, forwarding-graph acyclicity, reviewed leaf table) + "
        "abstract interpretation of the signed leaves over the sign domain",
    },
    "C11": {
        "clauses": [guards("root"), r6.check_cfg_taint, r3.check_division_sites, r5check.check_roots, r10.check_fixpoint_invariant, count_ok("biguint.rs", "bigint.rs", floor=100), r1.check_biguint_normal_form, selftest("R2-count-narrowed"), r3.check_float_guess_guard],
        "not_decided": "Newton convergence (assumed: fixpoint reaches the floor root from any guess), the u64 fast path, float guesses",
        "level_text": "Decides: n > 0 (zeroth root) and the imaginary-root assertions (negative with even degree, sqrt of a negative) are mandatory in release builds, test "
        "the right operands and dominate every return; BigInt roots (trait and inherent methods) carry the operand's sign; the std/no_std difference in "
        "nth_root/sqrt/cbrt is confined to the initial guess passed to fixpoint (cfg-taint over the two builds' MIR); the std-only guess unwraps from_f64 only "
        "behind is_finite() (to_f64 answers Some(INFINITY) for large values); the Newton driver recomputes the candidate after every update of the iterate - so "
        "the results cannot depend on the availability of floats given Newton convergence. Also: the std-only float guess is taken only for a finite float (is_finite(), or a bit-length test admitting at most MAX_EXP-1 bits - the constant is read from MIR), and the scaled retry keeps at most MAX_EXP-1 bits (`bits - K` with K evaluated from MIR), so the retry cannot see infinity again and recurse on an unshifted value.",
        "technique": T_R3 + "; cross-configuration MIR diff with forward taint (cfg-taint); constants of the float-guess guard and of the scaled retry evaluated from MIR and compared with MAX_EXP - 1",
    },
    "C12": {
        "clauses": [fam("Pow"), _no_narrowing, r5check.check_powers, r5check.check_upow, count_ok("biguint/power.rs", "bigint/power.rs", floor=30), r1.check_biguint_normal_form, r3.check_operand_overflow, selftest("R2-operand-narrowed", "R3c-operand-overflow", "R3c-operand-overflow-abs", "R2-count-narrowed"), r3.check_panic_site_table],
        "not_decided": "the square-and-multiply arithmetic itself",
        "level_text": "Decides: all Pow operator forms (by value / by reference, every exponent type) are verified forwarders or reviewed implementations that do not narrow "
        "the exponent; BigInt::pow gives the result the sign (-1)^e for negative bases in all 29 forms and canonical zero; the BigUint^BigUint form decides 0^0 "
        "= 1, 0^e = 0, 1^e = 1 and the panic for exponents that do not fit before any multiplication (abstract interpretation with an oracle-side case split).",
        "technique": "MIR dataflow over operator impls + abstract interpretation over the sign/parity domain",
    },
    "C13": {
        "clauses": [r3.check_division_sites, r3.check_gcd_zero_cases, r3.check_gcd_nonzero_at_shift, r5check.check_helpers, count_ok("biguint.rs", "bigint.rs", floor=100), r1.check_biguint_normal_form, selftest("R2-count-narrowed"), r3.check_panic_site_table, r3.check_digit_step_checked, selftest("R3c-digit-step"), _debug_effects],
        "not_decided": "Stein's algorithm (common power of two, subtraction loop), num-integer's generic extended_gcd loop itself, arithmetic of the multiple-of helpers",
        "level_text": "Decides: gcd returns the other operand when one is zero before Stein's loop; lcm / gcd_lcm / extended_gcd_lcm divide only by a gcd shown non-zero by a "
        "dominating test (own zero test, or the joint zero test of exactly the gcd's two arguments); BigInt::extended_gcd_lcm returns (g, x, y, l) with a*x + "
        "b*y = g modulo the Bezout relation of the extended_gcd it calls, g >= 0, g = 0 exactly for a = b = 0 and l*g = |a*b| modulo the exactness of divisions "
        "by g, in all nine sign cases; is_multiple_of takes the remainder only behind other != 0 and answers self == 0 otherwise; the BigInt wrappers (gcd, "
        "lcm, is_multiple_of, divides, is_even/is_odd, next/prev multiple, inc, dec) take magnitudes and signs as defined. Also: the two values whose trailing-zero counts give gcd's common power of two are provably non-zero at that point (forward must-analysis: is_zero tests generate, &mut uses kill, clones and moves carry the fact) - trailing_zeros() of zero counts as 0 and silently loses the factor.",
        "technique": "CFG dominance / divisor provenance over MIR; abstract interpretation over the sign domain with an uninterpreted extended_gcd and polynomial identity "
        "checking modulo its Bezout relation; forward must-dataflow (typestate) of 'value is non-zero' over gcd with helpers inlined",
    },
    "C14": {
        "clauses": [
            both(r3.check_div_guards),
            r3.check_checked_div,
            r3.check_checked_sub,
            guards(),
            both(r3.check_radix),
            both(r3.check_underflow_asserts),
            r3.check_underflow_check_sees_all_digits,
            r3.check_add2_carry_used,
            r3.check_division_sites,
            r3.check_residue_complement,
            r3.check_parity_dispatch,
            r3.check_inventory,
            r3.check_panic_site_table,
            r9.check_iterator_write_sets, both(r11.check_montgomery_operand_lengths), both(r11.check_montgomery_result_length), r3.check_operand_overflow, r3.check_digit_step_checked, selftest("R3c-operand-overflow", "R3c-operand-overflow-abs", "R3c-digit-step"), r3.check_float_guess_guard, r3.check_shift_amount_range, selftest("R3c-shift-range")],
        "not_decided": "unreachability of internal/debug assertions, primitive arithmetic overflow in debug builds, index bounds, termination, faults other than division by zero",
        "level_text": "Decides the guard discipline for every input in both profiles: every documented failure (zero divisor, underflow, negative shift, radix range, zero "
        "modulus, negative exponent, zeroth/imaginary root, empty range, zero bound) has a release-mode guard testing the right operand before the work; "
        "checked variants return None on the failure edge and reach the panicking operation only behind the excluding edge; no mandatory assertion is "
        "debug-only; debug-only code is effect-free. Also: the operand-length assertions of `montgomery` cannot trip (R11 length typestate), the scaled float-guess retry terminates (K <= MAX_EXP-1), no digit is stepped with checked arithmetic.",
        "technique": T_R3 + "; dev-vs-release panic-site inventory",
    },
    "C15": {
        "clauses": [r4.check_inventory, r4.check_block_loops, r4.check_block_loop_callers, r4.check_div_wide, r3.check_div_guards, r4.check_utf8, r4.check_raw_slice, r4.check_raw_slice_lengths],
        "not_decided": "digits < radix out of to_radix_le and ceil(b/32) <= 2*ceil(b/64) (arithmetic facts, listed as assumptions); register-level effects of the `in(reg)` block counter being decremented (observation O1, noted)",
        "level_text": "Decides for every input: the unsafe inventory is closed (3 asm blocks, 5 unsafe calls); the block loops address only [ptr + 8*idx + K] with K inside the "
        "stride, run size/stride iterations guarded by size/stride != 0, store only through the *mut operand, and both pointers cover `len` digits by "
        "construction at both call sites - hence every access is inside the operands; the hardware div is reached only with hi < divisor (dominating "
        "comparison or remainder invariant with a guarded non-zero divisor); from_utf8_unchecked sees only bytes mapped to ASCII digits/letters, '-' and "
        "reverse(); the u32 view of the u64 buffer comes from the local vec, escapes only to gen_bits, lengths depend on bit_size alone.",
        "technique": "inline-asm template data-flow analysis (reaching definitions over the instruction list) + MIR def-use/dominance at the call sites; closed-world unsafe inventory",
    },
    "C16": {
        "clauses": [r6.check_matrix, r6.check_feature_stability, r6.check_cfg_taint, r3.check_inventory, profile_diff(_guard_table, "r3_guards_profile_diff"), profile_diff(r3.check_underflow_asserts), profile_diff(r3.check_radix), profile_diff(r3.check_div_guards), r3.check_operand_overflow, r3.check_digit_step_checked, selftest("R3c-operand-overflow", "R3c-operand-overflow-abs", "R3c-digit-step"), r3.check_float_guess_guard, r3.check_shift_amount_range, selftest("R3c-shift-range"), _overflow_neg_sites],
        "not_decided": "equality of results where it rests on arithmetic (Newton fixpoint independent of the guess; float helper agreement; absence of overflow so that "
        "overflow-check and wrapping builds agree); the 32-bit-digit variants of the code are analysed through an i686 build (-Zbuild-std): one configuration in the quick tier, all in the thorough tier",
        "level_text": "Decides: all ten documented feature configurations type-check (and the i686 / 32-bit-digit build does); enabling serde/rand/quickcheck/arbitrary "
        "changes the canonical MIR of no function that exists without them (std and no_std); every function whose code differs between std and no_std lets "
        "configuration-dependent values reach only capacity estimates or the Newton initial guess, never its result or a branch that decides it; the std-only "
        "float guess is guarded by is_finite(); explicit panic sites outside debug-only code are the same in dev and release, mandatory guards are not "
        "debug-only, debug-only code is effect-free, and no exported function does overflow-checked arithmetic directly on an unconstrained caller-supplied "
        "scalar (debug panic vs release wrap). The guard rules are read differentially here: a guard that only the dev profile has (debug_assert!) is reported, a guard neither profile has is C14's. Also: no overflow-checked step on a digit (debug panics, release wraps).",
        "technique": "type checking of the 10-configuration matrix; canonical MIR fingerprints across 4 fact configurations; cfg-taint (cross-config line diff + forward dataflow); dev-vs-release inventory; guard rules read differentially between the dev and release profiles",
    },
    "C17": {
        "clauses": [r7.check_serde_tables, r6.check_feature_stability, r1.check_biguint_normal_form, r7.check_serde_hint_confined, r7.check_serde_declared_length, r7.check_serde_zero_is_empty, r3.check_operand_overflow, selftest("R3c-operand-overflow", "R3c-operand-overflow-abs")],
        "not_decided": "the u64 -> (lo, hi) split arithmetic of the emitted elements and the pair re-join in the visitor",
        "level_text": "Decides: Sign serialises as the i8 -1/0/1 and deserialises by the inverse table with an Err arm for every other byte (switch targets and promoted "
        "constants read from MIR); BigInt <-> the pair (sign, magnitude) in this order, rebuilt through the canonicalising from_biguint; deserialised BigUint "
        "digits pass biguint_from_vec; the sequence's size hint flows only into Vec::with_capacity (capped) and never into the value or the loop exit (forward "
        "taint with control dependence); the length announced to serialize_seq equals the number of elements emitted for every digit count and top-digit "
        "pattern (both evaluated from MIR); enabling serde changes no other function.",
        "technique": "MIR switch-table and constant extraction, argument provenance; forward taint with control dependence; evaluation of integer expressions read from MIR; "
        "must-pass-through canonicalisation; cross-configuration MIR fingerprints",
    },
    "C19": {
        "clauses": [r5check.check_helpers, r5check.check_constructors, r5check.check_conversions, r1.check_biguint_normal_form, r1.check_no_constant_cut, selftest("R1-constant-cut")],
        "not_decided": "is_zero <=> empty digit vector relies on the canonical-form invariant (R1, claimed under C04); from_biguint's own body (calls into digit-level code) "
        "is used as a model, its table is checked separately",
        "level_text": "Decides essentially the whole property, because it is finite: an abstract interpreter enumerates every sign case (and order / zero-ness case on demand) of "
        "Neg for Sign, Mul<Sign>, Neg, Not, abs, signum, is_positive, is_negative, abs_sub, sign, magnitude, into_parts, zero/one/default, set_zero, Ord, PartialEq, "
        "to_biguint / to_bigint / From<BigUint>, inc, dec and compares the returned term with the mathematical definition by polynomial normal form - for all magnitudes at once.",
        "technique": "abstract interpretation of MIR over the sign domain {-,0,+} with polynomial result terms, compared by normal form with oracle tables written from the definitions",
    },
    "C20": {
        "clauses": [r8.check_cost_general, r8.check_mul_calls_no_long_division, selftest("R8-mul-reaches-long-division")],
        "not_decided": "constant factors of the linear work (additions, allocation), measured operation counts, wall-clock time",
        "level_text": "Decides the property's inequalities on the work recurrence that the code implies: regime thresholds (32, 256), the 2|x| <= |y| rule and the number of "
        "recursive products per regime (2, 3, 5; maximum over CFG paths, recursion found through the call graph) are read from mac3's MIR and instantiate "
        "W(n,m); then W(2n)/W(n) <= ~3 for n = 256..8192, W(4096) < 4096^2/4 and W(n,m) <= n*m for unbalanced shapes are evaluated. Retuned thresholds "
        "that keep the inequalities pass; a fourth Karatsuba product or a useless threshold fails.",
        "technique": "recurrence extraction: dominance regions of the regime tests in MIR + call-graph reachability for recursive fan-out, evaluated symbolically in Python",
    },
    "C18": {
        "clauses": [guards("range", "bound"), r10.check_rejection_loop, r10.check_gen_bigint, r10.check_delegations, r10.check_gen_bits, r5check.check_ranges, r4.check_raw_slice_lengths, count_ok("bigrand.rs", floor=20), selftest("R2-count-narrowed"), r1.check_biguint_normal_form],
        "not_decided": "the distribution itself; big-endian word swapping (not compiled on this target); RNG quality",
        "level_text": "Decides: zero bound / empty / inverted range assertions are mandatory and compare the right operands with the right strictness; gen_biguint_below is a "
        "first-candidate rejection loop (bits = bound.bits(), strict <, candidate returned unchanged), hence every value of the range has equally many "
        "pre-images; gen_bigint re-draws zero on one outcome of a fresh bool and picks the sign by another; RandomBits and the Uniform samplers delegate with "
        "the right terms (base + below(high - low), inclusive = high + 1); gen_biguint's buffer lengths and the remainder handed to gen_bits are the right "
        "functions of bit_size (evaluated for 0..4096) and gen_bits masks only the last word. Also: every BigUint built in bigrand.rs escapes normalised (R1) - `all results are canonical`.",
        "technique": T_R3 + "; CFG/loop-structure and argument-provenance analysis of the samplers",
    },
}

# the arithmetic kernels share the rule that debug-only code must be effect free (a seeded `debug_assert!(borrow - __add2(..) == a0)`
# in div_rem_core made the release build skip the add-back: reported under the division property too, by scope)
for _p in ("C01", "C02", "C05"):
    PROPS[_p]["clauses"].append(_debug_effects)
# the two places where the crate computes something differently without std: the size estimate of the radix parser, the roots' guess
for _p in ("C06", "C11"):
    PROPS[_p]["clauses"].append(_cfg_values)
# what the clauses added in the eighth seeding round decide, per property (appended to the level texts above)
_R8_TEXT = {
    "C01": " Also (round 8): a digit loop that threads a carry or borrow leaves before the last digit only on a condition computed from every carry it threads that no later loop keeps propagating; debug-only code in the add/sub functions has no effect on state.",
    "C02": " Also (round 8): the carry loops of mac_digit/scalar_mul and of the add/sub helpers leave early only on every pending carry; debug-only code in the multiplication functions has no effect on state; inside mac3 no window of the accumulator is the receiver of an overwriting slice operation (the product is added to what the accumulator holds).",
    "C05": " Also (round 8): debug-only code in the modular functions has no effect on state (a call folded into debug_assert! is skipped in release builds).",
    "C06": " Also (round 8): in the radix parser a value computed differently with and without std (the size estimate) reaches only capacity requests, never a branch that changes the digits.",
    "C07": " Also (round 8): the rounding comparison of >> may be made in the amount's own type - a failed narrowing of the trailing-zero count then means no rounding (decided for every amount type); the two's-complement carry loops leave early only on every pending carry.",
    "C10": " Also (round 8): carry-loop exits, the rescaling balance of long division and the rounding comparison of >> as under C01/C03/C07, for every operator form that reaches them.",
    "C11": " Also (round 8): a std/no_std-dependent value in the root functions reaches only the Newton initial guess.",
    "C13": " Also (round 8): no overflow-checked step directly on a digit element, and no effect inside debug-only code, in the functions the gcd/lcm/multiple-of helpers reach.",
    "C16": " Also (round 8): no new overflow-checked negation of a signed primitive (a panic only overflow-checking builds have); a call under a configuration-dependent branch that takes `&mut x` makes x configuration-dependent.",
    "C17": " Also (round 8): no overflow-checked arithmetic directly on a deserialized integer that the visitor never compares with anything (malformed input must give Err in every build, not a debug-only panic).",
    "C03": " Also (round 8): at every call of div_rem_core the left shifts applied to the dividend equal the right shifts applied to the remainder (inside the core plus after the call, through a private wrapper if there is one), by the same amount; debug-only code in the division functions has no effect on state.",
    "C09": "",
    "C19": " Also (round 8): set_zero/set_one and the other identity helpers leave canonical values (R1: no cut of the digit vector at a constant length, no unnormalised escape).",
}
for _p, _t in _R8_TEXT.items():
    PROPS[_p]["level_text"] = PROPS[_p]["level_text"] + _t


portable(
    r1.check_closed_world, r1.check_biguint_normal_form, r1.check_normalize_body, r1.check_no_constant_cut,
    r3.check_checked_div, r3.check_checked_sub, r3.check_add2_carry_used, r3.check_division_sites, r3.check_residue_complement,
    r3.check_parity_dispatch, r3.check_underflow_check_sees_all_digits,
    r4.check_inventory, r4.check_block_loops, r4.check_block_loop_callers, r4.check_div_wide, r4.check_utf8,
    r7.check_bases, r7.check_formatters, r9.check_iterators, r9.check_eq_ord_hash, r9.check_sign_readers, r10.check_fixpoint_invariant,
)
