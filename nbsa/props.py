"""property id -> clauses (rule functions) + the honest remainder"""
from . import r2


def _c10_forwarders(ctx, res):
    r2.run(ctx, res)


def _c10_signed(ctx, res):
    r2.check_signed_leaves(ctx, res)


def _c10_folds(ctx, res):
    r2.check_folds(ctx, res)


PROPS = {
    "C10": {
        "clauses": [_c10_forwarders, _c10_signed, _c10_folds],
        "not_decided": "digit splitting/padding inside the unsigned scalar leaves and the digit arithmetic of the leaf implementations",
        "level_text": "Every one of the ~1286 operator impl bodies is classified from its MIR: ~970 are proven pure forwarders (operands reach the "
        "callee in order - swapped only for commutative operators -, scalar promotions are value-preserving casts, the callee's result is the result, "
        "the forwarding graph is acyclic and ends in an implementation); the ~310 implementations are compared with a reviewed table; signed scalar "
        "leaves must work on the unsigned magnitude; Sum/Product are folds of add/mul from ZERO/one(). This is a for-all-inputs argument for the "
        "forwarding layer, which is what the property is about; tests sample a handful of the forms.",
        "technique": "MIR dataflow over operator impls: forwarder classification, operand-provenance and cast-losslessness check, forwarding-graph acyclicity, leaf table",
    },
}
