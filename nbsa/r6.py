"""R6 - configuration matrix and feature confinement.

R6a  the ten configurations of ci/test_full.sh type-check (stable cargo check)
R6b  enabling optional features changes no body that exists without them
R6c  std-vs-no_std differences (cfg-taint): configuration dependent values reach only non-result sinks
"""
import os
import re
import shutil
import subprocess
import tempfile
from concurrent.futures import ThreadPoolExecutor

from . import core
from .core import Finding, callee, callee_fn, callee_name

_LOCAL = re.compile(r"_\d+")

POINTER_CHECKS = ("MisalignedPointerDereference", "NullPointerDereference", "InvalidEnumConstruction")

# float helpers that resolve differently with and without std but compute the same function
FLOAT_EQUIV = [
    (re.compile(r"^std::(f32|f64)::<impl (f32|f64)>::(powi|trunc|is_finite|fract|floor|ceil|abs|signum|mul_add|round)$"), r"float:\1:\3"),
    (re.compile(r"^<(f32|f64) as num_traits::float::FloatCore>::(powi|trunc|is_finite|fract|floor|ceil|abs|signum|round)$"), r"float:\1:\2"),
    (re.compile(r"^core::(f32|f64)::<impl (f32|f64)>::(powi|trunc|is_finite|fract|floor|ceil|abs|signum|round)$"), r"float:\1:\3"),
]


_CLOSURE_IDX = re.compile(r"\{closure#\d+\}")


def norm_callee(p):
    if p is None:
        return "?"
    for rx, rep in FLOAT_EQUIV:
        if rx.match(p):
            return rx.sub(rep, p)
    return p


def _noise_locals(b):
    """locals that only feed compiler-inserted pointer checks"""
    noise = set()
    work = []
    for i, t in b.terms("assert"):
        if t["msg"] in POINTER_CHECKS:
            l = core.op_local(t["cond"])
            if l is not None:
                work.append(l)
    while work:
        l = work.pop()
        if l in noise:
            continue
        ty = b.locals[l]["ty"]
        if ty not in ("bool", "usize", "*const ()"):
            continue
        noise.add(l)
        for d in b.defs().get(l, []):
            if d[0] == "assign":
                for o in core.rv_operands(d[3]["rv"]):
                    ol = core.op_local(o)
                    if ol is not None:
                        work.append(ol)
    return noise


def stmt_token(s):
    rv = s["rv"]
    txt = core.rv_str(rv)
    if rv["k"] == "aggregate" and rv.get("akind") == "closure":
        txt = "closure " + _CLOSURE_IDX.sub("{closure}", rv.get("closure", ""))
    return "S " + _LOCAL.sub("_", txt)


def term_token(t):
    k = t["k"]
    if k == "call":
        fn = callee_fn(t)
        p = norm_callee((fn.get("full") or fn.get("raw_full")) if fn else None)
        args = ",".join(_LOCAL.sub("_", core.op_str(a)) for a in t["args"])
        return "C %s(%s)" % (p, args)
    if k == "switch":
        return "W %s" % sorted(int(v) for v, _ in t["targets"])
    if k == "assert":
        return "A %s" % t["msg"]
    if k == "asm":
        return "ASM"
    return None


def canon(b):
    """configuration-independent canonical fingerprint (list of tokens in a DFS linearisation)"""
    noise = _noise_locals(b)
    out = []
    num = {}
    stack = [0]
    order = []
    seen = set()
    # DFS preorder over live, non-cleanup blocks
    while stack:
        x = stack.pop()
        if x in seen:
            continue
        seen.add(x)
        order.append(x)
        for s_ in reversed(b.succ(x)):
            stack.append(s_)
    idx = {x: i for i, x in enumerate(order)}
    for x in order:
        bl = b.blocks[x]
        toks = []
        for s in bl["stmts"]:
            if s["k"] != "assign":
                toks.append(s["k"])
                continue
            if not s["place"]["proj"] and s["place"]["local"] in noise:
                continue
            toks.append(stmt_token(s))
        t = bl.get("term")
        if t:
            if t["k"] == "assert" and t["msg"] in POINTER_CHECKS:
                pass
            else:
                tt = term_token(t)
                if tt:
                    toks.append(tt)
        out.extend(toks)
    return out


def line_tokens(b):
    """source line -> sorted token list (noise free), plus line -> [(bb, stmt index or 'T', token)]"""
    noise = _noise_locals(b)
    m = {}
    for x in b.live_blocks():
        bl = b.blocks[x]
        if bl.get("cleanup"):
            continue
        for si, s in enumerate(bl["stmts"]):
            if s["k"] != "assign":
                continue
            if not s["place"]["proj"] and s["place"]["local"] in noise:
                continue
            rv = s["rv"]
            # trivial plumbing carries no configuration information
            if rv["k"] in ("use", "ref", "copyforderef") and not (rv["k"] == "use" and rv["op"]["k"] == "const"):
                continue
            if rv["k"] == "use" and rv["op"]["k"] == "const" and rv["op"].get("ty") in ("bool", "()"):
                continue
            m.setdefault(s["span"]["line"], []).append((x, si, stmt_token(s)))
        t = bl.get("term")
        if t and not (t["k"] == "assert" and t["msg"] in POINTER_CHECKS):
            tt = term_token(t)
            if tt:
                m.setdefault(t["span"]["line"], []).append((x, "T", tt))
    return m


# ------------------------------------------------------------------------------------------


def _cargo_check(repo, flags):
    tgt = tempfile.mkdtemp(prefix="nbmatrix.", dir="/var/tmp")
    try:
        env = dict(os.environ, CARGO_TARGET_DIR=tgt, CARGO_NET_OFFLINE="true")
        env.pop("RUSTC_WORKSPACE_WRAPPER", None)
        env.pop("RUSTFLAGS", None)
        # dependencies come from a member-free template of an earlier build with the same manifest (core.seed_target); the
        # crate itself is always compiled from the tree under analysis
        tkey = core.deps_template_key(repo, "matrix", flags, "", "stable")
        seeded = core.seed_target(tgt, tkey)
        p = subprocess.run(["cargo", "check", "--offline", "--lib"] + list(flags), cwd=repo, env=env, stdout=subprocess.PIPE, stderr=subprocess.STDOUT, text=True)
        if p.returncode == 0 and not seeded:
            core.save_template(tgt, tkey)
        return p.returncode, p.stdout
    finally:
        shutil.rmtree(tgt, ignore_errors=True)


def check_matrix(ctx, res):
    repo = ctx.repo
    with ThreadPoolExecutor(max_workers=5) as ex:
        futs = {name: ex.submit(_cargo_check, repo, flags) for name, flags in core.MATRIX}
    for name, flags in core.MATRIX:
        rc, out = futs[name].result()
        if rc == 0:
            res.ok("R6a-config-build", name, {"cargo": "check --lib " + " ".join(flags)})
        else:
            errs = [l for l in out.splitlines() if l.startswith("error")]
            res.fail(
                Finding(
                    "R6a-config-build",
                    "no_std" if name.startswith("no_std") and any("E0433" in e or "std" in e for e in errs) and False else name,
                    "configuration `%s` (cargo check --lib %s) does not compile:\n%s" % (name, " ".join(flags), "\n".join(errs[:6]) or out[-600:]),
                    file="Cargo.toml",
                    line=0,
                )
            )
    res.clause("R6a: all ten feature configurations of ci/test_full.sh type-check (stable toolchain)")


def check_feature_stability(ctx, res):
    pairs = [("default", "all", "std"), ("nostd", "nostd-feat", "no_std")]
    for a, b, label in pairs:
        fa, fb = ctx.facts(a), ctx.facts(b)
        pa = {x.path: x for x in fa.bodies}
        pb = {x.path: x for x in fb.bodies}
        n = 0
        for p, body in pa.items():
            other = pb.get(p)
            if other is None:
                res.fail(Finding("R6b-feature-removes-body", "%s|%s" % (label, p), "body exists in config %s but not in %s (optional features enabled)" % (a, b), body))
                continue
            n += 1
            if canon(body) != canon(other):
                res.fail(
                    Finding(
                        "R6b-feature-changes-body",
                        "%s|%s" % (label, p),
                        "enabling the optional features (config %s vs %s) changes this function's code: an optional feature must not alter an existing operation" % (a, b),
                        body,
                    )
                )
            else:
                res.ok("R6b-feature-stable", "%s|%s" % (label, p), None, nontrivial=False)
        extra = [p for p in pb if p not in pa]
        res.count("R6b bodies compared (%s)" % label, n)
        res.count("R6b bodies only with optional features (%s)" % label, len(extra))
        res.distinct.add("R6b-feature-stable:%s" % label)
        if n < 1700:
            res.fail(Finding("R6b-anchor-lost", label, "only %d bodies compared (floor 1700)" % n, file="src/lib.rs", line=0))
    res.clause("R6b: enabling serde/rand/quickcheck/arbitrary changes the code of no function that exists without them (canonical MIR fingerprints, std and no_std)")


ABSORBERS = {
    # callee name -> argument indexes whose value provably does not influence the result
    "with_capacity": [0],
    "reserve": [1],
    "fixpoint": [0],
}


def check_cfg_taint(ctx, res):
    fs, fn_ = ctx.facts("default"), ctx.facts("nostd")

    def keyed(bodies):
        """closures are numbered per function in order of appearance, so a configuration-only closure shifts the numbers of the
        others: identify a closure by its parent and source line instead"""
        out = {}
        cnt = {}
        for x in bodies:
            if x.kind == "Closure":
                base = (x.j.get("closure_of") or x.path.rsplit("::", 1)[0], x.line)
                k_ = cnt.get(base, 0)
                cnt[base] = k_ + 1
                out["%s::{closure@%s#%d}" % (base[0], base[1], k_)] = x
            else:
                out[x.path] = x
        return out

    ps = keyed(fs.bodies)
    pn = keyed(fn_.bodies)
    sensitive = []
    for p, a in ps.items():
        b = pn.get(p)
        if b is None:
            # std-only bodies: must be std::error::Error impls (no arithmetic API)
            if a.trait in ("core::error::Error", "std::error::Error"):
                res.ok("R6c-std-only-body", p, {"kind": "Error impl"}, nontrivial=False)
            elif not a.exported():
                res.ok("R6c-std-only-body", p, {"kind": "private helper: its calls are configuration-only statements of its callers"}, nontrivial=False)
            else:
                res.fail(Finding("R6c-std-only-body", p, "function exists only with the std feature and is not an Error impl", a))
            continue
        if canon(a) != canon(b):
            sensitive.append((p, a, b))
    for p in pn:
        if p not in ps:
            res.fail(Finding("R6c-nostd-only-body", p, "function exists only without the std feature", pn[p]))
    res.count("R6c configuration-sensitive bodies (std vs no_std)", len(sensitive))
    tainted_helpers = {}  # path -> why: private functions whose *return value* is configuration-dependent
    for p, a in ps.items():
        if p not in pn and not (a.trait in ("core::error::Error", "std::error::Error")) and not a.exported():
            tainted_helpers[p] = "exists only with std"
    work = [(p, a, b, None) for (p, a, b) in sensitive]
    done_callers = set()
    rounds = 0
    while work and rounds < 6:
        rounds += 1
        nxt = []
        for p, a, b, via in work:
            la, lb = line_tokens(a), line_tokens(b)
            for (body, mine, theirs, cfg) in ((a, la, lb, "std"), (b, lb, la, "no_std")):
                # sources: tokens of this version not matched on the same line in the other version
                sources = []
                for line, toks in mine.items():
                    other = [t for (_, _, t) in theirs.get(line, [])]
                    for (x, si, tok) in toks:
                        if tok in other:
                            other.remove(tok)
                        else:
                            sources.append((x, si, tok, line))
                # calls of configuration-dependent private helpers are sources as well
                for x, t in body.calls():
                    if callee(t) in tainted_helpers and x in body.live_blocks():
                        sources.append((x, "T", "call of %s (%s)" % (callee(t).split("::")[-1], tainted_helpers[callee(t)]), t["span"]["line"]))
                bad = taint_reaches_result(body, sources)
                key = "%s|%s" % (p, cfg)
                if bad and bad[2] == "return value" and not body.exported() and body.kind != "Closure":
                    # a private helper may return a configuration-dependent value: its callers are judged instead
                    if p not in tainted_helpers:
                        tainted_helpers[p] = "returns a %s-dependent value" % cfg
                    res.ok("R6c-cfg-confined", key, {"private helper": "returns a configuration-dependent value; judged at its call sites"}, nontrivial=False)
                elif bad:
                    res.fail(
                        Finding(
                            "R6c-cfg-value-reaches-result",
                            key,
                            "a value computed by %s-only code (line %s: %s) can flow into the result of this function (%s); "
                            "configuration-dependent values may only feed capacity estimates or a Newton initial guess" % (cfg, bad[0], bad[1][:90], bad[2]),
                            body,
                            bad[0],
                        )
                    )
                else:
                    res.ok("R6c-cfg-confined", key, {"cfg_only_statements": len(sources), "sinks": "with_capacity / fixpoint guess only"})
        # callers of tainted helpers that were not analysed yet
        for p2, a2 in ps.items():
            if p2 in done_callers or p2 in tainted_helpers:
                continue
            b2 = pn.get(p2)
            if any(callee(t) in tainted_helpers for x, t in a2.calls()) or (b2 is not None and any(callee(t) in tainted_helpers for x, t in b2.calls())):
                done_callers.add(p2)
                if not any(p2 == q for q, _, _ in sensitive) or rounds > 1:
                    nxt.append((p2, a2, b2 if b2 is not None else a2, "caller"))
                elif rounds == 1:
                    nxt.append((p2, a2, b2 if b2 is not None else a2, "caller"))
        work = nxt
    if len(sensitive) > 0:
        res.assume("Newton iteration (fixpoint) converges to the same floor root from any initial guess >= the root")
        res.assume("f64::powi / trunc and their FloatCore counterparts compute identical values for the arguments used")
    res.clause("R6c: in every function whose code differs between std and no_std, configuration-dependent values reach only Vec::with_capacity or the fixpoint initial guess, never the result")
    return [p for p, _, _ in sensitive]


def taint_reaches_result(b, sources):
    """forward taint from source statements; returns (line, token, how) if taint reaches _0 / a store through a param"""
    tainted = set()
    src_of = {}
    for (x, si, tok, line) in sources:
        bl = b.blocks[x]
        if si == "T":
            t = bl["term"]
            if t["k"] == "call":
                if _absorbed(t, None):
                    continue
                d = t["dest"]["local"]
                tainted.add(d)
                src_of.setdefault(d, (line, tok))
            elif t["k"] == "switch":
                # a configuration-dependent branch: everything assigned in its region (up to the join) is tainted
                reg = _branch_region(b, x)
                if reg is None:
                    tainted.add(("branch", x))
                    src_of.setdefault(("branch", x), (line, tok))
                else:
                    for y in reg:
                        for s2 in b.blocks[y]["stmts"]:
                            if s2["k"] == "assign":
                                d = s2["place"]["local"]
                                if d not in tainted:
                                    tainted.add(d)
                                    src_of.setdefault(d, (line, tok))
                        t2 = b.blocks[y].get("term")
                        if t2 and t2["k"] == "call" and not _absorbed(t2, None):
                            d = t2["dest"]["local"]
                            if d not in tainted:
                                tainted.add(d)
                                src_of.setdefault(d, (line, tok))
        else:
            s = bl["stmts"][si]
            d = s["place"]["local"]
            tainted.add(d)
            src_of.setdefault(d, (line, tok))
    if not tainted:
        return None
    changed = True
    it = 0
    while changed and it < 50:
        changed = False
        it += 1
        for x, si, s in b.stmts():
            if s["k"] != "assign":
                continue
            srcs = _rv_locals(s["rv"])
            hit = [l for l in srcs if l in tainted]
            if hit:
                d = s["place"]["local"]
                if d not in tainted:
                    tainted.add(d)
                    src_of[d] = src_of[hit[0]]
                    changed = True
        # a tainted value that steers a branch: everything assigned under the branch is tainted; a branch that decides an exit
        # (no common join before the return) makes the result depend on it
        for x, t in b.terms("switch"):
            pl = core.op_place(t["discr"])
            if pl is None or pl["local"] not in tainted or ("seen-branch", x) in tainted:
                continue
            tainted.add(("seen-branch", x))
            changed = True
            origin = src_of[pl["local"]]
            reg = _branch_region(b, x)
            if reg is None:
                tainted.add(("branch", x))
                src_of.setdefault(("branch", x), origin)
            else:
                for y in reg:
                    for s2 in b.blocks[y]["stmts"]:
                        if s2["k"] == "assign" and s2["place"]["local"] not in tainted:
                            tainted.add(s2["place"]["local"])
                            src_of.setdefault(s2["place"]["local"], origin)
                    t2 = b.blocks[y].get("term")
                    if t2 and t2["k"] == "call" and not _absorbed(t2, None) and t2["dest"]["local"] not in tainted:
                        tainted.add(t2["dest"]["local"])
                        src_of.setdefault(t2["dest"]["local"], origin)
                    # a call under the branch that gets `&mut x` changes x only when the branch is taken (`data.push(0)`)
                    if t2 and t2["k"] == "call" and not _absorbed(t2, None):
                        for a2 in t2["args"]:
                            pl2 = core.op_place(a2)
                            if pl2 and b.local_ty(pl2["local"]).startswith("&mut"):
                                for dd in b.defs().get(pl2["local"], []):
                                    if dd[0] == "assign" and dd[3]["rv"]["k"] == "ref":
                                        rl = dd[3]["rv"]["place"]["local"]
                                        if rl not in tainted:
                                            tainted.add(rl)
                                            src_of.setdefault(rl, origin)
        for x, t in b.terms("call"):
            args_l = [core.op_place(a)["local"] for a in t["args"] if core.op_place(a)]
            hit = [l for l in args_l if l in tainted]
            if not hit:
                continue
            # absorbed arguments do not propagate
            live_hit = []
            for ai, a in enumerate(t["args"]):
                pl = core.op_place(a)
                if pl and pl["local"] in tainted and not _absorbed(t, ai):
                    live_hit.append(pl["local"])
            if not live_hit:
                continue
            d = t["dest"]["local"]
            if d not in tainted:
                tainted.add(d)
                src_of[d] = src_of[live_hit[0]]
                changed = True
            # &mut arguments of the same call may be written with tainted data
            for a in t["args"]:
                pl = core.op_place(a)
                if pl and b.local_ty(pl["local"]).startswith("&mut") and pl["local"] not in tainted:
                    # find the referent
                    for dd in b.defs().get(pl["local"], []):
                        if dd[0] == "assign" and dd[3]["rv"]["k"] == "ref":
                            rl = dd[3]["rv"]["place"]["local"]
                            if rl not in tainted:
                                tainted.add(rl)
                                src_of[rl] = src_of[live_hit[0]]
                                changed = True
    if 0 in tainted:
        ln, tok = src_of.get(0, (b.line, "?"))
        return (ln, tok, "return value")
    for x, si, s in b.stmts():
        if s["k"] == "assign" and s["place"]["proj"] and s["place"]["proj"][0]["k"] == "deref" and b.is_param(s["place"]["local"]):
            if any(l in tainted for l in _rv_locals(s["rv"])):
                l = [l for l in _rv_locals(s["rv"]) if l in tainted][0]
                ln, tok = src_of.get(l, (b.line, "?"))
                return (ln, tok, "store through parameter")
    br = [t for t in tainted if isinstance(t, tuple) and t[0] == "branch"]
    if br:
        ln, tok = src_of[br[0]]
        return (ln, tok, "configuration-dependent branch")
    return None


def _absorbed(t, ai):
    nm = callee_name(t)
    if ai is None and nm in ("new", "with_capacity") and "Vec" in (callee(t) or ""):
        return True  # an empty vector is the same value whichever branch allocates it
    if nm in ABSORBERS:
        if ai is None:
            return False
        return ai in ABSORBERS[nm]
    return False


def _rv_locals(rv):
    out = []
    for o in core.rv_operands(rv):
        pl = core.op_place(o)
        if pl:
            out.append(pl["local"])
            for e in pl["proj"]:
                if e["k"] == "index":
                    out.append(e["local"])
    if rv["k"] in ("ref", "rawptr", "copyforderef", "discriminant"):
        out.append(rv["place"]["local"])
    return out


def _branch_region(b, x):
    """blocks control-dependent on switch block x: reachable from x before its immediate post-dominator.
    None if some path from x returns without a common join (the branch decides an exit)."""
    rets = set(b.return_blocks())
    reach = b.reachable(x)
    pd = []
    for c in reach:
        if c == x:
            continue
        r = b.reachable(x, without_blocks=[c])
        if not (r & rets):
            pd.append(c)
    if not pd:
        return None
    ip = None
    for c in pd:
        rc = b.reachable(c)
        if all(o in rc for o in pd):
            ip = c
            break
    if ip is None:
        return None
    reg = b.reachable(x, without_blocks=[ip])
    reg.discard(x)
    return reg
