#!/bin/bash
# usage: round.sh <n>   - confirm and seed-run every finished, not yet processed seed of round n (/tmp/seed<n>-Cxx/k)
N=$1
mkdir -p /tmp/confirm$N /tmp/seedrun$N
jobs_n=0
for d in /tmp/seed$N-C*/[12]; do
  [ -f $d/patch.diff ] && [ -f $d/demo.rs ] && [ -f $d/notes.md ] || continue
  p=$(basename $(dirname $d)); p=${p#seed$N-}; k=$(basename $d)
  if [ ! -f /tmp/confirm$N/$p-$k.json ]; then /verif/nbsa/confirm_seed.sh $d /tmp/confirm$N/$p-$k.json & jobs_n=$((jobs_n+1)); fi
  if [ ! -f /tmp/seedrun$N/$p-$k.txt ]; then /verif/nbsa/seedrun.sh $d/patch.diff > /tmp/seedrun$N/$p-$k.txt 2>&1 & jobs_n=$((jobs_n+1)); fi
  if [ $jobs_n -ge 8 ]; then wait; jobs_n=0; fi
done
wait
for f in /tmp/seedrun$N/*.txt; do echo "$(basename $f .txt): $(grep -c FIRES $f) props fire; $(grep FIRES $f | head -2 | cut -c1-150 | tr '\n' ' ')"; done
