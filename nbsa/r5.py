"""R5 - sign-domain abstract interpretation with polynomial results.

A small abstract interpreter over MIR.  BigInt parameters are (sign in {-,0,+}, magnitude symbol), BigUint and
unsigned scalars are magnitude symbols, signed scalars are split on demand.  Branches on finite-domain atoms fork;
any other branch makes the body 'not interpretable' (reported as undecided, never as pass).  The returned term of
every path is a polynomial that is compared with the operation's mathematical definition by normal form."""
import itertools
import sys

sys.setrecursionlimit(30000)

from . import core
from .core import callee, callee_fn, callee_name, op_const
from .poly import Poly


class Unsupported(Exception):
    pass


class PathLimit(Exception):
    pass


MAXPATHS = 600
UNSIGNED = {"u8", "u16", "u32", "u64", "u128", "usize"}
SIGNED = {"i8", "i16", "i32", "i64", "i128", "isize"}
BITS = {"8": 8, "16": 16, "32": 32, "64": 64, "128": 128, "size": 64}


def ty_bits(ty):
    return BITS.get(ty[1:], 64)


def strip_refs(ty):
    t = ty.strip()
    while t.startswith("&"):
        t = t[1:].lstrip()
        if t.startswith("'"):
            t = t.split(" ", 1)[1] if " " in t else t
        if t.startswith("mut "):
            t = t[4:]
    return t.strip()


# ------------------------------------------------------------------------------------------
# values

UNIT = ("unit",)


def MAG(p):
    return ("mag", p if isinstance(p, Poly) else Poly.const(p))


def INT(p, ty="u64"):
    return ("int", p if isinstance(p, Poly) else Poly.const(p), ty)


def SIGN(s, cond=None):
    return ("sign", s, cond)


def BOOL(b):
    return ("bool", bool(b))


def ORD(o):
    return ("ord", o)


def ENUM(adt, variant, fields=()):
    return ("enum", adt, variant, list(fields))


def STRUCT(adt, fields):
    return ("struct", adt, dict(fields))


def TUPLE(xs):
    return ("tuple", list(xs))


def PTR(cell, path=()):
    return ("ptr", cell, tuple(path))


def BIGINT(sign_val, mag_poly):
    return STRUCT("bigint::BigInt", {"sign": sign_val, "data": MAG(mag_poly)})


def OPAQUE(desc):
    return ("opaque", desc)


def bigint_value(v):
    """signed integer value (Poly) of a BigInt struct value"""
    s = v[2]["sign"]
    d = v[2]["data"]
    if s[0] != "sign" or d[0] != "mag":
        raise Unsupported("bigint with non-canonical fields")
    return d[1] * s[1]


def map_value(v, f):
    k = v[0]
    if k == "mag":
        return ("mag", f(v[1]))
    if k == "int":
        return ("int", f(v[1]), v[2])
    if k == "sign":
        if v[2] is not None:
            c = f(v[2])
            if c.is_const():
                return ("sign", v[1] if c.const_value() != 0 else 0, None)
            return ("sign", v[1], c)
        return v
    if k == "enum":
        return ("enum", v[1], v[2], [map_value(x, f) for x in v[3]])
    if k == "struct":
        return ("struct", v[1], {n: map_value(x, f) for n, x in v[2].items()})
    if k == "tuple":
        return ("tuple", [map_value(x, f) for x in v[1]])
    return v


class State:
    def __init__(self):
        self.env = {}
        self.subst = {}
        self.nz = set()  # symbols known non-zero (positive)
        self.lt = set()  # (a,b): a < b facts between magnitude polys (as repr strings)
        self.divs = []  # (X, Y, Qsym, Rsym)
        self.trace = []
        self.counter = [0]
        self.signed_split = {}  # signed symbol -> +1/-1 after split
        self.bools = {}  # opaque predicate name -> bool
        self.nzp = set()  # repr of polynomials known non-zero
        self.fid = 0  # current frame id: locals are keyed (fid, index)
        self.egcds = []  # (P, Q, gsym, xsym, ysym): extended_gcd(P, Q) = (g, x, y) with P*x + Q*y = g >= 0

    def fork(self):
        s = State()
        s.env = dict(self.env)
        s.subst = dict(self.subst)
        s.nz = set(self.nz)
        s.lt = set(self.lt)
        s.divs = list(self.divs)
        s.trace = list(self.trace)
        s.counter = self.counter
        s.signed_split = dict(self.signed_split)
        s.bools = dict(self.bools)
        s.nzp = set(self.nzp)
        s.fid = self.fid
        s.egcds = list(self.egcds)
        return s

    def fresh(self, base):
        self.counter[0] += 1
        return "%s%d" % (base, self.counter[0])

    def substitute(self, sym, poly):
        m = {sym: poly}
        f = lambda p: p.subst(m)
        self.env = {k: map_value(v, f) for k, v in self.env.items()}
        self.subst = {k: v.subst(m) for k, v in self.subst.items()}
        self.subst[sym] = poly
        self.divs = [(x.subst(m), y.subst(m), q, r) for (x, y, q, r) in self.divs]
        self.egcds = [(x.subst(m), y.subst(m), g, xs, ys) for (x, y, g, xs, ys) in self.egcds]

    def add_nz(self, sym):
        self.nz.add(sym)
        self.normalize()

    def normalize(self):
        """drop the 'zero if cond == 0' qualifier of sign values whose condition is now decided"""

        def walk(v):
            k = v[0]
            if k == "sign" and v[2] is not None:
                kz = self.known_zero(v[2])
                if kz is True:
                    return ("sign", 0, None)
                if kz is False:
                    return ("sign", v[1], None)
                return v
            if k == "enum":
                return ("enum", v[1], v[2], [walk(x) for x in v[3]])
            if k == "struct":
                return ("struct", v[1], {n: walk(x) for n, x in v[2].items()})
            if k == "tuple":
                return ("tuple", [walk(x) for x in v[1]])
            return v

        self.env = {k: walk(v) for k, v in self.env.items()}

    def apply(self, v):
        """bring a value captured earlier up to date with this state's substitutions and zero-ness facts"""
        m = self.subst
        v = map_value(v, lambda p: p.subst(m))
        tmp = State()
        tmp.env = {"v": v}
        tmp.nz, tmp.nzp, tmp.lt, tmp.subst = self.nz, self.nzp, self.lt, self.subst
        tmp.normalize()
        return tmp.env["v"]

    def known_zero(self, p):
        """True / False / None for 'polynomial p == 0' (magnitudes are >= 0)"""
        if p.is_const():
            return p.const_value() == 0
        if repr(p) in self.nzp or repr(-p) in self.nzp:
            return False
        for (a, b) in self.lt:
            # a < b  =>  b - a != 0
            if len(p.t) >= 2:
                for (x, y) in ((a, b), (b, a)):
                    pass
        if len(p.t) >= 2 and any(v < 0 for v in p.t.values()):
            pos = Poly({k: v for k, v in p.t.items() if v > 0})
            neg = -Poly({k: v for k, v in p.t.items() if v < 0})
            if (repr(neg), repr(pos)) in self.lt or (repr(pos), repr(neg)) in self.lt:
                return False
        s = p.single_symbol()
        if s and s in self.nz:
            return False
        # sum/product of non-negative symbols with positive coefficients: zero iff all zero
        if all(v > 0 for v in p.t.values()):
            # non-zero if some monomial consists solely of nz symbols
            for k in p.t:
                if k == () or all(sym in self.nz for sym, _ in k):
                    return False
        return None


# ------------------------------------------------------------------------------------------
# interpreter


class Interp:
    def __init__(self, facts, models=None, inline_depth=7):
        self.facts = facts
        self.inline_depth = inline_depth
        self.sign_discr = {}
        adt = facts.adts.get("bigint::Sign")
        if adt:
            for name, v in adt.get("discriminants", []):
                self.sign_discr[{"Minus": -1, "NoSign": 0, "Plus": 1}[name]] = int(v)
        self.cua_discr = {}
        adt = facts.adts.get("bigint::CheckedUnsignedAbs")
        if adt:
            for name, v in adt.get("discriminants", []):
                self.cua_discr[name] = int(v)
        self.unsupported = []
        self.npaths = 0

    def panic_only(self, body):
        po = getattr(body, "_panic_only", None)
        if po is None:
            from . import tests as _t

            po = set()
            rets = set(body.return_blocks())
            for x in body.live_blocks():
                if x == 0:
                    continue
                r = body.reachable(x)
                if not (r & rets) and any(core.is_panic_call(body.blocks[y]["term"]) for y in r if body.blocks[y].get("term")):
                    po.add(x)
            body._panic_only = po
        return po

    # --- places
    def read_place(self, st, pl):
        v = st.env.get((st.fid, pl["local"]))
        if v is None:
            raise Unsupported("read of uninitialised _%d" % pl["local"])
        for e in pl["proj"]:
            v = self.project(st, v, e)
        return v

    def bigval_to_struct(self, st, p):
        """(sign, magnitude) form of a BigInt value known only as a polynomial: the sign must be evident - all terms of one sign,
        or a difference P - N whose order is a recorded fact - otherwise a single opaque symbol is split by sign"""
        if not p.t:
            return BIGINT(SIGN(0), Poly())
        pos = Poly()
        neg = Poly()
        pos.t = {k_: c_ for k_, c_ in p.t.items() if c_ > 0}
        neg.t = {k_: -c_ for k_, c_ in p.t.items() if c_ < 0}
        signed_syms = [s_ for s_ in p.symbols() if s_.startswith("egcd") or (s_.startswith("I") and s_ not in st.signed_split)]
        if not signed_syms:
            if not neg.t:
                kz = st.known_zero(p)
                return BIGINT(SIGN(1) if kz is False else (SIGN(0) if kz else SIGN(1, p)), Poly() if kz else p)
            if not pos.t:
                kz = st.known_zero(neg)
                return BIGINT(SIGN(-1) if kz is False else (SIGN(0) if kz else SIGN(-1, neg)), Poly() if kz else neg)
            if (repr(neg), repr(pos)) in st.lt:
                return BIGINT(SIGN(1), p)
            if (repr(pos), repr(neg)) in st.lt:
                return BIGINT(SIGN(-1), neg - pos)
        sym = p.single_symbol()
        if sym and sym not in st.signed_split and not sym.startswith("U"):
            raise NeedFork(("signsplit", sym))
        raise Unsupported("sign of the computed BigInt value %r is not evident" % (p,))

    def project(self, st, v, e):
        k = e["k"]
        if k == "deref":
            if v[0] != "ptr":
                raise Unsupported("deref of non-pointer %s" % v[0])
            return self.load(st, v)
        if k == "field":
            if v[0] == "struct":
                nm = e.get("name")
                if nm in v[2]:
                    return v[2][nm]
                raise Unsupported("unknown field %s" % nm)
            if v[0] == "tuple":
                return v[1][e["idx"]]
            if v[0] == "enum":
                return v[3][e["idx"]]
            if v[0] == "mag":
                raise Unsupported("access to BigUint internals")
            if v[0] == "bigval":
                return self.project(st, self.bigval_to_struct(st, v[1]), e)
            raise Unsupported("field of %s" % v[0])
        if k == "downcast":
            return v
        raise Unsupported("projection %s" % k)

    def load(self, st, ptr):
        v = st.env.get(ptr[1])
        if v is None:
            raise Unsupported("dangling pointer")
        for key in ptr[2]:
            if v[0] == "struct":
                v = v[2][key]
            elif v[0] == "tuple":
                v = v[1][key]
            elif v[0] == "enum":
                v = v[3][key]
            elif v[0] == "ptr":
                v = self.load(st, v)
                # then continue with key
                if v[0] == "struct":
                    v = v[2][key]
                else:
                    raise Unsupported("path through %s" % v[0])
            else:
                raise Unsupported("path into %s" % v[0])
        return v

    def lvalue(self, st, pl):
        cell, path = (st.fid, pl["local"]), ()
        for e in pl["proj"]:
            k = e["k"]
            if k == "deref":
                cur = self.load(st, ("ptr", cell, path))
                if cur[0] != "ptr":
                    raise Unsupported("deref store through non-pointer")
                cell, path = cur[1], cur[2]
            elif k == "field":
                cur = self.load(st, ("ptr", cell, path))
                if cur[0] == "struct":
                    path = path + (e.get("name"),)
                elif cur[0] in ("tuple", "enum"):
                    path = path + (e["idx"],)
                else:
                    raise Unsupported("field store into %s" % cur[0])
            elif k == "downcast":
                pass
            else:
                raise Unsupported("store projection %s" % k)
        return cell, path

    def store(self, st, cell, path, val):
        def upd(v, path):
            if not path:
                return val
            key = path[0]
            if v[0] == "struct":
                d = dict(v[2])
                d[key] = upd(d[key], path[1:])
                return ("struct", v[1], d)
            if v[0] == "tuple":
                l = list(v[1])
                l[key] = upd(l[key], path[1:])
                return ("tuple", l)
            if v[0] == "enum":
                l = list(v[3])
                l[key] = upd(l[key], path[1:])
                return ("enum", v[1], v[2], l)
            raise Unsupported("store path into %s" % v[0])

        if not path:
            st.env[cell] = val
        else:
            cur = st.env.get(cell)
            if cur is None:
                raise Unsupported("partial store into uninitialised cell")
            st.env[cell] = upd(cur, path)

    def write_place(self, st, pl, val):
        if not pl["proj"]:
            st.env[(st.fid, pl["local"])] = val
            return
        # a field write into an uninitialised tuple/struct local: build incrementally
        cell, path = self.lvalue(st, pl)
        self.store(st, cell, path, val)

    # --- operands
    def const_value(self, st, op):
        ty = op.get("ty", "")
        if "fn" in op:
            return ("fn", op["fn"])
        if "val" in op:
            v = op["val"]
            if isinstance(v, bool):
                return BOOL(v)
            return INT(int(v), ty)
        if "deref_val" in op:
            cell = st.fresh("promoted")
            v = op["deref_val"]
            st.env[cell] = BOOL(v) if isinstance(v, bool) else INT(int(v), strip_refs(ty))
            return PTR(cell)
        if "deref_enum" in op:
            de = op["deref_enum"]
            cell = st.fresh("promoted")
            if de["adt"] == "bigint::Sign":
                st.env[cell] = SIGN({"Minus": -1, "NoSign": 0, "Plus": 1}[de["variant"]])
            elif de["adt"] == "core::cmp::Ordering":
                st.env[cell] = ORD({"Less": -1, "Equal": 0, "Greater": 1}[de["variant"]])
            else:
                st.env[cell] = ENUM(de["adt"], de["variant"], [])
            return PTR(cell)
        if "named" in op and op.get("promoted") and (ty.startswith("&[") or "; 0]" in ty):
            return OPAQUE("const " + ty)
        if "named" in op:
            n = op["named"]
            if n.endswith("BigInt::ZERO"):
                return BIGINT(SIGN(0), Poly())
            if n.endswith("BigUint::ZERO"):
                return MAG(0)
            raise Unsupported("named const %s" % n)
        if op.get("zst") or ty == "()":
            return UNIT
        if "str" in op:
            return OPAQUE("str")
        if ty.startswith("&[") or ty.startswith("&'static [") or ty.startswith("&str") or "core::fmt" in ty:
            return OPAQUE("const " + ty)
        raise Unsupported("constant of type %s" % ty)

    def eval_operand(self, st, op):
        k = op["k"]
        if k in ("copy", "move"):
            return self.read_place(st, op["place"])
        if k == "const":
            return self.const_value(st, op)
        raise Unsupported("operand %s" % k)

    # --- discriminants
    def discr_of(self, st, v, ty_hint=""):
        """returns int discriminant or raises NeedFork"""
        k = v[0]
        if k == "sign":
            if v[2] is not None:
                raise NeedFork(("zero", v[2]))
            return self.sign_discr[v[1]]
        if k == "bool":
            return int(v[1])
        if k == "ord":
            return v[1]
        if k == "enum":
            adt, var = v[1], v[2]
            if adt.endswith("Option"):
                return {"None": 0, "Some": 1}[var]
            if adt.endswith("Result"):
                return {"Ok": 0, "Err": 1}[var]
            if adt.endswith("CheckedUnsignedAbs"):
                return self.cua_discr[var]
            if adt.endswith("ControlFlow"):
                return {"Continue": 0, "Break": 1}[var]
            a_ = self.facts.adts.get(adt)
            if a_ is not None:
                for nm_, d_ in a_.get("discriminants", []):
                    if nm_ == var:
                        return int(d_)
            raise Unsupported("discriminant of %s" % adt)
        raise Unsupported("discriminant of %s" % k)

    # --- running
    def run_body(self, body, st, args, depth=0):
        """generator of outcomes: ('return', state, value) / ('panic', state, info)"""
        if len(args) != body.arg_count:
            raise Unsupported("arity mismatch calling %s" % body.path)
        caller = st.fid
        st.counter[0] += 1
        fid = st.counter[0]
        st.fid = fid
        for i, a in enumerate(args):
            st.env[(fid, i + 1)] = a
        for out in self.run_from(body, st, 0, depth, set()):
            kind, s2 = out[0], out[1]
            ret = s2.env.get((fid, 0), UNIT) if kind == "return" else None
            s2.fid = caller
            if kind == "return":
                yield ("return", s2, ret)
            else:
                yield (kind, s2, out[2] if len(out) > 2 else None)

    def run_from(self, body, st, bb, depth, visiting, steps=0, si0=0):
        while True:
            steps += 1
            if steps > 6000:
                raise Unsupported("loop or too long a path in %s" % body.path)
            if si0 == 0 and bb in self.panic_only(body):
                # every continuation of this block panics (assert!/panic! message building): no value is produced
                yield ("panic", st, "explicit panic path (bb%d)" % bb)
                return
            bl = body.blocks[bb]
            stmts = bl["stmts"]
            si = si0
            si0 = 0
            while si < len(stmts):
                s = stmts[si]
                if s["k"] == "assign":
                    try:
                        v = self.eval_rvalue(body, st, s["rv"])
                    except NeedFork as nf:
                        for s2 in self.fork_on(st, nf.what):
                            yield from self.run_from(body, s2, bb, depth, visiting, steps, si)
                        return
                    self.write_place(st, s["place"], v)
                elif s["k"] == "setdiscr":
                    raise Unsupported("SetDiscriminant")
                si += 1
            t = bl["term"]
            k = t["k"]
            if k in ("goto", "drop"):
                bb = t["target"]
                continue
            if k == "return":
                yield ("return", st)
                return
            if k == "unreachable":
                yield ("unreachable", st, "unreachable terminator")
                return
            if k == "assert":
                # overflow / bounds checks: assumed to pass (value-level, not decided here)
                bb = t["target"]
                continue
            if k == "switch":
                try:
                    v = self.eval_operand(st, t["discr"])
                    d = self.switch_value(st, v, t)
                except NeedFork as nf:
                    for s2 in self.fork_on(st, nf.what):
                        yield from self.run_from(body, s2, bb, depth, visiting, steps, len(stmts))
                    return
                tgt = t["otherwise"]
                for val, tb in t["targets"]:
                    if self.switch_match(int(val), d, t.get("discr_ty", "")):
                        tgt = tb
                bb = tgt
                continue
            if k == "call":
                if core.is_panic_call(t):
                    yield ("panic", st, core.panic_message(body, bb))
                    return
                try:
                    outs = list(self.do_call(body, st, t, depth))
                except NeedFork as nf:
                    for s2 in self.fork_on(st, nf.what):
                        yield from self.run_from(body, s2, bb, depth, visiting, steps, len(stmts))
                    return
                if t["target"] is None:
                    yield ("panic", st, "diverging call %s" % callee(t))
                    return
                for (kind, s2, val) in outs:
                    self.npaths += 1
                    if self.npaths > MAXPATHS * 50:
                        raise PathLimit()
                    if kind == "panic":
                        yield ("panic", s2, val)
                        continue
                    self.write_place(s2, t["dest"], val)
                    yield from self.run_from(body, s2, t["target"], depth, visiting, steps)
                return
            raise Unsupported("terminator %s" % k)

    def switch_match(self, val, d, dty):
        if val == d:
            return True
        if dty in SIGNED or dty.startswith("i"):
            bits = ty_bits(dty) if dty in SIGNED else 64
            return (val - d) % (1 << bits) == 0
        return False

    def switch_value(self, st, v, t):
        k = v[0]
        if k == "int":
            p = v[1]
            if p.is_const():
                return p.const_value()
            # switch on a symbolic integer: only `== 0`-style switches are finite
            vals = [int(x) for x, _ in t["targets"]]
            if vals == [0]:
                kz = st.known_zero(p)
                if kz is None:
                    raise NeedFork(("zero", p))
                return 0 if kz else 1
            raise Unsupported("switch on symbolic integer with targets %s" % vals)
        if k == "bool":
            return int(v[1])
        if k == "boolsym":
            # a branch on an undecided comparison of opaque quantities (e.g. which operand is longer): explore both ways
            if v[1] not in st.bools:
                raise NeedFork(("bool", v[1]))
            return int(st.bools[v[1]])
        return self.discr_of(st, v)

    # --- forking
    def fork_on(self, st, what):
        kind = what[0]
        self.npaths += 1
        if kind == "zero":
            p = what[1]
            sym = p.single_symbol()
            if sym is None:
                # sum / product of non-negative symbols with positive coefficients: decide one undetermined symbol
                # at a time (the caller re-evaluates known_zero afterwards)
                if not all(c > 0 for c in p.t.values()):
                    # linear term `sym - c` / `c - sym`: zero iff sym == c
                    syms = sorted(p.symbols())
                    if len(syms) == 1 and len(p.t) == 2 and p.t.get(((syms[0], 1),)) in (1, -1) and () in p.t:
                        c0 = -p.t[()] * p.t[((syms[0], 1),)]
                        if c0 >= 0:
                            a = st.fork()
                            a.substitute(syms[0], Poly.const(c0))
                            if c0 > 0:
                                a.nz.discard(syms[0])
                            a.trace.append("%s=%d" % (syms[0], c0))
                            a.normalize()
                            b = st.fork()
                            b.nzp.add(repr(p))
                            b.trace.append("%s!=%d" % (syms[0], c0))
                            return [a, b]
                    raise Unsupported("zero test of mixed-sign term %r" % (p,))
                cands = sorted(x for x in p.symbols() if x not in st.nz)
                if not cands:
                    raise Unsupported("zero test of compound term %r" % (p,))
                sym = cands[0]
            a = st.fork()
            a.substitute(sym, Poly())
            a.trace.append("%s=0" % sym)
            b = st.fork()
            b.add_nz(sym)
            b.trace.append("%s!=0" % sym)
            a.normalize()
            return [a, b]
        if kind == "signsplit":
            sym = what[1]
            a = st.fork()
            u = "U" + sym
            a.substitute(sym, Poly.sym(u))
            a.signed_split[sym] = 1
            a.trace.append("%s>=0" % sym)
            b = st.fork()
            b.substitute(sym, -Poly.sym(u))
            b.add_nz(u)
            b.signed_split[sym] = -1
            b.trace.append("%s<0" % sym)
            return [a, b]
        if kind == "cmp":
            x, y = what[1], what[2]
            outs = []
            for o in (-1, 0, 1):
                s2 = st.fork()
                s2.trace.append("cmp(%r,%r)=%d" % (x, y, o))
                if o == 0:
                    sy, sx = y.single_symbol(), x.single_symbol()
                    # (a symbol known non-zero stays non-zero under its new name)
                    if sy is not None:
                        if sy in s2.nz:
                            s2.nzp.add(repr(x))
                        s2.substitute(sy, x)
                    elif sx is not None:
                        if sx in s2.nz:
                            s2.nzp.add(repr(y))
                        s2.substitute(sx, y)
                    else:
                        raise Unsupported("equality of compound terms")
                else:
                    s2.lt.add((repr(x), repr(y)) if o < 0 else (repr(y), repr(x)))
                    # strict inequality between non-negative values: the larger one is non-zero
                    big = y if o < 0 else x
                    bs = big.single_symbol()
                    if bs:
                        s2.add_nz(bs)
                outs.append(s2)
            return outs
        if kind == "bool":
            outs = []
            for bv in (False, True):
                s2 = st.fork()
                s2.trace.append("%s=%s" % (what[1], bv))
                s2.bools[what[1]] = bv
                outs.append(s2)
            return outs
        raise Unsupported("fork %s" % kind)

    # --- rvalues
    def eval_rvalue(self, body, st, rv):
        k = rv["k"]
        if k == "use":
            return self.eval_operand(st, rv["op"])
        if k in ("ref", "rawptr"):
            pl = rv["place"]
            base = st.env.get((st.fid, pl["local"]))
            if base is not None and base[0] == "opaque":
                return base
            # pointer to the place
            if pl["proj"] and pl["proj"][0]["k"] == "deref" and len(pl["proj"]) == 1:
                v = st.env.get((st.fid, pl["local"]))
                if v is not None and v[0] == "ptr":
                    return v  # reborrow
            cell, path = self.lvalue(st, pl)
            return PTR(cell, path)
        if k == "copyforderef":
            return self.read_place(st, rv["place"])
        if k == "cast":
            v = self.eval_operand(st, rv["op"])
            ck = rv["ck"]
            if ck == "IntToInt":
                if v[0] == "bool":
                    return INT(1 if v[1] else 0, rv["to"])
                if v[0] != "int":
                    raise Unsupported("int cast of %s" % v[0])
                return self.int_cast(st, v, rv["from"], rv["to"])
            if ck.startswith("PointerCoercion") or ck == "PtrToPtr":
                return v
            raise Unsupported("cast %s" % ck)
        if k == "discriminant":
            v = self.read_place(st, rv["place"])
            return INT(self.discr_of(st, v), "isize")
        if k == "aggregate":
            ak = rv["akind"]
            ops = [self.eval_operand(st, o) for o in rv["ops"]]
            if ak == "tuple":
                return TUPLE(ops) if ops else UNIT
            if ak == "array":
                return OPAQUE("array")
            if ak == "closure":
                return ("closure", rv["closure"], ops)
            if ak == "adt":
                adt = rv["adt"]
                if adt == "bigint::Sign":
                    return SIGN({"Minus": -1, "NoSign": 0, "Plus": 1}[rv["variant"]])
                if adt == "core::cmp::Ordering":
                    return ORD({"Less": -1, "Equal": 0, "Greater": 1}[rv["variant"]])
                if adt in ("bigint::BigInt",):
                    return STRUCT(adt, dict(zip(rv["fields"], ops)))
                if adt in ("biguint::BigUint",):
                    raise Unsupported("BigUint struct literal")
                if adt.startswith("core::option::Option") or adt.startswith("core::result::Result") or adt.endswith("CheckedUnsignedAbs") or adt.endswith("ControlFlow"):
                    return ENUM(adt, rv["variant"], ops)
                if adt.endswith("TryFromBigIntError"):
                    return STRUCT(adt, dict(zip(rv["fields"], ops)))
                # any other enum of the crate (a private classification enum such as a quotient-sign or exponent class): keep the
                # variant; its discriminant is read from the type's definition
                a_ = self.facts.adts.get(adt)
                if a_ is not None and a_.get("kind") == "Enum":
                    return ENUM(adt, rv["variant"], ops)
                return STRUCT(adt, dict(zip(rv["fields"], ops)))
            raise Unsupported("aggregate %s" % ak)
        if k == "binop":
            a = self.eval_operand(st, rv["a"])
            b = self.eval_operand(st, rv["b"])
            return self.binop(st, rv["op"], a, b)
        if k == "unop":
            a = self.eval_operand(st, rv["a"])
            if rv["op"] == "Not":
                if a[0] == "bool":
                    return BOOL(not a[1])
                raise Unsupported("Not of %s" % a[0])
            if rv["op"] == "Neg":
                if a[0] == "int":
                    return INT(-a[1], a[2])
            raise Unsupported("unop %s" % rv["op"])
        raise Unsupported("rvalue %s" % k)

    def int_cast(self, st, v, frm, to):
        p = v[1]
        if p.is_const():
            c = p.const_value()
            bits = ty_bits(to)
            c &= (1 << bits) - 1
            if to in SIGNED and c >= (1 << (bits - 1)):
                c -= 1 << bits
            return INT(c, to)
        # symbolic: identity when value preserving; signed->unsigned of a split non-negative value is fine
        fs, ts = frm in SIGNED, to in SIGNED
        fb, tb = ty_bits(frm), ty_bits(to)
        if fs == ts and tb >= fb:
            return INT(p, to)
        if not fs and ts and tb > fb:
            return INT(p, to)
        if fs and not ts and tb >= fb:
            # requires p >= 0 : true when all symbols are unsigned magnitudes with positive coefficients
            if all(c > 0 for c in p.t.values()):
                return INT(p, to)
            # `x.wrapping_neg() as uN` of a negative x: p = -(-U) handled by wrapping_neg model
            raise Unsupported("signed->unsigned cast of possibly negative %r" % (p,))
        if not fs and ts and tb == fb:
            # uN -> iN same width: value preserved when < 2^(N-1); used as `(x % v) as iN` (assumed in range) -> identity
            return INT(p, to)
        raise Unsupported("narrowing cast %s->%s of symbolic value" % (frm, to))

    def binop(self, st, op, a, b):
        if a[0] == "int" and b[0] == "int":
            pa, pb = a[1], b[1]
            base = op.replace("WithOverflow", "").replace("Unchecked", "")
            if base in ("Add", "Sub", "Mul"):
                r = pa + pb if base == "Add" else (pa - pb if base == "Sub" else pa * pb)
                if op.endswith("WithOverflow"):
                    return TUPLE([INT(r, a[2]), BOOL(False)])
                return INT(r, a[2])
            if base in ("Eq", "Ne", "Lt", "Le", "Gt", "Ge"):
                d = pa - pb
                if d.is_const():
                    c = d.const_value()
                    return BOOL({"Eq": c == 0, "Ne": c != 0, "Lt": c < 0, "Le": c <= 0, "Gt": c > 0, "Ge": c >= 0}[base])
                # comparison against zero of a symbolic scalar
                if pb.is_zero() or pa.is_zero():
                    p = pa if pb.is_zero() else pb
                    flip = pa.is_zero()
                    sym = p.single_symbol()
                    if sym and sym.startswith("I") and sym not in st.signed_split:
                        raise NeedFork(("signsplit", sym))
                    nonneg = all(c > 0 for c in p.t.values())
                    neg = all(c < 0 for c in p.t.values())
                    if base in ("Eq", "Ne"):
                        kz = st.known_zero(p if nonneg else -p) if (nonneg or neg) else None
                        if kz is None:
                            if (nonneg or neg):
                                raise NeedFork(("zero", p if nonneg else -p))
                            raise Unsupported("zero comparison of mixed-sign term")
                        return BOOL(kz if base == "Eq" else not kz)
                    if nonneg or neg:
                        # p >= 0 (nonneg) or p <= 0 (neg)
                        o = base
                        if flip:
                            o = {"Lt": "Gt", "Gt": "Lt", "Le": "Ge", "Ge": "Le"}[o]
                        pp = p if nonneg else -p
                        if nonneg:
                            if o == "Ge":
                                return BOOL(True)
                            if o == "Lt":
                                return BOOL(False)
                            kz = st.known_zero(pp)
                            if kz is None:
                                raise NeedFork(("zero", pp))
                            return BOOL((not kz) if o == "Gt" else kz)
                        else:
                            if o == "Le":
                                return BOOL(True)
                            if o == "Gt":
                                return BOOL(False)
                            kz = st.known_zero(pp)
                            if kz is None:
                                raise NeedFork(("zero", pp))
                            return BOOL((not kz) if o == "Lt" else kz)
                # undecided comparison: only an error if somebody branches on it (overflow-check conditions are never branched on)
                return ("boolsym", "%s(%r,%r)" % (op, pa, pb), op, pa, pb)
            if (base == "Rem" and pb.is_const() and pb.const_value() == 2 or base == "BitAnd" and pb.is_const() and pb.const_value() == 1) and not pa.is_const():
                # parity of a scalar: the same opaque predicate that is_odd()/is_even() use
                key = "is_odd(%r)" % (pa,)
                if key not in st.bools:
                    raise NeedFork(("bool", key))
                if st.bools[key] and pa.single_symbol():
                    st.nz.add(pa.single_symbol())
                return INT(1 if st.bools[key] else 0, a[2])
            if base in ("Div", "Rem"):
                # primitive division of magnitudes -> Q/R symbols
                q, r = self.divsyms(st, pa, pb)
                return INT(q if base == "Div" else r, a[2])
            if base in ("BitAnd", "BitOr", "BitXor", "Shl", "Shr"):
                if pa.is_const() and pb.is_const():
                    x, y = pa.const_value(), pb.const_value()
                    return INT({"BitAnd": x & y, "BitOr": x | y, "BitXor": x ^ y, "Shl": x << y, "Shr": x >> y}[base], a[2])
                raise Unsupported("bit operation on symbolic scalars")
        if a[0] == "bool" and b[0] == "bool":
            if op == "Eq":
                return BOOL(a[1] == b[1])
            if op == "Ne" or op == "BitXor":
                return BOOL(a[1] != b[1])
            if op == "BitAnd":
                return BOOL(a[1] and b[1])
            if op == "BitOr":
                return BOOL(a[1] or b[1])
        if a[0] == "sign" and b[0] == "sign" and op in ("Eq", "Ne"):
            if a[2] is not None:
                raise NeedFork(("zero", a[2]))
            if b[2] is not None:
                raise NeedFork(("zero", b[2]))
            return BOOL((a[1] == b[1]) == (op == "Eq"))
        if a[0] == "ord" and b[0] == "ord" and op in ("Eq", "Ne"):
            return BOOL((a[1] == b[1]) == (op == "Eq"))
        raise Unsupported("binop %s on %s,%s" % (op, a[0], b[0]))

    def divsyms(self, st, x, y):
        kz = st.known_zero(y)
        if kz is None:
            raise NeedFork(("zero", y))
        if kz:
            raise DivByZero()
        if x.is_zero():
            return Poly(), Poly()
        for (x0, y0, q, r) in st.divs:
            if x0 == x and y0 == y:
                return Poly.sym(q).subst(st.subst), Poly.sym(r).subst(st.subst)
        n = len(st.divs)
        q, r = "Q%d" % n, "R%d" % n
        st.divs.append((x, y, q, r))
        st.lt.add((repr(Poly.sym(r)), repr(y)))
        return Poly.sym(q), Poly.sym(r)

    # --- calls
    def deref_all(self, st, v):
        n = 0
        while v[0] == "ptr" and n < 6:
            v = self.load(st, v)
            n += 1
        return v

    def do_call(self, body, st, t, depth):
        from . import r5models

        fn = callee_fn(t)
        if fn is None:
            raise Unsupported("indirect call")
        args = [self.eval_operand(st, a) for a in t["args"]]
        try:
            res = r5models.dispatch(self, body, st, t, fn, args, depth)
        except DivByZero:
            return [("panic", st, "division by zero")]
        if res is not None:
            return res
        # inline local loop-free callee
        path = fn.get("path")
        if fn.get("local") and path and depth < self.inline_depth:
            cb = self.facts.body(path)
            if cb is not None:
                outs = []
                for o in self.run_body(cb, st, args, depth + 1):
                    if o[0] == "return":
                        outs.append(("return", o[1], o[2]))
                    elif o[0] == "panic":
                        outs.append(("panic", o[1], o[2]))
                    else:
                        raise Unsupported("callee %s reaches %s" % (path, o[0]))
                return outs
        raise Unsupported("call %s" % (fn.get("full") or fn.get("raw_full")))


class NeedFork(Exception):
    def __init__(self, what):
        Exception.__init__(self, "fork")
        self.what = what


class DivByZero(Exception):
    pass
