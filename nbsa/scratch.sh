#!/bin/bash
# usage: scratch.sh <patchfile> <prop...>   - apply patch to a scratch copy of /repo, run checks there, remove it
set -e
P=$1; shift
W=$(mktemp -d /var/tmp/nbwt.XXXXXX)
trap 'rm -rf "$W"' EXIT
rsync -a --exclude target --exclude .git /repo/ "$W/"
( cd "$W" && patch -p1 -s < "$P" )
for c in "$@"; do /verif/vf check "$c" --repo "$W" || true; done
