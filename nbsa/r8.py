"""R8 - recurrence extraction for the cost of multiplication (C20).

From mac3's MIR: regime tests on the shorter operand's length, number of recursive products per regime (max over
paths, through the call graph), and the split divisors.  The extracted parameters instantiate the work recurrence
W(n, m) (elementary digit multiplications = total row length of mac_digit calls) and the property's inequalities are
evaluated on it."""
import functools
import sys

from . import core, tests
from .core import Finding, callee, callee_name, op_const, op_local
from .tests import tests_of, consts_of, calls_of, params_of


def _reaches(facts, target):
    g = facts.callgraph()
    rev = {}
    for p, qs in g.items():
        for q in qs:
            rev.setdefault(q, set()).add(p)
    R = set()
    st = [target]
    while st:
        x = st.pop()
        if x in R:
            continue
        R.add(x)
        st.extend(rev.get(x, ()))
    return R


def _max_calls_on_path(b, region_entry, region, call_blocks):
    """maximum number of call_blocks on any acyclic path inside region starting at region_entry"""
    sys.setrecursionlimit(10000)
    memo = {}
    onstack = set()

    def go(x):
        if x in memo:
            return memo[x]
        if x in onstack:
            return 0
        onstack.add(x)
        best = 0
        for s in b.succ(x):
            if s in region:
                best = max(best, go(s))
        onstack.discard(x)
        memo[x] = best + (1 if x in call_blocks else 0)
        return memo[x]

    return go(region_entry)


def extract(facts):
    b = _mac3(facts)
    if b is None:
        return None, "mac3 not found"
    tl, atoms = tests_of(b)
    R = _reaches(facts, b.path)
    rec_calls = {i for i, t in b.calls() if i in b.live_blocks() and callee(t) in R}
    leaf_calls = {i for i, t in b.calls() if i in b.live_blocks() and (callee(t) or "").endswith("mac_digit")}
    # threshold tests: Le/Lt(len-derived, const)
    thr = []
    unbal = None
    for t in tl:
        c = t.cond
        if c is None or c.kind != "cmp" or c.op not in ("Le", "Lt", "Ge", "Gt"):
            continue
        if "len" not in calls_of(c.a) and "len" not in calls_of(c.b):
            continue
        ca, cb = consts_of(c.a), consts_of(c.b)
        a_is_const = not params_of(c.a) and not calls_of(c.a)
        b_is_const = not params_of(c.b) and not calls_of(c.b)
        if b_is_const and len(cb) == 1 and not a_is_const:
            T = next(iter(cb))
            if c.op == "Le":
                thr.append((T, t, t.t, t.f))
            elif c.op == "Lt":
                thr.append((T - 1, t, t.t, t.f))
            elif c.op == "Gt":
                thr.append((T, t, t.f, t.t))
            elif c.op == "Ge":
                thr.append((T - 1, t, t.f, t.t))
        elif not a_is_const and not b_is_const and "len" in calls_of(c.a) and "len" in calls_of(c.b):
            # x.len() * k <= y.len()
            k = [v for v in ca if isinstance(v, int) and v > 1]
            if c.op in ("Le", "Lt") and k:
                unbal = (k[0], t, t.t, t.f)
    thr = [x for x in thr if x[0] >= 2]
    thr.sort(key=lambda x: x[0])
    if len(thr) < 1:
        return None, "no size-threshold test on the shorter operand found"
    info = {"thresholds": [x[0] for x in thr], "unbalanced_factor": unbal[0] if unbal else None}
    # regions
    regimes = []
    rets = set(b.return_blocks())

    def region_of(entry, stops):
        return b.reachable(entry, without_blocks=list(stops))

    # schoolbook region: true edge of the smallest threshold
    T1, t1, in1, out1 = thr[0]
    reg_school = region_of(in1, [out1])
    info["schoolbook_region_recursive_calls"] = _max_calls_on_path(b, in1, reg_school, rec_calls)
    info["schoolbook_has_row_loop"] = bool(reg_school & leaf_calls)
    # every recursive call must be outside the schoolbook region and dominated by the false edge of T1
    info["recursion_guarded_by_T1"] = all(b.edge_dominates((t1.bb, out1), i) for i in rec_calls)
    cur_out = out1
    if unbal:
        k, tu, inu, outu = unbal
        reg = region_of(inu, [outu])
        info["unbalanced_calls"] = _max_calls_on_path(b, inu, reg, rec_calls)
        info["unbalanced_dominated"] = b.edge_dominates((t1.bb, out1), tu.bb)
        cur_out = outu
    fan = []
    for (T, t, tin, tout) in thr[1:]:
        reg = region_of(tin, [tout])
        fan.append((T, _max_calls_on_path(b, tin, reg, rec_calls)))
        cur_out = tout
    reg_last = b.reachable(cur_out)
    info["last_regime_calls"] = _max_calls_on_path(b, cur_out, reg_last, rec_calls)
    info["fanouts"] = fan
    # split divisors: Div(len-derived, const) inside each region
    divs = {}
    for i, si, s in b.stmts():
        rv = s.get("rv")
        if rv and rv["k"] == "binop" and rv["op"] == "Div" and op_const(rv["b"]) in (2, 3, 4, 5):
            divs.setdefault(op_const(rv["b"]), []).append(i)
    info["split_divisors"] = {k: len(v) for k, v in divs.items()}
    return info, None


def make_W(T1, unbal_k, karatsuba, toom_calls, kara_calls=3, half_calls=2):
    """work recurrence; karatsuba = upper threshold of the Karatsuba regime (None: no such regime)"""

    @functools.lru_cache(maxsize=None)
    def W(n, m):
        if n > m:
            n, m = m, n
        if n == 0:
            return 0
        if n <= T1:
            return n * m
        if unbal_k and n * unbal_k <= m:
            m2 = m // 2
            if half_calls == 2:
                return W(n, m2) + W(n, m - m2)
            return half_calls * W(n, m - m2)
        if karatsuba is not None and n <= karatsuba:
            b = n // 2
            x1, y1 = n - b, m - b
            # x1*y1, x0*y0, |x1-x0|*|y1-y0| (worst case full length)
            return W(x1, y1) + W(b, b) + (kara_calls - 2) * W(x1, y1)
        i = m // 3 + 1
        # five (toom_calls) products of operands of at most i+1 digits
        return toom_calls * W(min(n, i + 1), i + 1)

    return W


def check_cost(ctx, res, config="all"):
    facts = ctx.facts(config)
    info, err = extract(facts)
    if err:
        res.fail(Finding("R8-anchor-lost", "mac3", err, file="src/biguint/multiplication.rs", line=0))
        return
    b = _mac3(facts)
    thr = info["thresholds"]
    T1 = thr[0]
    kar = thr[1] if len(thr) > 1 else None
    fan = dict(info["fanouts"])
    kara_calls = fan.get(kar, 0) if kar is not None else 0
    toom_calls = info["last_regime_calls"]
    half_calls = info.get("unbalanced_calls", 0)
    uk = info["unbalanced_factor"]
    problems = []
    if info["schoolbook_region_recursive_calls"] != 0:
        problems.append("the schoolbook regime contains a recursive product")
    if not info["recursion_guarded_by_T1"]:
        problems.append("a recursive product is reachable for operands at or below the schoolbook threshold (no base case)")
    if uk and half_calls < 1:
        problems.append("unbalanced regime has no recursive call")
    if kar is not None and kara_calls < 1:
        problems.append("the middle regime has no recursive call")
    if toom_calls < 1:
        problems.append("the top regime has no recursive call")
    for p_ in problems:
        res.fail(Finding("R8-regime-structure", p_[:60], p_, b))
    if problems:
        return
    W = make_W(T1, uk, kar, toom_calls, kara_calls=kara_calls, half_calls=half_calls)
    res.ok("R8-extraction", "mac3", {"schoolbook_threshold": T1, "unbalanced_rule": "%d*|x| <= |y| -> %d calls on halves of y" % (uk, half_calls) if uk else None, "karatsuba_threshold": kar, "karatsuba_products": kara_calls, "top_regime_products": toom_calls})
    sys.setrecursionlimit(100000)
    # (1) doubling ratio
    worst = 0
    for n in (256, 512, 1024, 2048, 4096, 8192):
        r = W(2 * n, 2 * n) / W(n, n)
        worst = max(worst, r)
        key = "W(%d)/W(%d)" % (2 * n, n)
        if r <= 3.2:
            res.ok("R8-doubling", key, {"ratio": round(r, 3)})
        else:
            res.fail(Finding("R8-doubling", key, "doubling the operand length from %d to %d digits multiplies the elementary work by %.2f (> 3.2): growth is not Karatsuba-grade with the extracted regime parameters %s" % (n, 2 * n, r, info), b))
    # (2) 4096 x 4096 below a quarter of schoolbook
    w = W(4096, 4096)
    if w < 4096 * 4096 / 4:
        res.ok("R8-quarter", "W(4096,4096)", {"work": w, "schoolbook": 4096 * 4096, "fraction": round(w / (4096 * 4096), 4)})
    else:
        res.fail(Finding("R8-quarter", "W(4096,4096)", "the product of two 4096-digit numbers needs %d digit multiplications, not fewer than a quarter of schoolbook's %d" % (w, 4096 * 4096), b))
    # (3) unbalanced shapes never cost more than schoolbook
    # "about equal length" is not only n x n: operands a few digits or a quarter apart must be sub-quadratic too (a regime test
    # that sends every pair of unequal lengths to the split-the-longer-operand branch makes n x 5n/4 cost exactly n*m)
    for n in (1024, 4096):
        for m in (n + 2, n + n // 4, n + n // 2):
            w = rc.W(n, m)
            key = "W(%d,%d)" % (n, m)
            # Karatsuba-grade work: the property's own bound (a quarter of the schoolbook count) at 4096 digits, where today's
            # dispatch needs 8-11 %; half of it at 1024 digits (17-20 % today) so that a retuned threshold does not alarm
            lim_ = n * m / (4 if n >= 4096 else 2)
            if w < lim_:
                res.ok("R8-near-balanced-general", key, {"work": w, "fraction": round(w / (n * m), 4)})
            else:
                res.fail(Finding("R8-quarter", key, "%d x %d digits (about equal lengths) needs %d digit multiplications, not fewer than a %s of the schoolbook count %d" % (n, m, w, "quarter" if n >= 4096 else "half", n * m), b))
    for n in (40, 64, 200, 300, 1000):
        for m in (2 * n - 1, 2 * n, 64 * n):
            w = W(n, m)
            key = "W(%d,%d)" % (n, m)
            if w <= n * m:
                res.ok("R8-unbalanced", key, {"work": w, "schoolbook": n * m}, nontrivial=False)
            else:
                res.fail(Finding("R8-unbalanced", key, "unbalanced product %dx%d costs %d > schoolbook %d" % (n, m, w, n * m), b))
    res.distinct.add("R8-unbalanced:shapes")
    res.count("R8 recurrence evaluations", 6 + 1 + 15)
    res.assume("elementary work = total row length of mac_digit calls; linear-term overhead (additions, allocation) not counted")
    res.assume("recursive operand sizes follow the split divisors read from the code (halves / thirds + 1), signed middle terms at full length")
    res.clause("R8: the work recurrence implied by mac3's regime tests (thresholds, fan-outs read from MIR) satisfies doubling ratio <= ~3, W(4096) < 4096^2/4, unbalanced <= schoolbook")


# ------------------------------------------------------------------------------------------
# generalised extraction: the regime dispatch as a decision procedure over (|x|, |y|)


def _pair_local(b):
    """the local holding the (shorter, longer) pair: a 2-tuple with two definitions whose operands are each other's swap"""
    c = getattr(b, "_pair_local", False)
    if c is not False:
        return c
    out = None
    for l, ds in b.defs().items():
        if len(ds) == 2 and all(d[0] == "assign" and d[3]["rv"]["k"] == "aggregate" and d[3]["rv"].get("akind") == "tuple" and len(d[3]["rv"]["ops"]) == 2 for d in ds):
            r0 = [_slice_root(b, o) for o in ds[0][3]["rv"]["ops"]]
            r1 = [_slice_root(b, o) for o in ds[1][3]["rv"]["ops"]]
            if r0[0] != r0[1] and r0 == [r1[1], r1[0]]:
                out = l
    b._pair_local = out
    return out


def _xy_index(b, op):
    """0 if the operand is (a view of) x = pair.0, 1 for y = pair.1, else None"""
    T = _pair_local(b)
    if T is None:
        return None
    r = _slice_root(b, op)
    if r[0] == "place" and r[1] == T:
        for kind, idx in r[2]:
            if kind == "field":
                return idx
    return None


def _len_expr(b, atoms_cache, op, n, m, depth=0):
    """value of an integer operand that is an expression over len(x)=n (tuple field 0) and len(y)=m (field 1)"""
    c = op_const(op)
    if c is not None and not isinstance(c, bool):
        return c
    pl = core.op_place(op)
    if pl is None or depth > 12:
        return None
    l = pl["local"]
    ds = b.defs().get(l, [])
    if len(ds) != 1:
        return None
    d = ds[0]
    if d[0] == "call":
        t = d[2]
        if callee_name(t) == "len" and t["args"]:
            k_ = _xy_index(b, t["args"][0])
            if k_ == 0:
                return n
            if k_ == 1:
                return m
        return None
    if d[0] == "assign":
        rv = d[3]["rv"]
        if rv["k"] == "use":
            return _len_expr(b, atoms_cache, rv["op"], n, m, depth + 1)
        if rv["k"] == "binop":
            x = _len_expr(b, atoms_cache, rv["a"], n, m, depth + 1)
            y = _len_expr(b, atoms_cache, rv["b"], n, m, depth + 1)
            if x is None or y is None:
                return None
            o = rv["op"].replace("WithOverflow", "").replace("Unchecked", "")
            if o == "Add":
                return x + y
            if o == "Sub":
                return x - y
            if o == "Mul":
                return x * y
            if o == "Div":
                return x // y if y else None
            return None
    return None


def regime_at(facts, b, n, m, rec_calls, atoms_cache, tl):
    """blocks reachable for operand lengths (n, m): length tests are decided, every other branch is explored both ways"""
    tests_by_bb = {t.bb: t for t in tl if t.cond is not None and t.cond.kind == "cmp"}
    seen = set()
    stack = [0]
    while stack:
        x = stack.pop()
        if x in seen:
            continue
        seen.add(x)
        t = tests_by_bb.get(x)
        nxt = b.succ(x)
        if t is not None:
            c = t.cond
            va = _len_expr(b, atoms_cache, c.ra, n, m)
            vb = _len_expr(b, atoms_cache, c.rb, n, m)
            if va is not None and vb is not None and ("len" in calls_of(c.a) or "len" in calls_of(c.b)):
                r = {"Lt": va < vb, "Le": va <= vb, "Gt": va > vb, "Ge": va >= vb, "Eq": va == vb, "Ne": va != vb}[c.op]
                nxt = [t.t if r else t.f]
        stack.extend(nxt)
    calls = rec_calls & seen
    divs = set()
    for x in seen:
        for s in b.blocks[x]["stmts"]:
            rv = s.get("rv")
            if rv and rv["k"] == "binop" and rv["op"] == "Div" and op_const(rv["b"]) in (2, 3, 4, 5, 6, 7):
                divs.add(op_const(rv["b"]))
    x_split = False
    for x in seen:
        t = b.blocks[x]["term"]
        if t["k"] == "call" and callee_name(t) == "split_at" and t["args"]:
            if _xy_index(b, t["args"][0]) == 0:
                x_split = True
    fan = _max_calls_in(b, seen, calls)
    return {"calls": fan, "divs": divs, "x_split": x_split, "blocks": seen}


def _max_calls_in(b, region, call_blocks):
    memo = {}
    on = set()

    def go(x):
        if x in memo:
            return memo[x]
        if x in on:
            return 0
        on.add(x)
        best = 0
        for s in b.succ(x):
            if s in region:
                best = max(best, go(s))
        on.discard(x)
        memo[x] = best + (1 if x in call_blocks else 0)
        return memo[x]

    return go(0)


def _mac3(facts):
    """mac3 with its small private helpers inlined (an extracted prologue, an extracted schoolbook loop or partial-product helper
    are part of the dispatch the recurrence is read from)"""
    b = facts.body("biguint::multiplication::mac3")
    if b is None:
        return None
    c = getattr(facts, "_mac3_inl", None)
    if c is None:
        c = core.inline_private(facts, b, keep=("mac_digit", "mac3", "mul3", "sub_sign", "bigint_from_slice", "__add2", "add2", "sub2", "normalize", "normalized"))
        facts._mac3_inl = c
    return c


class Recurrence:
    def __init__(self, facts):
        self.facts = facts
        self.b = _mac3(facts)
        self.tl, self.atoms = tests_of(self.b)
        R = _reaches(facts, self.b.path)
        self.rec_calls = {i for i, t in self.b.calls() if i in self.b.live_blocks() and callee(t) in R}
        self.memo = {}
        self.sig_memo = {}
        self.unknown = None

    def signature(self, n, m):
        key = (n, m)
        if key not in self.sig_memo:
            r = regime_at(self.facts, self.b, n, m, self.rec_calls, self.atoms, self.tl)
            self.sig_memo[key] = (r["calls"], frozenset(r["divs"]), r["x_split"])
        return self.sig_memo[key]

    def W(self, n, m):
        if n > m:
            n, m = m, n
        if n <= 0:
            return 0
        key = (n, m)
        if key in self.memo:
            return self.memo[key]
        calls, divs, x_split = self.signature(n, m)
        if calls == 0:
            w = n * m
        elif divs == frozenset({2}) and not x_split:
            m2 = m // 2
            w = self.W(n, m2) + (calls - 1) * self.W(n, m - m2)
        elif divs == frozenset({2}) and x_split:
            h = n // 2
            w = self.W(h, h) + (calls - 1) * self.W(n - h, m - h)
        elif 3 in divs:
            i = m // 3 + 1
            w = calls * self.W(min(n, i + 1), i + 1)
        else:
            self.unknown = (n, m, calls, sorted(divs), x_split)
            w = calls * self.W(n, m - 1) if m > 1 else n * m
        self.memo[key] = w
        return w


def check_cost_general(ctx, res, config="all"):
    try:
        return _check_cost_general(ctx, res, config)
    except RecursionError:
        facts = ctx.facts(config)
        res.fail(Finding("R8-recurrence-diverges", "mac3", "the work recurrence read from mac3's dispatch does not terminate: for some operand lengths a recursive product is issued on operands that are not smaller (the size tests and the splits disagree)", _mac3(facts)))
        res.clause("R8: work recurrence of mac3 (diverged)")


def _check_cost_general(ctx, res, config="all"):
    """the same inequalities, on a recurrence whose regime for each (n, m) is obtained by deciding mac3's own length tests"""
    facts = ctx.facts(config)
    b = _mac3(facts)
    if b is None:
        res.fail(Finding("R8-anchor-lost", "mac3", "mac3 not found", file="src/biguint/multiplication.rs", line=0))
        return
    sys.setrecursionlimit(20000)
    rc = Recurrence(facts)
    if len(rc.rec_calls) < 3:
        res.fail(Finding("R8-anchor-lost", "recursive-calls", "only %d recursive product sites found in mac3" % len(rc.rec_calls), b))
        return
    # who may call the row routine: only mac3 (any other caller is a multiplication that bypasses the regime dispatch)
    callers = sorted({x.path for x in facts.bodies for i, t in x.calls() if (callee(t) or "").endswith("multiplication::mac_digit") and i in x.live_blocks()})
    # a private helper that is itself called only from mac3 (an extracted schoolbook loop) belongs to mac3: its call site is
    # judged by the recurrence like the loop it replaces
    def only_from_mac3(path, seen=()):
        if path == "biguint::multiplication::mac3":
            return True
        hb = facts.body(path)
        if hb is None or hb.exported() or path in seen:
            return False
        cs = {x.path for x in facts.bodies for i, t in x.calls() if callee(t) == path and i in x.live_blocks()}
        return bool(cs) and all(only_from_mac3(c, seen + (path,)) for c in cs)

    if callers and all(only_from_mac3(c) for c in callers):
        res.ok("R8-row-routine-callers", "mac_digit", {"callers": callers})
    else:
        res.fail(Finding("R8-row-routine-callers", "mac_digit", "the schoolbook row routine mac_digit is called from %s: a product computed there bypasses mac3's sub-quadratic regime dispatch" % [c for c in callers if not c.endswith("::mac3")], b))
    for n in (256, 512, 1024, 2048, 4096, 8192):
        r = rc.W(2 * n, 2 * n) / rc.W(n, n)
        key = "W(%d)/W(%d)" % (2 * n, n)
        if r <= 3.2:
            res.ok("R8-doubling-general", key, {"ratio": round(r, 3)})
        else:
            res.fail(Finding("R8-doubling", key, "with the regime decided by mac3's own length tests, doubling %d -> %d digits multiplies the elementary work by %.2f (> 3.2)" % (n, 2 * n, r), b))
    w = rc.W(4096, 4096)
    if w < 4096 * 4096 / 4:
        res.ok("R8-quarter-general", "W(4096,4096)", {"work": w, "fraction": round(w / (4096 * 4096), 4)})
    else:
        res.fail(Finding("R8-quarter", "W(4096,4096)", "4096 x 4096 digits needs %d digit multiplications, not fewer than a quarter of %d" % (w, 4096 * 4096), b))
    # "about equal length" is not only n x n: operands a few digits or a quarter apart must be sub-quadratic too (a regime test
    # that sends every pair of unequal lengths to the split-the-longer-operand branch makes n x 5n/4 cost exactly n*m)
    for n in (1024, 4096):
        for m in (n + 2, n + n // 4, n + n // 2):
            w = rc.W(n, m)
            key = "W(%d,%d)" % (n, m)
            # Karatsuba-grade work: the property's own bound (a quarter of the schoolbook count) at 4096 digits, where today's
            # dispatch needs 8-11 %; half of it at 1024 digits (17-20 % today) so that a retuned threshold does not alarm
            lim_ = n * m / (4 if n >= 4096 else 2)
            if w < lim_:
                res.ok("R8-near-balanced-general", key, {"work": w, "fraction": round(w / (n * m), 4)})
            else:
                res.fail(Finding("R8-quarter", key, "%d x %d digits (about equal lengths) needs %d digit multiplications, not fewer than a %s of the schoolbook count %d" % (n, m, w, "quarter" if n >= 4096 else "half", n * m), b))
    for n in (40, 64, 200, 300, 1000):
        for m in (2 * n - 1, 2 * n, 64 * n):
            w = rc.W(n, m)
            key = "W(%d,%d)" % (n, m)
            if w <= n * m:
                res.ok("R8-unbalanced-general", key, None, nontrivial=False)
            else:
                res.fail(Finding("R8-unbalanced", key, "unbalanced product %dx%d costs %d > schoolbook %d" % (n, m, w, n * m), b))
    if rc.unknown:
        res.fail(Finding("R8-regime-structure", "unknown-regime", "cannot derive a cost recurrence for the regime reached at lengths %s (calls=%s, split divisors=%s, x split=%s)" % (rc.unknown[:2], rc.unknown[2], rc.unknown[3], rc.unknown[4]), b))
    res.count("R8 distinct (n,m) regimes evaluated", len(rc.sig_memo))
    res.clause("R8 (general): for every (|x|,|y|) the regime is obtained by deciding mac3's own length comparisons; the resulting recurrence satisfies the same inequalities; mac_digit is called from mac3 only")


def _slice_root(b, op, depth=0):
    """identity of the slice value an operand denotes: follows single-definition moves / reborrows back to a parameter, a call
    result or a projected place; returns a hashable id"""
    for _ in range(20):
        pl = core.op_place(op)
        if pl is None:
            return ("const",)
        fields = tuple((e["k"], e.get("idx")) for e in pl["proj"] if e["k"] in ("field", "downcast"))
        if fields:
            return ("place", pl["local"], fields)
        l = pl["local"]
        if b.is_param(l):
            return ("param", l)
        ds = b.defs().get(l, [])
        if len(ds) != 1 or b.partial_defs().get(l):
            return ("local", l)
        d = ds[0]
        if d[0] == "assign" and d[3]["rv"]["k"] == "use":
            op = d[3]["rv"]["op"]
            continue
        if d[0] == "assign" and d[3]["rv"]["k"] in ("ref", "copyforderef"):
            op = {"k": "copy", "place": d[3]["rv"]["place"]}
            # strip the deref of a reborrow
            if [e["k"] for e in op["place"]["proj"]] == ["deref"]:
                op = {"k": "copy", "place": {"local": op["place"]["local"], "proj": []}}
            continue
        return ("local", l)
    return ("local", -1)


def _len_arg_root(b, op):
    """for an operand holding `len(&S)`: the identity of S"""
    l = op_local(op)
    for _ in range(6):
        if l is None:
            return None
        ds = b.defs().get(l, [])
        if len(ds) != 1:
            return None
        d = ds[0]
        if d[0] == "call" and callee_name(d[2]) == "len" and d[2]["args"]:
            return _slice_root(b, d[2]["args"][0])
        if d[0] == "assign" and d[3]["rv"]["k"] == "use":
            l = op_local(d[3]["rv"]["op"])
            continue
        return None
    return None


def check_shorter_first(ctx, res, config="all"):
    """mac3's regimes assume |x| <= |y| (Karatsuba splits y at |x|/2, Toom-3 sizes the thirds from y): x and y must be chosen by
    comparing the lengths of exactly the slices the regimes then see - no narrowing of x or y after the choice"""
    facts = ctx.facts(config)
    b = _mac3(facts)
    if b is None:
        res.fail(Finding("R8-anchor-lost", "mac3", "mac3 not found", file="src/biguint/multiplication.rs", line=0))
        return
    tl, atoms = tests_of(b)
    # the ordering test: Lt/Le/Gt/Ge between the len() of two *different* slices, whose two outcomes each build a pair
    sel = None
    ra = rb = None
    for t in tl:
        c = t.cond
        if c is not None and c.kind == "cmp" and c.op in ("Lt", "Le", "Gt", "Ge"):
            xa, xb = _len_arg_root(b, c.ra), _len_arg_root(b, c.rb)
            if xa is not None and xb is not None and xa != xb:
                sel, ra, rb = t, xa, xb
                break
    if sel is None:
        res.fail(Finding("R8-shorter-first", b.path, "no comparison of the two operand lengths that selects (shorter, longer)", b))
        return
    # tuples built on the two edges
    tups = [(i, si, s) for i, si, s in b.stmts() if s["k"] == "assign" and s["rv"]["k"] == "aggregate" and s["rv"].get("akind") == "tuple" and len(s["rv"]["ops"]) == 2 and b.block_dominates(sel.bb, i) and i in (sel.t, sel.f)]
    if len(tups) != 2:
        res.fail(Finding("R8-shorter-first", b.path, "the (shorter, longer) pair is not built directly on the two outcomes of the length comparison", b))
        return
    tl_local = tups[0][2]["place"]["local"]
    errs = []
    # shorter operand first on both edges
    c = sel.cond
    for (i, si, s) in tups:
        on_true = i == sel.t
        first = _slice_root(b, s["rv"]["ops"][0])
        second = _slice_root(b, s["rv"]["ops"][1])
        a_shorter = (c.op in ("Lt", "Le")) == on_true  # on this edge, is operand `a` of the comparison the shorter one?
        want = (ra, rb) if a_shorter else (rb, ra)
        if (first, second) != want:
            errs.append("on the %s edge of the length comparison the longer operand is put first" % ("true" if on_true else "false"))
    # x, y are not narrowed afterwards: the locals read from the pair have no other definition, and the regime tests read them
    xs = [s["place"]["local"] for i, si, s in b.stmts() if s["k"] == "assign" and s["rv"]["k"] == "use" and core.op_place(s["rv"]["op"]) and core.op_place(s["rv"]["op"])["local"] == tl_local and core.op_place(s["rv"]["op"])["proj"]]
    for x in xs:
        ds = b.defs().get(x, [])
        if len(ds) != 1:
            errs.append("operand slice `%s` is re-assigned after the (shorter, longer) choice: the regimes may see |x| > |y|" % (b.locals[x].get("name") or "_%d" % x))
    # the slices compared must be the final ones: the compared variables are not re-assigned after the comparison
    for r_ in (ra, rb):
        if r_[0] in ("param", "local"):
            for d in b.defs().get(r_[1], []):
                blk = d[1]
                if blk in b.reachable(sel.bb) and blk != sel.bb:
                    errs.append("operand %s is narrowed after the length comparison" % (b.locals[r_[1]].get("name") or r_[1]))
    if errs:
        res.fail(Finding("R8-shorter-first", b.path, "; ".join(sorted(set(errs))), b))
    else:
        res.ok("R8-shorter-first", b.path, {"selection": "lengths compared after low-zero stripping; shorter first on both edges; x, y single-assignment"})
    res.clause("C02: mac3 orders its operands (shorter, longer) by the lengths the regimes actually see (after stripping low zero digits, no later narrowing)")


def check_mul_calls_no_long_division(ctx, res, config="all"):
    """no multiplication entry point reaches the multi-digit (quadratic) division: a product that divides back costs at least
    as much as schoolbook multiplication (the Toom-3 `/ 3` is a single-digit division and is fine)"""
    facts = ctx.facts(config)
    g = facts.callgraph()
    entries = [b.path for b in facts.bodies if (b.trait in ("core::ops::Mul", "core::ops::MulAssign") and any("Big" in t for t in [b.self_ty or ""] + list(b.trait_args))) or b.path in ("biguint::multiplication::mac3", "biguint::multiplication::mul3")]
    bad_targets = {"biguint::division::div_rem_core"}
    reach = facts.reach_calls(entries)
    hit = sorted(bad_targets & reach)
    if len(entries) < 100:
        res.fail(Finding("R8-anchor-lost", "mul-entries", "only %d multiplication entry points found" % len(entries), file="src/biguint/multiplication.rs", line=0))
    if hit:
        # name one entry and the chain
        chain = None
        for e in entries:
            # BFS with parents
            prev = {e: None}
            q = [e]
            while q and chain is None:
                x = q.pop(0)
                for y in g.get(x, ()):
                    if y not in prev:
                        prev[y] = x
                        if y in bad_targets:
                            c = [y]
                            while prev[c[-1]] is not None:
                                c.append(prev[c[-1]])
                            chain = list(reversed(c))
                            break
                        q.append(y)
            if chain:
                break
        res.fail(Finding("R8-mul-reaches-long-division", "div_rem_core", "a multiplication reaches the multi-digit division: %s" % " -> ".join(p.split("::")[-1] if "impl" not in p else p for p in (chain or hit)), facts.body(chain[0]) if chain else None, file=None if chain else "src"))
    else:
        res.ok("R8-mul-no-long-division", "call-graph", {"entries": len(entries), "reachable_functions": len(reach)})
    res.clause("R8: no multiplication entry point reaches the multi-digit division (call-graph reachability, dev configuration incl. debug-only code)")


# ------------------------------------------------------------------------------------------
# mac3 accumulates: acc += b * c.  Nothing may overwrite digits of the accumulator.

_ACC_SUBSLICE = ("index_mut", "split_at_mut", "deref_mut", "as_mut", "as_mut_slice", "borrow_mut", "split_first_mut", "split_last_mut", "get_mut", "unwrap")
_ACC_OVERWRITE = ("copy_from_slice", "clone_from_slice", "fill", "fill_with", "swap_with_slice", "copy_within", "clear", "truncate", "swap")


def _acc_derived(b, seed):
    """locals that are (sub)slices of the accumulator parameter: moves, reborrows, range indexing, split_at_mut and friends"""
    der = {seed}
    changed = True
    while changed:
        changed = False
        for _, _, s in b.stmts():
            if s["k"] != "assign" or s["place"]["proj"] or s["place"]["local"] in der:
                continue
            rv = s["rv"]
            src = None
            if rv["k"] == "use" and rv["op"]["k"] != "const":
                src = rv["op"]["place"]["local"]
            elif rv["k"] == "ref":
                src = rv["place"]["local"]
            if src in der and ("&mut [" in (b.locals[s["place"]["local"]]["ty"] or "") or "(&mut [" in (b.locals[s["place"]["local"]]["ty"] or "")):
                der.add(s["place"]["local"])
                changed = True
        for _, t in b.calls():
            d = t.get("dest")
            if d is None or d["proj"] or d["local"] in der or not t["args"]:
                continue
            a0 = core.op_place(t["args"][0])
            if a0 is not None and a0["local"] in der and core.callee_name(t) in _ACC_SUBSLICE and "&mut [" in (b.locals[d["local"]]["ty"] or ""):
                der.add(d["local"])
                changed = True
                continue
            # a private helper that takes the accumulator window and hands a (narrower) window back
            if (core.callee_fn(t) or {}).get("local") and "&mut [" in (b.locals[d["local"]]["ty"] or "") and any((core.op_place(a) or {}).get("local") in der for a in t["args"]):
                der.add(d["local"])
                changed = True
    return der


def check_mac3_accumulates(ctx, res, config="all"):
    """mac3(acc, b, c) adds b*c into acc; its callers (the unbalanced split, Karatsuba, Toom-3 and mul3) rely on what acc
    already holds being kept.  Every use of a (sub)slice of `acc` inside mac3 must therefore be an accumulation: a call that
    overwrites slice contents (copy_from_slice, fill, ..) with an acc-derived receiver loses the digits that were there."""
    facts = ctx.facts(config)
    bodies = [b for b in facts.bodies if b.name == "mac3" and "multiplication" in b.path and b.kind != "Closure"]
    if not bodies:
        if config == "all":
            res.fail(Finding("R8-anchor-lost", "mac3", "mac3 not found", file="src/biguint/multiplication.rs", line=0))
        return
    b = bodies[0]
    der = _acc_derived(b, 1)
    live = b.live_blocks()
    n_uses = 0
    bad = []
    unknown = []
    for i, t in b.calls():
        if i not in live or not t["args"]:
            continue
        a0 = core.op_place(t["args"][0])
        if a0 is None or a0["local"] not in der:
            continue
        nm = core.callee_name(t)
        n_uses += 1
        if nm in _ACC_OVERWRITE:
            bad.append((t, nm))
        elif nm in _ACC_SUBSLICE or (core.callee_fn(t) or {}).get("local") or nm in ("len", "is_empty", "iter", "deref", "as_ptr", "first", "last"):
            continue
        else:
            unknown.append(nm)
    for (t, nm) in bad:
        res.fail(Finding("R8-acc-overwritten", "mac3|%s" % nm, "mac3 calls `%s` on a (sub)slice of its accumulator (line %s): the digits already accumulated there - by the first half of an unbalanced split, or by the caller - are overwritten instead of added to" % (nm, t["span"]["line"]), b, t["span"]["line"]))
    if not bad:
        res.ok("R8-acc-overwritten", "mac3", {"uses_of_acc_slices": n_uses, "acc_derived_locals": len(der)})
    for nm in sorted(set(unknown)):
        res.note("R8-acc-overwritten: mac3 hands a slice of its accumulator to `%s`, which this rule does not know - not decided" % nm)
    if config == "all" and n_uses < 5:
        res.fail(Finding("R8-anchor-lost", "mac3-acc-uses", "only %d uses of accumulator slices found in mac3 (floor 5)" % n_uses, file="src/biguint/multiplication.rs", line=0))
    res.clause("R8-acc: inside mac3 no (sub)slice of the accumulator is the receiver of an overwriting slice operation (copy_from_slice, fill, ...): the product is added to what the accumulator holds")
