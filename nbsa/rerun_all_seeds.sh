#!/bin/bash
mkdir -p /tmp/seedjson /tmp/seedrun8 /tmp/seedrun10 /tmp/seedrun12 /tmp/seedrun /tmp/seedrun2 /tmp/seedrun3 /tmp/seedrun4
n=0
for d in /verif/seeded/*/; do
  id=$(basename $d); p=${id%-*}; k=${id#*-}
  if [ $k -le 3 ]; then out=/tmp/seedrun/$p-$k.txt; elif [ $k -le 5 ]; then out=/tmp/seedrun2/$p-$((k-3)).txt; elif [ $k -le 7 ]; then out=/tmp/seedrun3/$p-$((k-5)).txt; elif [ $k -le 9 ]; then out=/tmp/seedrun4/$p-$((k-7)).txt; elif [ $k -le 11 ]; then out=/tmp/seedrun8/$p-$((k-9)).txt; elif [ $k -le 13 ]; then out=/tmp/seedrun10/$p-$((k-11)).txt; elif [ $k -le 15 ]; then out=/tmp/seedrun12/$p-$((k-13)).txt; else out=/tmp/seedrun14/$p-$((k-15)).txt; fi
  SEEDRUN_JSON=/tmp/seedjson/$id.jsonl /verif/nbsa/seedrun.sh $d/patch.diff > $out 2>&1 &
  n=$((n+1)); if [ $n -ge 10 ]; then wait; n=0; fi
done
wait
echo finished
