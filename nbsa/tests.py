"""Branch-test abstraction: every live switch of a body becomes a Test with a normalised condition
and per-edge fates; plus a taint-style 'what is this value made of' description."""
from . import core
from .core import callee, callee_fn, callee_name, op_const, op_local

NEG = {"Eq": "Ne", "Ne": "Eq", "Lt": "Ge", "Ge": "Lt", "Le": "Gt", "Gt": "Le"}
FLIP = {"Eq": "Eq", "Ne": "Ne", "Lt": "Gt", "Gt": "Lt", "Le": "Ge", "Ge": "Le"}


class Atoms:
    """Taint description of a value: which parameters (with field paths), which call results,
    which constants contributed to it."""

    def __init__(self, body):
        self.b = body
        self._memo = {}

    def of_operand(self, op, depth=0, seen=frozenset()):
        k = op["k"]
        if k == "const":
            if "fn" in op:
                return {("fn", op["fn"].get("path") or op["fn"].get("raw"))}
            if "val" in op:
                return {("const", op_const(op))}
            if "deref_val" in op:
                v = op["deref_val"]
                return {("const", int(v))}
            if "deref_enum" in op:
                de = op["deref_enum"]
                return {("enumconst", de.get("adt") if isinstance(de, dict) else None, de.get("variant") if isinstance(de, dict) else str(de))}
            if "named" in op:
                return {("named", op["named"])}
            if "str" in op:
                return {("str", op["str"])}
            return {("const", None)}
        if k in ("copy", "move"):
            return self.of_place(op["place"], depth, seen)
        return {("unknown", k)}

    def of_place(self, place, depth=0, seen=frozenset()):
        # precise projection out of a tuple/struct built by a single aggregate statement
        pr = place["proj"]
        if pr and pr[0]["k"] == "field":
            ds = self.b.defs().get(place["local"], [])
            if len(ds) == 1 and ds[0][0] == "assign" and ds[0][3]["rv"]["k"] == "aggregate" and not self.b.partial_defs().get(place["local"]):
                rv = ds[0][3]["rv"]
                idx = pr[0]["idx"]
                if rv.get("akind") in ("tuple", "adt") and idx < len(rv["ops"]) and place["local"] not in seen:
                    op = rv["ops"][idx]
                    if op["k"] in ("copy", "move"):
                        sub = dict(op["place"])
                        sub = {"local": sub["local"], "proj": list(sub["proj"]) + list(pr[1:]), "ty": place.get("ty")}
                        return self.of_place(sub, depth + 1, seen | {place["local"]})
                    return self.of_operand(op, depth + 1, seen)
        fields = tuple(e.get("name", str(e.get("idx"))) for e in place["proj"] if e["k"] == "field")
        out = set()
        for a in self.of_local(place["local"], depth, seen):
            if a[0] == "param":
                out.add(("param", a[1], a[2] + fields))
            else:
                out.add(a)
        for e in place["proj"]:
            if e["k"] == "index":
                out |= {x for x in self.of_local(e["local"], depth + 1, seen)}
        return out

    def of_local(self, l, depth=0, seen=frozenset()):
        b = self.b
        if l in seen or depth > 40:
            return set()
        if l in self._memo and not seen:
            return self._memo[l]
        seen2 = seen | {l}
        out = set()
        if b.is_param(l):
            out.add(("param", l, ()))
        for d in b.defs().get(l, []):
            if d[0] == "assign":
                out |= self.of_rvalue(d[3]["rv"], depth + 1, seen2)
            elif d[0] == "call":
                t = d[2]
                nm = callee_name(t) or "?"
                out.add(("call", nm, callee(t)))
                for a in t["args"]:
                    out |= {x for x in self.of_operand(a, depth + 1, seen2) if x[0] != "fn"}
            else:
                out.add(("asm",))
        # partial definitions (field stores) also contribute
        for d in b.partial_defs().get(l, []):
            if d[0] == "assign":
                out |= self.of_rvalue(d[3]["rv"], depth + 1, seen2)
            elif d[0] == "call":
                t = d[2]
                out.add(("call", callee_name(t) or "?", callee(t)))
                for a in t["args"]:
                    out |= {x for x in self.of_operand(a, depth + 1, seen2) if x[0] != "fn"}
        if not seen:
            self._memo[l] = out
        return out

    def of_rvalue(self, rv, depth, seen):
        k = rv["k"]
        if k in ("use", "cast", "repeat"):
            return self.of_operand(rv["op"], depth, seen)
        if k in ("ref", "rawptr", "copyforderef", "discriminant"):
            return self.of_place(rv["place"], depth, seen)
        if k == "binop":
            return self.of_operand(rv["a"], depth, seen) | self.of_operand(rv["b"], depth, seen)
        if k == "unop":
            return self.of_operand(rv["a"], depth, seen)
        if k == "aggregate":
            out = set()
            for o in rv["ops"]:
                out |= self.of_operand(o, depth, seen)
            return out
        return {("unknown", k)}


def params_of(atoms):
    return {a[1] for a in atoms if a[0] == "param"}


def calls_of(atoms):
    return {a[1] for a in atoms if a[0] == "call"}


def consts_of(atoms):
    return {a[1] for a in atoms if a[0] == "const"}


def only_from_param(atoms, p):
    """value is a function of parameter p (and constants) only"""
    ps = params_of(atoms)
    return ps == {p} and not any(a[0] in ("unknown", "asm") for a in atoms)


class Cond:
    """normalised boolean condition"""

    def __init__(self, kind, **kw):
        self.kind = kind  # 'cmp' | 'call' | 'opaque'
        self.__dict__.update(kw)

    def __repr__(self):
        if self.kind == "cmp":
            return "cmp(%s, %s, %s)" % (self.op, _short(self.a), _short(self.b))
        if self.kind == "call":
            return "%s(%s)" % (self.name, ", ".join(_short(x) for x in self.args))
        return "opaque"


def _short(atoms):
    out = []
    for a in sorted(atoms, key=str):
        if a[0] == "param":
            out.append("p%d%s" % (a[1], "." + ".".join(a[2]) if a[2] else ""))
        elif a[0] == "const":
            out.append(str(a[1]))
        elif a[0] == "call":
            out.append(a[1] + "()")
        else:
            out.append(a[0])
    return "{" + ",".join(out) + "}"


class Test:
    def __init__(self, body, bb, cond, negated, true_target, false_target, values=None, subj=None):
        self.body = body
        self.bb = bb
        self.cond = cond  # Cond (for bool tests) or None
        self.negated = negated
        self.t = true_target  # target when cond holds
        self.f = false_target
        self.values = values  # for integer switches: {value: target, 'otherwise': target}
        self.subj = subj  # atoms of the switched integer
        self.line = body.blocks[bb]["term"]["span"]["line"]
        self.macros = core.span_macros(body.blocks[bb]["term"])


def _bool_def(body, local, bb, atoms, depth=0):
    """find the defining computation of bool `local` visible at block bb: returns (Cond, negated)"""
    ds = body.defs().get(local, [])
    # prefer the definition in the same block or the unique one
    cand = [d for d in ds if d[1] == bb] or ds
    # constant defs (drop flags / cfg!) are not conditions
    cand = [d for d in cand if not (d[0] == "assign" and d[3]["rv"]["k"] == "use" and d[3]["rv"]["op"]["k"] == "const")] or cand
    if len(cand) != 1 or depth > 6:
        return Cond("opaque"), False
    d = cand[0]
    if d[0] == "call":
        t = d[2]
        args = [atoms.of_operand(a) for a in t["args"]]
        return Cond("call", name=callee_name(t), path=callee(t), args=args, term=t, bb=d[1]), False
    if d[0] == "assign":
        rv = d[3]["rv"]
        if rv["k"] == "binop" and rv["op"] in NEG:
            return Cond("cmp", op=rv["op"], a=atoms.of_operand(rv["a"]), b=atoms.of_operand(rv["b"]), ra=rv["a"], rb=rv["b"], bb=d[1]), False
        if rv["k"] == "unop" and rv["op"] == "Not":
            l = op_local(rv["a"])
            if l is not None:
                c, n = _bool_def(body, l, d[1], atoms, depth + 1)
                return c, not n
        if rv["k"] == "use":
            l = op_local(rv["op"])
            if l is not None:
                c, n = _bool_def(body, l, d[1], atoms, depth + 1)
                return c, n
            if rv["op"]["k"] == "const":
                return Cond("const", val=rv["op"].get("val")), False
    return Cond("opaque"), False


def tests_of(body):
    atoms = Atoms(body)
    out = []
    live = body.live_blocks()
    for i, t in body.terms("switch"):
        if i not in live:
            continue
        dty = t.get("discr_ty")
        m = core.switch_edges(body, i)
        if dty == "bool":
            l = op_local(t["discr"])
            if l is None:
                # a field of a tuple built by one aggregate statement (match on (a, b)): test the component
                pl = core.op_place(t["discr"])
                if pl is not None and len(pl["proj"]) == 1 and pl["proj"][0]["k"] == "field":
                    ds = body.defs().get(pl["local"], [])
                    if len(ds) == 1 and ds[0][0] == "assign" and ds[0][3]["rv"]["k"] == "aggregate" and ds[0][3]["rv"].get("akind") == "tuple":
                        ops = ds[0][3]["rv"]["ops"]
                        idx = pl["proj"][0]["idx"]
                        if idx < len(ops):
                            l = op_local(ops[idx])
            if l is None:
                continue
            cond, neg = _bool_def(body, l, i, atoms)
            f = m.get(0, m["otherwise"])
            tr = m["otherwise"] if 0 in m else m.get(1)
            if neg:
                f, tr = tr, f
            out.append(Test(body, i, cond, neg, tr, f))
        else:
            pl = core.op_place(t["discr"])
            subj = atoms.of_operand(t["discr"])
            # discriminant reads: describe the scrutinee
            out.append(Test(body, i, None, False, None, None, values=m, subj=subj))
    return out, atoms


def fate(body, target):
    """'panic' if no return is reachable from target (and a panic call is), 'return' otherwise"""
    r = body.reachable(target)
    rets = set(body.return_blocks())
    if r & rets:
        return "return"
    for b in r:
        t = body.blocks[b]["term"]
        if core.is_panic_call(t):
            return "panic"
        if t["k"] == "assert":
            pass
    # diverges without an explicit panic call (e.g. calls a `!` function)
    for b in r:
        t = body.blocks[b]["term"]
        if t["k"] == "call" and t["target"] is None:
            return "panic"
    return "diverge"


def panic_macros(body, target):
    """macro chains of the panic calls reachable from target"""
    out = []
    for b in body.reachable(target):
        t = body.blocks[b]["term"]
        if t["k"] == "call" and t["target"] is None:
            out.append(core.span_macros(t))
    return out


def dominates_returns(body, edge):
    return all(body.edge_dominates(edge, r) for r in body.return_blocks())
