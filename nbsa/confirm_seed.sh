#!/bin/bash
# usage: confirm_seed.sh <seeddir> <outfile>
# confirms in a scratch copy of /repo: suite passes with patch; demo fails with patch; demo passes without
S=$1; OUT=$2
W=$(mktemp -d /var/tmp/nbconf.XXXXXX)
trap 'rm -rf "$W"' EXIT
rsync -a --exclude target --exclude .git /repo/ "$W/src-tree/"
cd "$W/src-tree"
export CARGO_TARGET_DIR=$W/target CARGO_NET_OFFLINE=true
# flags from the demo header
FLAGS=$(grep -o -- '--features[ =][a-z,_ ]*' $S/demo.rs | head -1)
NDF=$(head -15 $S/demo.rs | grep -q -- '--no-default-features' && echo "--no-default-features" || true)
FLAGS="$FLAGS $NDF"
REL=$(grep -q -- '--release' $S/demo.rs && echo "--release" || true)
cp $S/demo.rs tests/zz_seed_demo.rs
r_clean=$(cargo test --offline $FLAGS --test zz_seed_demo 2>&1 | grep -E "^test result|error(\[|:)" | head -3 | tr '\n' ' ')
patch -p1 -s < $S/patch.diff || { echo "{\"seed\":\"$S\",\"error\":\"patch failed\"}" > $OUT; exit 0; }
r_demo=$(cargo test --offline $FLAGS --test zz_seed_demo 2>&1 | grep -E "^test result|error(\[|:)" | head -3 | tr '\n' ' ')
r_demo_rel=""
if [ -n "$REL" ]; then r_demo_rel=$(cargo test --offline --release $FLAGS --test zz_seed_demo 2>&1 | grep -E "^test result|error(\[|:)" | head -3 | tr '\n' ' '); fi
rm tests/zz_seed_demo.rs
r_suite=$(cargo test --offline 2>&1 | grep -E "^test result|error(\[|:)|FAILED" | sort | uniq -c | tr '\n' ' ')
python3 - "$S" "$OUT" "$r_clean" "$r_demo" "$r_demo_rel" "$r_suite" <<'PY'
import sys,json
s,out,clean,demo,demorel,suite=sys.argv[1:7]
json.dump({"seed":s,"demo_without_patch":clean,"demo_with_patch":demo,"demo_with_patch_release":demorel,"suite_with_patch":suite},open(out,'w'),indent=1)
PY
