"""R4 - unsafe and inline-assembly audit (C15, asm clause of C01).  No execution: reaching-definition style
reasoning over the asm template text and def-use/dominance reasoning over the surrounding MIR."""
import re

from . import core, tests
from .core import Finding, callee, callee_fn, callee_name, op_const, op_local
from .tests import Atoms, tests_of, params_of, calls_of, consts_of

STD_MACROS = ("vec", "format_args", "const_format_args", "panic", "assert", "assert_eq", "assert_ne", "debug_assert", "write", "writeln", "unreachable", "matches")

EXPECTED_UNSAFE_CALLS = {
    ("biguint::addition::__add2", "biguint::addition::schoolbook_add_assign_x86_64"),
    ("biguint::subtraction::sub2", "biguint::subtraction::schoolbook_sub_assign_x86_64"),
    ("biguint::BigUint::to_str_radix", "alloc::string::String::from_utf8_unchecked"),
    ("bigint::BigInt::to_str_radix", "alloc::string::String::from_utf8_unchecked"),
    ("<R as bigrand::RandBigInt>::gen_biguint", "core::slice::from_raw_parts_mut"),
}
EXPECTED_ASM = {
    "biguint::addition::schoolbook_add_assign_x86_64",
    "biguint::subtraction::schoolbook_sub_assign_x86_64",
    "biguint::division::div_wide",
}


def _from_std_macro(x):
    ms = core.span_macros(x)
    return any(m.lstrip("$crate:").split("::")[-1] in STD_MACROS or m.startswith("#Format") for m in ms)


def _moved_unsafe(facts, c):
    hb = facts.body(c[0])
    if hb is None or hb.exported():
        return False
    seen, work = set(), [c[0]]
    ok_roots = 0
    while work:
        x = work.pop()
        if x in seen:
            continue
        seen.add(x)
        cs = {b.path for b in facts.bodies for i, t in b.calls() if callee(t) == x and i in b.live_blocks()}
        if not cs:
            return False
        for c_ in cs:
            if (c_, c[1]) in EXPECTED_UNSAFE_CALLS:
                ok_roots += 1
            else:
                cb = facts.body(c_)
                if cb is None or cb.exported():
                    return False
                work.append(c_)
    return ok_roots > 0


def check_inventory(ctx, res, config="all"):
    facts = ctx.facts(config)
    calls = set()
    asms = set()
    for b in facts.bodies:
        for i, t in b.calls():
            fn = callee_fn(t)
            if fn and fn.get("unsafe") and not _from_std_macro(t):
                calls.add((b.path, callee(t)))
        for i, t in b.terms("asm"):
            asms.add(b.path)
        # raw pointer dereferences written by the crate
        for i, si, s in b.stmts():
            if _from_std_macro(s):
                continue
            pls = []
            if s.get("place"):
                pls.append(s["place"])
            rv = s.get("rv")
            if rv:
                for o in core.rv_operands(rv):
                    if core.op_place(o):
                        pls.append(core.op_place(o))
                if "place" in rv:
                    pls.append(rv["place"])
            for pl in pls:
                if any(e["k"] == "deref" for e in pl["proj"]) and b.local_ty(pl["local"]).startswith("*"):
                    calls.add((b.path, "<raw pointer dereference>"))
    for c in sorted(calls):
        key = "%s->%s" % c
        if c in EXPECTED_UNSAFE_CALLS:
            res.ok("R4-unsafe-inventory", key, {"kind": "unsafe call"})
        elif _moved_unsafe(facts, c):
            # the unsafe call sits in a private helper all of whose callers own this very unsafe operation in the audited
            # inventory: it was moved, and the per-site rule analyses the caller with the helper inlined
            res.ok("R4-unsafe-inventory", key, {"kind": "unsafe call", "moved_into_helper_of": "an audited caller"})
        elif c[1] in EXPECTED_ASM and (facts.body(c[0]) is not None and not facts.body(c[0]).exported()):
            # a block loop called from another private function: R4-C discovers and audits every call site of the block loops
            res.ok("R4-unsafe-inventory", key, {"kind": "unsafe call", "audited_by": "R4-asm-call-site (call sites are discovered, not listed)"})
        else:
            bb = facts.body(c[0])
            res.fail(Finding("R4-unclassified-unsafe", key, "unsafe operation outside the audited inventory: %s in %s; its memory safety is not shown" % (c[1], c[0]), bb, file=None if bb else "src"))
    for a in sorted(asms):
        if a in EXPECTED_ASM:
            res.ok("R4-unsafe-inventory", "asm:" + a, {"kind": "inline asm"})
        else:
            res.fail(Finding("R4-unclassified-unsafe", "asm:" + a, "inline assembly block outside the audited inventory in %s" % a, facts.body(a)))
    missing = [c for c in EXPECTED_UNSAFE_CALLS if c not in calls and (config not in ("default", "nostd") or "bigrand" not in c[0])]
    for c in missing:
        res.note("inventory entry %s -> %s no longer present" % c)
    nblocks = len([u for u in facts.unsafe_blocks])
    res.count("user unsafe blocks (HIR)", nblocks)
    res.count("unsafe calls", len(calls))
    res.count("asm blocks", len(asms))
    if len(asms) < 3 and config in ("all", "all-rel"):
        res.fail(Finding("R4-anchor-lost", "asm-blocks", "only %d inline asm blocks found (floor 3)" % len(asms), file="src/biguint/addition.rs", line=0))
    res.clause("R4: closed unsafe inventory - 3 inline-asm blocks, 2 calls of the unsafe block loops, 2 from_utf8_unchecked, 1 from_raw_parts_mut; nothing else")


# ------------------------------------------------------------------------------------------
# asm template parsing

MEM = re.compile(r"^qword ptr \[\{(\d+)\} \+ 8\*\{(\d+)\}(?: \+ (\d+))?\]$")
REG = re.compile(r"^\{(\d+)\}$")


def template_lines(t):
    txt = ""
    for p in t["template"]:
        if "s" in p:
            txt += p["s"]
        else:
            txt += "{%d}" % p["op"]
    return [l.strip() for l in txt.split("\n") if l.strip()]


def parse_instr(line):
    if line.endswith(":"):
        return ("label", line[:-1])
    parts = line.split(None, 1)
    mn = parts[0]
    ops = []
    if len(parts) > 1:
        ops = [o.strip() for o in parts[1].split(",")]
    return (mn, ops)


def analyse_block_loop(b, t, op_mn):
    """returns (errors, info) for an adc/sbb block loop terminator t in body b"""
    errs = []
    info = {}
    lines = template_lines(t)
    ins = [parse_instr(l) for l in lines]
    operands = t["operands"]
    # operand roles
    ptrs = {}
    count = idx = carry = None
    temps = []
    for k, o in enumerate(operands):
        cl = o["class"]
        if cl == "in":
            ty = (core.op_place(o["value"]) or {}).get("ty", "")
            if ty.startswith("*mut"):
                ptrs[k] = "mut"
            elif ty.startswith("*const"):
                ptrs[k] = "const"
            elif ty == "usize":
                count = k
            else:
                errs.append("unexpected input operand %d of type %s" % (k, ty))
        elif cl == "inout":
            idx = k
        elif cl == "out":
            if o["late"]:
                carry = k
            else:
                temps.append(k)
                if o.get("place") is not None:
                    errs.append("temporary operand %d is bound to a place" % k)
    if len(ptrs) != 2 or sorted(ptrs.values()) != ["const", "mut"]:
        errs.append("expected one *mut and one *const pointer input")
        return errs, info
    if count is None or idx is None or carry is None:
        errs.append("missing count / index / carry operand")
        return errs, info
    pm = [k for k, v in ptrs.items() if v == "mut"][0]
    pc = [k for k, v in ptrs.items() if v == "const"][0]
    # A6 operand classes / options
    if operands[carry]["reg"].find("reg_byte") < 0:
        errs.append("carry output is not a byte register")
    opts = t["options"]
    for badopt in ("NOMEM", "READONLY", "PURE", "PRESERVES_FLAGS"):
        if badopt in opts:
            errs.append("asm option %s is unsound for a block that writes memory and flags" % badopt.lower())
    iv = operands[idx]["value"]
    # A1 instruction set
    # `lea idx, [idx + K]` advances the index without touching any flag (unlike `add`, which would destroy the carry chain)
    allowed = {"clc", "mov", op_mn, "inc", "dec", "jnz", "setc", "label", "lea"}
    for mn, ops in ins:
        if mn not in allowed:
            errs.append("unexpected instruction `%s`" % mn)
    if errs:
        return errs, info
    # structure
    if ins[0][0] != "clc":
        errs.append("the carry flag is not cleared (clc) before the loop")
    labels = [i for i, (mn, ops) in enumerate(ins) if mn == "label"]
    jnzs = [i for i, (mn, ops) in enumerate(ins) if mn == "jnz"]
    if len(labels) != 1 or len(jnzs) != 1 or not (labels[0] < jnzs[0]):
        errs.append("expected exactly one label followed by one backward jnz")
        return errs, info
    lab, jz = labels[0], jnzs[0]
    if ins[jz][1] != [ins[lab][1] + "b"]:
        errs.append("jnz does not jump back to the loop label")
    if any(mn != "clc" for mn, _ in ins[:lab]):
        errs.append("instructions other than clc precede the loop label")
    body = ins[lab + 1 : jz]
    tail = ins[jz + 1 :]
    # dec count is the last flag writer before jnz
    if not body or body[-1] != ("dec", ["{%d}" % count]):
        errs.append("`dec {count}` is not the instruction immediately before jnz (ZF would not reflect the block counter)")
    S = sum(1 for mn, ops in body if mn == "inc" and ops == ["{%d}" % idx])
    LEA = re.compile(r"^\[\{(\d+)\}\s*\+\s*(\d+)\]$")
    for mn, ops in body:
        if mn == "lea":
            m_ = LEA.match(ops[1]) if len(ops) == 2 else None
            if ops[0] == "{%d}" % idx and m_ and int(m_.group(1)) == idx:
                S += int(m_.group(2))
            else:
                errs.append("lea is used for something other than advancing the index by a constant (`lea %s`)" % ", ".join(ops))
    # the index may only move after the last memory access of the block (the offsets below are relative to its value at the label)
    upd = [i for i, (mn, ops) in enumerate(body) if mn in ("inc", "lea") and ops and ops[0] == "{%d}" % idx]
    mem = [i for i, (mn, ops) in enumerate(body) if mn == "mov"]
    if upd and mem and min(upd) < max(mem):
        errs.append("the index is advanced before the last load/store of the block")
    incs_other = [ops for mn, ops in body if mn == "inc" and ops != ["{%d}" % idx]]
    if incs_other:
        errs.append("inc applied to a register other than the index")
    decs = [ops for mn, ops in body if mn == "dec"]
    if decs != [["{%d}" % count]]:
        errs.append("dec must be applied exactly once, to the block counter")
    info["stride"] = S
    loads = {}  # temp -> (ptr, K)
    stores = []  # (ptr, K, temp)
    ariths = []  # (dst temp, src temp)
    seen_arith = False
    order = []
    for mn, ops in body:
        if mn == "mov":
            m0, m1 = MEM.match(ops[0]), MEM.match(ops[1])
            r0, r1 = REG.match(ops[0]), REG.match(ops[1])
            if r0 and m1:
                p, i, kk = int(m1.group(1)), int(m1.group(2)), int(m1.group(3) or 0)
                if i != idx or p not in ptrs:
                    errs.append("load address `%s` is not [pointer + 8*index + K]" % ops[1])
                    continue
                tmp = int(r0.group(1))
                if tmp not in temps:
                    errs.append("load into operand %d which is not an early-clobber temporary" % tmp)
                if seen_arith:
                    errs.append("load after the carry chain started")
                loads[tmp] = (p, kk)
            elif m0 and r1:
                p, i, kk = int(m0.group(1)), int(m0.group(2)), int(m0.group(3) or 0)
                if i != idx or p not in ptrs:
                    errs.append("store address `%s` is not [pointer + 8*index + K]" % ops[0])
                    continue
                stores.append((p, kk, int(r1.group(1))))
            else:
                errs.append("unsupported mov form `%s`" % ", ".join(ops))
        elif mn == op_mn:
            seen_arith = True
            r0, r1 = REG.match(ops[0]), REG.match(ops[1])
            if not (r0 and r1):
                errs.append("%s with a non-register operand" % op_mn)
                continue
            ariths.append((int(r0.group(1)), int(r1.group(1))))
    # A2 offsets
    want = [8 * j for j in range(S)]
    for p in (pm, pc):
        ks = sorted(k for (pp, k) in loads.values() if pp == p)
        if ks != want:
            errs.append("loads through pointer operand %d use offsets %s, expected each of %s exactly once (stride %d digits)" % (p, ks, want, S))
    sk = sorted(k for (p, k, tmp) in stores)
    if sk != want:
        errs.append("stores use offsets %s, expected each of %s exactly once" % (sk, want))
    for (p, k, tmp) in stores:
        if p != pm:
            errs.append("store through the *const (borrowed) operand at offset %d" % k)
    # A5 data flow + ascending chain
    ks_chain = []
    for (dst, src) in ariths:
        ld, ls = loads.get(dst), loads.get(src)
        if ld is None or ls is None:
            errs.append("%s operates on a register that was not loaded in this iteration" % op_mn)
            continue
        if ld[0] != pm or ls[0] != pc:
            errs.append("%s must compute lhs-digit %s rhs-digit (destination from the *mut operand, source from the *const operand)" % (op_mn, "+" if op_mn == "adc" else "-"))
        if ld[1] != ls[1]:
            errs.append("%s combines digits at different offsets (%d and %d)" % (op_mn, ld[1], ls[1]))
        ks_chain.append(ld[1])
    if ks_chain != want:
        errs.append("carry chain visits offsets %s, expected ascending %s" % (ks_chain, want))
    dst_of_k = {loads[d][1]: d for (d, s) in ariths if d in loads}
    for (p, k, tmp) in stores:
        if dst_of_k.get(k) != tmp:
            errs.append("the value stored at offset %d is not the result of the %s at that offset" % (k, op_mn))
    # stores after arithmetic
    first_store = next((i for i, (mn, ops) in enumerate(body) if mn == "mov" and MEM.match(ops[0])), None)
    last_arith = max((i for i, (mn, ops) in enumerate(body) if mn == op_mn), default=None)
    if first_store is not None and last_arith is not None and first_store < last_arith:
        errs.append("a result is stored before the carry chain of the block is complete")
    # A4 after the loop: setc into the carry operand before anything clobbers CF
    if not tail or tail[0] != ("setc", ["{%d}" % carry]):
        errs.append("`setc {carry}` does not immediately follow the loop (the final carry would be lost)")
    if any(mn not in ("setc", "clc") for mn, _ in tail):
        errs.append("unexpected instruction after the loop")
    # A3/A7 MIR side: count = n / S, guarded by count == 0, index starts at 0, returns (carry > 0, index)
    cl = op_local(operands[count]["value"])
    cdiv = None
    src = cl
    for _ in range(4):
        ds = b.defs().get(src, [])
        nxt = None
        for d in ds:
            if d[0] == "assign":
                rv = d[3]["rv"]
                if rv["k"] == "binop" and rv["op"] == "Div":
                    cdiv = rv
                elif rv["k"] == "use" and op_local(rv["op"]) is not None:
                    nxt = op_local(rv["op"])
        if cdiv is not None or nxt is None:
            break
        src = nxt
    if cdiv is not None and op_const(cdiv["b"]) == S:
        # `(size - size % S) / S` is size / S written with the remainder taken off first: read through to `size`
        al_ = op_local(cdiv["a"])
        ds_ = b.defs().get(al_, []) if al_ is not None else []
        if len(ds_) == 1 and ds_[0][0] == "assign":
            rv_ = ds_[0][3]["rv"]
            if rv_["k"] == "use" and core.op_place(rv_["op"]) is not None and rv_["op"]["place"]["proj"]:
                # `.0` of a checked subtraction
                d2_ = b.defs().get(rv_["op"]["place"]["local"], [])
                rv_ = d2_[0][3]["rv"] if len(d2_) == 1 and d2_[0][0] == "assign" else rv_
            if rv_["k"] == "binop" and rv_["op"].startswith("Sub"):
                bl_ = op_local(rv_["b"])
                db_ = b.defs().get(bl_, []) if bl_ is not None else []
                if len(db_) == 1 and db_[0][0] == "assign" and db_[0][3]["rv"]["k"] == "binop" and db_[0][3]["rv"]["op"] == "Rem" and op_const(db_[0][3]["rv"]["b"]) == S:
                    ra_ = core.Flow(b).roots_of_operand(rv_["a"])
                    rb_ = core.Flow(b).roots_of_operand(db_[0][3]["rv"]["a"])
                    if ra_ and set(ra_) == set(rb_):
                        cdiv = dict(cdiv, a=rv_["a"])
    if cdiv is None or op_const(cdiv["b"]) != S:
        errs.append("the block counter is not size / %d (the stride of the template): %s" % (S, core.rv_str(cdiv) if cdiv else "no division found"))
    else:
        a_roots = core.Flow(b).roots_of_operand(cdiv["a"])
        d_atoms = Atoms(b).of_operand(cdiv["a"])
        int_params = [r[1] for r in a_roots if r[0] == "param" and b.local_ty(r[1]) in ("usize", "u64")]
        if int_params:
            info["shape"] = ("raw", int_params[0])
        elif calls_of(d_atoms) == {"len"} and len(params_of(d_atoms)) == 1 and not consts_of(d_atoms):
            # the helper takes slices: the size is len() of one of them and the pointers are taken inside
            sp = next(iter(params_of(d_atoms)))
            fl_ = core.Flow(b, transparent=set())
            prm = {}
            for role, k in (("mut", pm), ("const", pc)):
                for r in fl_.roots_of_operand(operands[k]["value"]):
                    if r[0] == "call" and (r[2] or "").endswith("::as_mut_ptr" if role == "mut" else "::as_ptr"):
                        src_atoms = Atoms(b).of_operand(b.blocks[r[1]]["term"]["args"][0])
                        if len(params_of(src_atoms)) == 1 and not calls_of(src_atoms) - {"deref", "deref_mut"}:
                            prm[role] = next(iter(params_of(src_atoms)))
            if set(prm) == {"mut", "const"} and sp in prm.values():
                info["shape"] = ("slices", prm["mut"], prm["const"], sp)
            else:
                errs.append("the pointer operands are not as_mut_ptr()/as_ptr() of the slice parameters whose len() is the size")
        else:
            errs.append("the block counter is not derived from the size parameter")
    asm_bb = [i for i, tt in b.terms("asm")][0]
    tl, atoms = tests_of(b)
    guarded = False
    for tst in tl:
        c = tst.cond
        if c is not None and c.kind == "cmp" and c.op in ("Eq", "Ne") and consts_of(c.b) == {0}:
            nz = tst.f if c.op == "Eq" else tst.t
            if b.edge_dominates((tst.bb, nz), asm_bb) and "const" not in [a[0] for a in c.a if a[0] == "const" and a[1] != 5]:
                guarded = True
    if not guarded and cdiv is not None:
        # the same guarantee stated on the size: `if size < S { return }` (or `size >= S`, `size > S - 1`) before the division
        try:
            sz_roots = set(core.Flow(b).roots_of_operand(cdiv["a"]))
        except Exception:
            sz_roots = set()
        sz_params = {r[1] for r in sz_roots if r[0] == "param"}
        for tst in tl:
            c = tst.cond
            if c is None or c.kind != "cmp" or c.op not in ("Lt", "Le", "Gt", "Ge"):
                continue
            for (x_raw, k_raw, flip) in ((c.ra, c.rb, False), (c.rb, c.ra, True)):
                try:
                    k_ = eval_int(b, k_raw, {})
                except Exception:
                    continue
                if not isinstance(k_, int) or isinstance(k_, bool):
                    continue
                xr = {r[1] for r in core.Flow(b).roots_of_operand(x_raw) if r[0] == "param"} if x_raw["k"] != "const" else set()
                if not xr or not (xr <= sz_params) or calls_of(Atoms(b).of_operand(x_raw)) - {"len"}:
                    continue
                op_ = c.op
                if flip:
                    op_ = {"Lt": "Gt", "Le": "Ge", "Gt": "Lt", "Ge": "Le"}[op_]
                # edge on which size >= lower
                edge, lower = {"Lt": (tst.f, k_), "Ge": (tst.t, k_), "Gt": (tst.t, k_ + 1), "Le": (tst.f, k_ + 1)}[op_]
                if edge is not None and lower >= S and b.edge_dominates((tst.bb, edge), asm_bb):
                    guarded = True
    if not guarded:
        errs.append("the asm block is not dominated by a `count != 0` test (dec would wrap and the loop would run 2^64 times)")
    if not (iv["k"] == "const" and op_const(iv) == 0):
        il = op_local(iv)
        ok0 = False
        if il is not None:
            ds = b.defs().get(il, [])
            consts = [d for d in ds if d[0] == "assign" and d[3]["rv"]["k"] == "use" and op_const(d[3]["rv"]["op"]) == 0]
            asm_defs = [d for d in ds if d[0] == "asm"]
            ok0 = len(consts) == 1 and len(ds) == len(consts) + len(asm_defs)
        if not ok0:
            errs.append("the index register is not initialised to the constant 0")
    # return value
    agg = None
    for i, si, s in b.stmts():
        if s["k"] == "assign" and s["place"]["local"] == 0 and s["rv"]["k"] == "aggregate" and i in b.reachable(asm_bb):
            agg = s["rv"]
    if agg is None or len(agg["ops"]) != 2:
        errs.append("no (carry, done) tuple is returned after the asm block")
    else:
        at = Atoms(b)
        ilocal = operands[idx]["place"]["local"]
        clocal = operands[carry]["place"]["local"]
        r1 = core.Flow(b).roots_of_operand(agg["ops"][1])
        if not any(r[0] == "asm" for r in r1) or op_local(agg["ops"][1]) is None:
            errs.append("the second tuple component is not the index register's final value")
        else:
            # the copy chain must start at the index place
            l = op_local(agg["ops"][1])
            ds = b.defs().get(l, [])
            if not any(d[0] == "assign" and d[3]["rv"]["k"] == "use" and op_local(d[3]["rv"]["op"]) == ilocal for d in ds) and l != ilocal:
                errs.append("the second tuple component is not the index register's final value")
        # first: Gt(c, 0) / Ne(c, 0)
        l0 = op_local(agg["ops"][0])
        okc = False
        for d in b.defs().get(l0, []):
            if d[0] == "assign" and d[3]["rv"]["k"] == "binop" and d[3]["rv"]["op"] in ("Gt", "Ne") and op_const(d[3]["rv"]["b"]) == 0:
                al = op_local(d[3]["rv"]["a"])
                for dd in b.defs().get(al, []):
                    if dd[0] == "assign" and d[3]["rv"]["k"] and op_local(dd[3]["rv"].get("op", {"k": ""})) == clocal:
                        okc = True
                if al == clocal:
                    okc = True
        if not okc:
            errs.append("the first tuple component is not `carry byte != 0`")
    info["lines"] = len(lines)
    # canonical form for the sibling comparison: the arithmetic mnemonic abstracted, and any run of index advances
    # (`inc idx` x k, `lea idx, [idx + K]`) folded into one step of the total stride
    canon_ = []
    for mn, ops in ins:
        adv = None
        if mn == "inc" and ops == ["{%d}" % idx]:
            adv = 1
        elif mn == "lea" and len(ops) == 2 and ops[0] == "{%d}" % idx:
            m_ = re.match(r"^\[\{(\d+)\}\s*\+\s*(\d+)\]$", ops[1])
            if m_ and int(m_.group(1)) == idx:
                adv = int(m_.group(2))
        if adv is not None:
            if canon_ and canon_[-1][0] == "ADVANCE":
                canon_[-1] = ("ADVANCE", canon_[-1][1] + adv)
            else:
                canon_.append(("ADVANCE", adv))
        else:
            canon_.append((mn if mn != op_mn else "ARITH", ops))
    info["canonical"] = canon_
    return errs, info


def check_block_loops(ctx, res, config="all"):
    facts = ctx.facts(config)
    canon = {}
    for path, mn in (("biguint::addition::schoolbook_add_assign_x86_64", "adc"), ("biguint::subtraction::schoolbook_sub_assign_x86_64", "sbb")):
        b = facts.body(path)
        if b is None:
            res.fail(Finding("R4-anchor-lost", path, "block loop function not found", file="src/biguint/addition.rs", line=0))
            continue
        asms = [(i, t) for i, t in b.terms("asm")]
        if len(asms) != 1:
            res.fail(Finding("R4-anchor-lost", path, "expected one asm block, found %d" % len(asms), b))
            continue
        errs, info = analyse_block_loop(b, asms[0][1], mn)
        if errs:
            for e in errs[:6]:
                res.fail(Finding("R4-asm-block-loop", "%s|%s" % (path, e[:70]), e, b, asms[0][1]["span"]["line"]))
        else:
            res.ok("R4-asm-block-loop", path, {"stride": info["stride"], "template_lines": info["lines"], "rules": "A1-A6, A8"})
            canon[mn] = info["canonical"]
            # observation O1 (not armed): counter declared `in` but decremented
            res.note("%s: the block counter is an `in(reg)` operand that the template decrements (dead afterwards; `inout(reg) size => _` would be the clean form)" % path)
    if len(canon) == 2:
        if canon["adc"] == canon["sbb"]:
            res.ok("R4-asm-siblings-agree", "add-vs-sub", {"identical_modulo": "adc<->sbb"})
        else:
            res.fail(Finding("R4-asm-siblings-agree", "add-vs-sub", "the add and sub block loops differ in more than adc<->sbb", file="src/biguint/subtraction.rs", line=0))
    res.clause("R4-A: both x86_64 block loops are well-formed: instruction set, [ptr+8*idx+K] addressing with K in the stride, stores only through the *mut operand, ascending carry chain preserved up to setc, counter = size/stride guarded by != 0, result (carry != 0, index); add and sub agree modulo adc/sbb")


def _same_len_value(b, atoms, x_op, n_op):
    """is the slice behind pointer-producing operand x_op of length n_op by construction?"""
    # x_op: operand passed to as_ptr/as_mut_ptr ; find the slice local
    fl = core.Flow(b, transparent={"deref", "deref_mut", "as_ref", "as_mut"})
    n_atoms = atoms.of_operand(n_op)
    n_local = op_local(n_op)
    roots = fl.roots_of_operand(x_op)
    for r in roots:
        if r[0] == "call" and (r[2] or "").endswith("split_at_mut") or r[0] == "call" and (r[2] or "").endswith("split_at"):
            # must be component .0 and split point == n
            if not r[3] or r[3][0] != "0":
                return False, "pointer is taken from the upper part of a split"
            t = b.blocks[r[1]]["term"]
            m_op = t["args"][1]
            m_atoms = atoms.of_operand(m_op)
            if _equiv_len(b, m_op, n_op, m_atoms, n_atoms):
                return True, "split_at(%s).0" % tests._short(m_atoms)
            return False, "split point %s differs from the length argument %s" % (tests._short(m_atoms), tests._short(n_atoms))
        if r[0] == "param":
            # n must be len(param)
            if calls_of(n_atoms) == {"len"} and params_of(n_atoms) == {r[1]} and not consts_of(n_atoms):
                return True, "len(param %d)" % r[1]
            return False, "length argument %s is not len() of the slice parameter %d" % (tests._short(n_atoms), r[1])
    return False, "cannot identify the slice behind the pointer"


def _equiv_len(b, m_op, n_op, m_atoms, n_atoms):
    lm, ln = op_local(m_op), op_local(n_op)

    def base(l):
        for _ in range(5):
            ds = b.defs().get(l, [])
            if len(ds) == 1 and ds[0][0] == "assign" and ds[0][3]["rv"]["k"] == "use" and op_local(ds[0][3]["rv"]["op"]) is not None:
                l = op_local(ds[0][3]["rv"]["op"])
            else:
                break
        return l

    if lm is not None and ln is not None and base(lm) == base(ln):
        return True
    # both are len() of the same immutable slice parameter
    if calls_of(m_atoms) == {"len"} and calls_of(n_atoms) == {"len"} and params_of(m_atoms) == params_of(n_atoms) and len(params_of(m_atoms)) == 1 and not consts_of(m_atoms) and not consts_of(n_atoms):
        p = next(iter(params_of(m_atoms)))
        if not b.local_ty(p).startswith("&mut"):
            return True
    return False


def _slices_same_len(b, atoms, x_op, y_op):
    """is the slice x (the one written through) of the same length as slice y by construction: x = split_at[_mut](k).0 with
    k = len(y), or x and y are lower parts of splits at the same k"""
    fl = core.Flow(b, transparent={"deref", "deref_mut", "as_ref", "as_mut"})
    xr, yr = fl.roots_of_operand(x_op), fl.roots_of_operand(y_op)
    for r in xr:
        if r[0] == "call" and ((r[2] or "").endswith("split_at_mut") or (r[2] or "").endswith("split_at")):
            if not r[3] or r[3][0] != "0":
                return False, "pointer is taken from the upper part of a split"
            k_op = b.blocks[r[1]]["term"]["args"][1]
            k_atoms = atoms.of_operand(k_op)
            for q in yr:
                if q[0] == "param" and not b.local_ty(q[1]).startswith("&mut"):
                    if calls_of(k_atoms) == {"len"} and params_of(k_atoms) == {q[1]} and not consts_of(k_atoms):
                        return True, "split_at(len(param %d)).0 vs param %d" % (q[1], q[1])
                if q[0] == "call" and ((q[2] or "").endswith("split_at") or (q[2] or "").endswith("split_at_mut")) and q[3] and q[3][0] == "0":
                    k2 = b.blocks[q[1]]["term"]["args"][1]
                    if _equiv_len(b, k_op, k2, k_atoms, atoms.of_operand(k2)):
                        return True, "both are split_at(%s).0" % tests._short(k_atoms)
            return False, "the split point %s is not the other slice's length" % tests._short(k_atoms)
    return False, "cannot identify how the written slice was cut"


def check_block_loop_callers(ctx, res, config="all"):
    facts = ctx.facts(config)
    n = 0
    shapes = {}
    for path, mn in (("biguint::addition::schoolbook_add_assign_x86_64", "adc"), ("biguint::subtraction::schoolbook_sub_assign_x86_64", "sbb")):
        hb = facts.body(path)
        if hb is not None:
            asms = [(i, t) for i, t in hb.terms("asm")]
            if len(asms) == 1:
                errs_, info_ = analyse_block_loop(hb, asms[0][1], mn)
                shapes[path.split("::")[-1]] = info_.get("shape", ("raw", 3))
    pairs = []
    for target in ("schoolbook_add_assign_x86_64", "schoolbook_sub_assign_x86_64"):
        for cb in facts.bodies:
            if any(callee_name(t) == target and i in cb.live_blocks() for i, t in cb.calls()):
                pairs.append((cb.path, target))
    for caller, target in pairs:
        b = facts.body(caller)
        if b is None:
            res.fail(Finding("R4-anchor-lost", caller, "caller not found", file="src", line=0))
            continue
        atoms = Atoms(b)
        shape = shapes.get(target, ("raw", 3))
        for i, t in b.calls():
            if callee_name(t) != target or i not in b.live_blocks():
                continue
            n += 1
            errs = []
            fl = core.Flow(b, transparent=set())
            details = []
            if shape[0] == "slices":
                _, p_mut, p_const, p_size = shape
                x_op, y_op = t["args"][p_mut - 1], t["args"][p_const - 1]
                if p_size == p_const:
                    good, why = _slices_same_len(b, atoms, x_op, y_op)
                else:
                    good, why = _slices_same_len(b, atoms, y_op, x_op)
                if good:
                    details.append(why)
                else:
                    errs.append("slice lengths: %s" % why)
            for ai, want in ((0, "as_mut_ptr"), (1, "as_ptr")) if shape[0] == "raw" else ():
                roots = fl.roots_of_operand(t["args"][ai])
                ok = False
                for r in roots:
                    if r[0] == "call" and (r[2] or "").endswith("::" + want):
                        pt = b.blocks[r[1]]["term"]
                        good, why = _same_len_value(b, atoms, pt["args"][0], t["args"][2])
                        if good:
                            ok = True
                            details.append(why)
                        else:
                            errs.append("operand %d: %s" % (ai, why))
                if not ok and not errs:
                    errs.append("operand %d is not obtained by %s() of a slice" % (ai, want))
            # hand-off: done -> start of both tails; carry -> initial carry
            dest = t["dest"]["local"]
            starts = 0
            for bi, si, s in b.stmts():
                rv = s.get("rv")
                if rv and rv["k"] == "aggregate" and rv.get("adt", "").endswith("RangeFrom"):
                    rr = core.Flow(b).roots_of_operand(rv["ops"][0])
                    if any(r[0] == "call" and r[1] == i and r[3][:1] == ("1",) for r in rr):
                        starts += 1
            if starts != 2:
                errs.append("the digit count returned by the block loop does not start both tail slices (%d of 2)" % starts)
            carry_ok = False
            # values derived from component .0 of the block loop's result through casts, From::from and moves
            derived = set()
            fl0 = core.Flow(b)
            for bi, si, s in b.stmts():
                rv = s.get("rv")
                if rv and rv["k"] in ("cast", "use") and not s["place"]["proj"]:
                    rr = fl0.roots_of_operand(rv["op"]) if rv["op"]["k"] != "const" else ()
                    if any(r[0] == "call" and r[1] == i and r[3][:1] == ("0",) for r in rr):
                        derived.add(s["place"]["local"])
            for bj, tt in b.calls():
                if callee_name(tt) in ("from", "into") and tt["args"] and not tt["dest"]["proj"]:
                    rr = fl0.roots_of_operand(tt["args"][0])
                    if any(r[0] == "call" and r[1] == i and r[3][:1] == ("0",) for r in rr):
                        derived.add(tt["dest"]["local"])

            def chain_of(l0):
                chain = {l0}
                for _ in range(4):
                    for l in list(chain):
                        for d in b.defs().get(l, []):
                            if d[0] == "assign" and d[3]["rv"]["k"] == "use" and op_local(d[3]["rv"]["op"]) is not None:
                                chain.add(op_local(d[3]["rv"]["op"]))
                return chain

            for bj, tt in b.calls():
                nm_ = callee_name(tt)
                if nm_ in ("adc", "sbb") and tt["args"]:
                    al = op_local(tt["args"][0])
                    if al is not None and chain_of(al) & derived:
                        carry_ok = True
                if nm_ in ("fold", "try_fold") and len(tt["args"]) == 3:
                    il = op_local(tt["args"][1])
                    if il is not None and chain_of(il) & derived:
                        # the accumulator function must feed its accumulator to adc/sbb as the carry
                        cl = op_local(tt["args"][2])
                        for d in b.defs().get(cl, []) if cl is not None else []:
                            if d[0] == "assign" and d[3]["rv"]["k"] == "aggregate" and d[3]["rv"].get("akind") == "closure":
                                cb_ = facts.body(d[3]["rv"]["closure"])
                                if cb_ is not None:
                                    for bk, t3 in cb_.calls():
                                        if callee_name(t3) in ("adc", "sbb") and t3["args"]:
                                            r3_ = core.Flow(cb_).roots_of_operand(t3["args"][0])
                                            if any(r[0] == "param" and r[1] == 2 for r in r3_):
                                                carry_ok = True
            if not carry_ok:
                errs.append("the carry/borrow returned by the block loop is not the initial carry of the scalar tail")
            key = "%s->%s" % (caller, target)
            if errs:
                res.fail(Finding("R4-asm-call-site", key, "; ".join(errs), b, t["span"]["line"]))
            else:
                res.ok("R4-asm-call-site", key, {"lengths": details, "handoff": "done -> both tails, carry -> scalar loop"})
    if n < 2:
        res.fail(Finding("R4-anchor-lost", "block-loop-callers", "only %d call sites of the block loops found" % n, file="src", line=0))
    res.clause("R4-C: both pointers passed to a block loop cover exactly `len` digits by construction (split_at(len).0 / len() of the slice) and the returned (carry, done) feed the scalar tail")


def _fold_remainder_invariant(facts, cb, call_bb, t, hl, dv):
    """P3: the call sits in the accumulator closure of `Iterator::fold(0, |rem, x| div_wide(rem, x, d).1)`: hi is the accumulator
    (closure parameter 2), the closure returns the remainder of this very kind of call with the same captured divisor, the
    fold starts at the constant 0, and the captured divisor is shown non-zero in the parent before the fold"""
    from . import r3

    if not cb.is_param(hl) or hl != 2:
        return None
    # the closure returns .1 of div_wide/div_half calls on the same divisor
    rr = core.Flow(cb, transparent=set()).roots_of_place({"local": 0, "proj": []})
    if not rr or not all(r[0] == "call" and (r[2] or "").split("::")[-1] in ("div_wide", "div_half") and r[3][-1:] == ("1",) for r in rr):
        return None
    dat = Atoms(cb).of_operand(dv)
    caps = [a for a in dat if a[0] == "param" and a[1] == 1 and a[2]]
    if len(caps) != 1 or calls_of(dat) or consts_of(dat):
        return None
    for r in rr:
        tt = cb.blocks[r[1]]["term"]
        if Atoms(cb).of_operand(tt["args"][2]) != dat:
            return None
    env = r3.closure_env(facts, cb)
    if not env:
        return None
    pb, rv, cbb = env
    try:
        idx = int(caps[0][2][0])
    except ValueError:
        return None
    if idx >= len(rv["ops"]):
        return None
    # the closure value must be the function argument of a fold starting at 0
    clo_local = None
    for i_, si_, s_ in pb.stmts():
        if s_.get("rv") is rv:
            clo_local = s_["place"]["local"]
    folds = []
    for i_, tt in pb.calls():
        if callee_name(tt) == "fold" and len(tt["args"]) == 3 and i_ in pb.live_blocks():
            fr_ = core.Flow(pb).roots_of_operand(tt["args"][2])
            if op_local(tt["args"][2]) == clo_local or any(r_[0] == "local" and r_[1] == clo_local for r_ in fr_):
                folds.append((i_, tt))
    if len(folds) != 1 or op_const(folds[0][1]["args"][1]) != 0:
        return None
    fake = {"args": [None, rv["ops"][idx]], "span": t["span"]}
    st, det = r3.divisor_status(facts, pb, folds[0][0], fake)
    if st in ("guarded", "const-nonzero"):
        return "P3: accumulator of fold(0, ..) holding remainders of the same captured divisor, divisor != 0 in %s" % pb.path.split("::")[-1]
    return None


def check_div_wide(ctx, res, config="all"):
    facts = ctx.facts(config)
    b = facts.body("biguint::division::div_wide")
    if b is None:
        res.fail(Finding("R4-anchor-lost", "div_wide", "not found", file="src/biguint/division.rs", line=0))
        return
    asms = [(i, t) for i, t in b.terms("asm")]
    errs = []
    if len(asms) != 1:
        errs.append("expected one asm block")
    else:
        t = asms[0][1]
        lines = template_lines(t)
        if len(lines) != 1 or not re.match(r"^div \{0\}$", lines[0]):
            errs.append("template is not the single instruction `div {0}`: %s" % lines)
        ops = t["operands"]
        if len(ops) != 3 or ops[0]["class"] != "in" or ops[1]["class"] != "inout" or ops[2]["class"] != "inout":
            errs.append("operand classes are not (in, inout, inout)")
        else:
            if "dx" not in ops[1]["reg"] or "ax" not in ops[2]["reg"]:
                errs.append("hi/lo are not bound to dx/ax")
            fl = core.Flow(b)
            r0 = fl.roots_of_operand(ops[0]["value"])
            r1 = fl.roots_of_operand(ops[1]["value"])
            r2 = fl.roots_of_operand(ops[2]["value"])
            if not (any(r[0] == "param" and r[1] == 3 for r in r0) and any(r[0] == "param" and r[1] == 1 for r in r1) and any(r[0] == "param" and r[1] == 2 for r in r2)):
                errs.append("operands are not (divisor, hi -> dx, lo -> ax)")
            # result tuple (quotient from ax, remainder from dx)
            ql, rl = ops[2]["place"]["local"], ops[1]["place"]["local"]
            agg = [s["rv"] for i, si, s in b.stmts() if s["k"] == "assign" and s["rv"]["k"] == "aggregate" and s["rv"].get("akind") == "tuple" and len(s["rv"]["ops"]) == 2]
            okr = False
            for a in agg:
                f0 = core.Flow(b, transparent=set())
                l0, l1 = op_local(a["ops"][0]), op_local(a["ops"][1])

                def back(l):
                    for _ in range(4):
                        ds = b.defs().get(l, [])
                        if len(ds) == 1 and ds[0][0] == "assign" and ds[0][3]["rv"]["k"] == "use" and op_local(ds[0][3]["rv"]["op"]) is not None:
                            l = op_local(ds[0][3]["rv"]["op"])
                        else:
                            break
                    return l

                if back(l0) == ql and back(l1) == rl:
                    okr = True
            if not okr:
                errs.append("the returned pair is not (quotient from ax, remainder from dx)")
    if errs:
        res.fail(Finding("R4-div-template", b.path, "; ".join(errs), b))
    else:
        res.ok("R4-div-template", b.path, {"template": "div {0}", "operands": "in divisor, inout dx hi=>rem, inout ax lo=>quot"})
    # call sites: hi < divisor
    n = 0
    for cb in facts.bodies:
        tl = atoms = None
        k = 0
        for i, t in cb.calls():
            if callee(t) != "biguint::division::div_wide" or i not in cb.live_blocks():
                continue
            n += 1
            if tl is None:
                tl, atoms = tests_of(cb)
            key = "%s|div_wide#%d" % (cb.path, k)
            k += 1
            hi, lo, dv = t["args"]

            def base(l):
                for _ in range(5):
                    ds = cb.defs().get(l, [])
                    if len(ds) == 1 and ds[0][0] == "assign" and ds[0][3]["rv"]["k"] == "use" and op_local(ds[0][3]["rv"]["op"]) is not None:
                        l = op_local(ds[0][3]["rv"]["op"])
                    else:
                        break
                return l

            hl, dl = base(op_local(hi)), base(op_local(dv))
            ok = None
            # P1: dominated by the true edge of Lt(hi, d) on the same locals
            for tst in tl:
                c = tst.cond
                if c is not None and c.kind == "cmp" and c.op in ("Lt", "Gt", "Ge", "Le"):
                    la, lb = op_local(c.ra), op_local(c.rb)
                    if la is None or lb is None:
                        continue
                    la, lb = base(la), base(lb)
                    edge = None
                    if c.op == "Lt" and (la, lb) == (hl, dl):
                        edge = tst.t
                    elif c.op == "Gt" and (la, lb) == (dl, hl):
                        edge = tst.t
                    elif c.op == "Ge" and (la, lb) == (hl, dl):
                        edge = tst.f
                    elif c.op == "Le" and (la, lb) == (dl, hl):
                        edge = tst.f
                    if edge is not None and cb.edge_dominates((tst.bb, edge), i):
                        # neither value redefined between test and call
                        ok = "P1: dominated by hi < divisor"
            if ok is None:
                # P2: hi is a loop-carried remainder: defs are const 0 and the remainder (.1) of div_wide/div_half with the same divisor;
                # divisor parameter guarded != 0 before the loop
                ds = cb.defs().get(hl, [])
                good = bool(ds)
                for d in ds:
                    if d[0] == "assign":
                        rv = d[3]["rv"]
                        if rv["k"] == "use" and op_const(rv["op"]) == 0:
                            continue
                        if rv["k"] == "use" and core.op_place(rv["op"]):
                            # copy of r (named) which is .1 of a div_wide / div_half result
                            src = core.op_place(rv["op"])
                            rr = core.Flow(cb, transparent=set()).roots_of_place(src)
                            if rr and all(r[0] == "call" and (r[2] or "").split("::")[-1] in ("div_wide", "div_half") and r[3][-1:] == ("1",) for r in rr):
                                # same divisor at those calls
                                same = True
                                for r in rr:
                                    tt = cb.blocks[r[1]]["term"]
                                    if base(op_local(tt["args"][2])) != dl:
                                        same = False
                                if same:
                                    continue
                        good = False
                    else:
                        good = False
                if good:
                    # divisor != 0 dominates
                    dz = False
                    for tst in tl:
                        c = tst.cond
                        if c is not None and c.kind == "cmp" and c.op in ("Eq", "Ne") and consts_of(c.b) == {0}:
                            la = op_local(c.ra)
                            if la is not None and base(la) == dl:
                                nz = tst.f if c.op == "Eq" else tst.t
                                if cb.edge_dominates((tst.bb, nz), i):
                                    dz = True
                    if dz:
                        ok = "P2: hi is 0 or a previous remainder of the same divisor, divisor != 0"
            if ok is None and cb.kind == "Closure":
                ok = _fold_remainder_invariant(facts, cb, i, t, hl, dv)
            if ok:
                res.ok("R4-div-precondition", key, {"by": ok})
            else:
                res.fail(Finding("R4-div-precondition", key, "call of div_wide(hi, lo, d) without an established hi < d: the hardware div would fault (#DE) for hi >= d", cb, t["span"]["line"]))
    if n < 3:
        res.fail(Finding("R4-anchor-lost", "div_wide-callers", "only %d call sites of div_wide found (floor 3)" % n, file="src/biguint/division.rs", line=0))
    res.clause("R4-D: the hardware divide is the single instruction `div {0}` with (divisor, dx=hi=>rem, ax=lo=>quot); each of its 3 call sites establishes hi < divisor (dominating comparison, or remainder-of-the-same-divisor loop invariant with divisor != 0)")


ASCII_OK = set(range(0x20, 0x7F))


def check_utf8(ctx, res, config="all"):
    facts = ctx.facts(config)
    n = 0
    for path in ("biguint::BigUint::to_str_radix", "bigint::BigInt::to_str_radix"):
        b = facts.body(path)
        if b is None:
            res.fail(Finding("R4-anchor-lost", path, "not found", file="src", line=0))
            continue
        errs = []
        uc = [(i, t) for i, t in b.calls() if callee_name(t) == "from_utf8_unchecked" and i in b.live_blocks()]
        if len(uc) != 1:
            errs.append("expected one from_utf8_unchecked call")
        else:
            n += 1
            i, t = uc[0]
            vl = op_local(t["args"][0])
            # find the named vector local
            fl = core.Flow(b, transparent=set())

            def base(l):
                for _ in range(5):
                    ds = b.defs().get(l, [])
                    if len(ds) == 1 and ds[0][0] == "assign" and ds[0][3]["rv"]["k"] == "use" and op_local(ds[0][3]["rv"]["op"]) is not None:
                        l = op_local(ds[0][3]["rv"]["op"])
                    else:
                        break
                return l

            v = base(vl)
            ds = b.defs().get(v, [])
            if not (len(ds) == 1 and ds[0][0] == "call" and (callee(ds[0][2]) or "").endswith("to_str_radix_reversed")):
                errs.append("the bytes do not come from to_str_radix_reversed")
            # every &mut use of v: push(const ascii) or (deref_mut ->) reverse
            mut_refs = []
            for bi, si, s in b.stmts():
                rv = s.get("rv")
                if rv and rv["k"] == "ref" and rv["mut"] and rv["place"]["local"] == v:
                    mut_refs.append(s["place"]["local"])
            for ml in mut_refs:
                for bj, tt in b.calls():
                    if any(op_local(a) == ml for a in tt["args"]):
                        nm = callee_name(tt)
                        if nm == "push":
                            c = op_const(tt["args"][1])
                            if c is None or c not in ASCII_OK:
                                errs.append("a non-ASCII / non-constant byte is pushed onto the text")
                        elif nm in ("deref_mut",):
                            dl = tt["dest"]["local"]
                            # result only used by reverse
                            for bk, t3 in b.calls():
                                for a in t3["args"]:
                                    rr = core.Flow(b, transparent=set()).roots_of_operand(a)
                                    if any(r[0] == "call" and r[1] == bj for r in rr) and callee_name(t3) != "reverse":
                                        errs.append("the byte buffer is modified by %s before from_utf8_unchecked" % callee_name(t3))
                        elif nm in ("reverse",):
                            pass
                        else:
                            errs.append("the byte buffer is passed mutably to %s before from_utf8_unchecked" % nm)
        if errs:
            res.fail(Finding("R4-utf8-provenance", path, "; ".join(sorted(set(errs))), b))
        else:
            res.ok("R4-utf8-provenance", path, {"source": "to_str_radix_reversed (+ '-' / reverse)"})
    # producer: every element is mapped to ASCII
    b = facts.body("biguint::convert::to_str_radix_reversed")
    if b is None:
        res.fail(Finding("R4-anchor-lost", "to_str_radix_reversed", "not found", file="src/biguint/convert.rs", line=0))
    else:
        errs = []
        tl, atoms = tests_of(b)
        # (1) radix <= 36 assert dominates: reuse R3 summary
        from . import r3

        s = r3.radix_summary(facts, b, {})
        if s is not None and len(s) == 1:
            res.note("R4-utf8-producer: the radix of to_str_radix_reversed is range-guarded, but the bounds are a promoted constant the facts do not carry - 2..=36 is not decided")
        elif s != (2, 36):
            errs.append("radix range 2..=36 is not enforced before the digit->ASCII mapping (found %s)" % (s,))
        # (2) mapping loop: switch on Lt(*r, 10): arms add 48 / 87
        adds = {}
        for t in tl:
            c = t.cond
            if c is not None and c.kind == "cmp" and c.op == "Lt" and consts_of(c.b) == {10}:
                for arm, tgt in (("lt", t.t), ("ge", t.f)):
                    x = tgt
                    for _ in range(8):
                        for st in b.blocks[x]["stmts"]:
                            rv = st.get("rv")
                            if rv and rv["k"] == "binop" and rv["op"] in ("Add", "AddWithOverflow", "AddUnchecked") and core.op_place(rv["a"]) and any(e["k"] == "deref" for e in core.op_place(rv["a"])["proj"]):
                                cst = _const_value(b, rv["b"])
                                if cst is not None and arm not in adds:
                                    adds[arm] = cst
                        sc = b.succ(x)
                        if arm in adds or len(sc) != 1:
                            break
                        x = sc[0]
        mapping_undecided = False
        if not adds:
            # form B: the offset is chosen on the two arms (`let offset = if d < 10 { b'0' } else { b'a' - 10 }`) and added once
            for t in tl:
                c = t.cond
                if c is not None and c.kind == "cmp" and c.op == "Lt" and consts_of(c.b) == {10}:
                    cand = {}
                    for arm, tgt in (("lt", t.t), ("ge", t.f)):
                        x = tgt
                        for _ in range(8):
                            for st in b.blocks[x]["stmts"]:
                                if st["k"] == "assign" and not st["place"]["proj"] and b.local_ty(st["place"]["local"]) == "u8":
                                    cst = None
                                    rv = st["rv"]
                                    if rv["k"] == "use":
                                        cst = _const_value(b, rv["op"])
                                    elif rv["k"] == "binop" and rv["op"].startswith("Sub"):
                                        x1, x2 = _const_value(b, rv["a"]), _const_value(b, rv["b"])
                                        if x1 is not None and x2 is not None:
                                            cst = x1 - x2
                                    if cst is not None:
                                        cand.setdefault(arm, (st["place"]["local"], cst))
                            sc = b.succ(x)
                            if len(sc) != 1:
                                break
                            x = sc[0]
                    if len(cand) == 2:
                        # the chosen value (through copies) is what is added to the digit
                        locs = {cand["lt"][0], cand["ge"][0]}
                        for bi, si, st in b.stmts():
                            rv = st.get("rv")
                            if rv and rv["k"] == "binop" and rv["op"] in ("Add", "AddWithOverflow", "AddUnchecked") and core.op_place(rv["a"]) and any(e["k"] == "deref" for e in core.op_place(rv["a"])["proj"]):
                                l_ = op_local(rv["b"])
                                for _ in range(4):
                                    ds = b.defs().get(l_, []) if l_ is not None else []
                                    if l_ in locs:
                                        break
                                    srcs = {op_local(d[3]["rv"]["op"]) for d in ds if d[0] == "assign" and d[3]["rv"]["k"] == "use"}
                                    if len(srcs) >= 1 and srcs <= locs | {None} and srcs & locs:
                                        l_ = next(iter(srcs & locs))
                                        break
                                    l_ = next(iter(srcs)) if len(srcs) == 1 else None
                                if l_ in locs:
                                    adds = {"lt": cand["lt"][1], "ge": cand["ge"][1]}
        if not adds:
            mapping_undecided = True
            res.note("R4-utf8-producer: the digit -> ASCII mapping of to_str_radix_reversed is not written as a two-way choice on `d < 10` that this rule can read - not decided")
        elif adds.get("lt") != 48 or adds.get("ge") != 87:
            errs.append("digit->ASCII mapping is not `d < 10 ? d + '0' : d + ('a' - 10)` (found %s)" % adds)
        # (3) the zero case returns the literal b"0"
        # (4) the loop covers every element: iter_mut over the whole result of to_radix_le
        itm = [(i, t) for i, t in b.calls() if callee_name(t) in ("iter_mut", "into_iter") and i in b.live_blocks()]
        whole = False
        for i, t in itm:
            rr = core.Flow(b, transparent={"deref_mut", "deref", "iter_mut", "into_iter"}).roots_of_operand(t["args"][0])
            if any(r[0] == "call" and (r[2] or "").endswith("to_radix_le") and not [f for f in r[3] if f.startswith("#sub")] for r in rr):
                whole = True
        if not whole:
            errs.append("the digit->ASCII loop does not iterate over the whole to_radix_le result")
        if errs:
            res.fail(Finding("R4-utf8-producer", b.path, "; ".join(errs), b))
        else:
            res.ok("R4-utf8-producer", b.path, {"mapping": "d<10 -> d+48, else d+87", "radix": "<= 36 asserted"})
            res.assume("to_radix_le yields digits < radix (arithmetic)")
    if n < 2:
        res.fail(Finding("R4-anchor-lost", "from_utf8_unchecked", "only %d of 2 from_utf8_unchecked sites found" % n, file="src", line=0))
    res.clause("R4-U: bytes reaching String::from_utf8_unchecked come only from to_str_radix_reversed (every element mapped d<10 ? d+'0' : d+'a'-10 under radix <= 36), plus pushed ASCII constants and reverse()")


def check_raw_slice(ctx, res, config="all"):
    facts = ctx.facts(config)
    bs = facts.find(suffix="bigrand::RandBigInt>::gen_biguint")
    if len(bs) != 1:
        res.fail(Finding("R4-anchor-lost", "gen_biguint", "not found", file="src/bigrand.rs", line=0))
        return
    b = core.inline_private(facts, bs[0], keep=("gen_bits", "biguint_from_vec", "normalized", "normalize"))  # the reinterpretation may live in a private helper
    errs = []
    rc = [(i, t) for i, t in b.calls() if callee_name(t) == "from_raw_parts_mut" and i in b.live_blocks()]
    if len(rc) != 1:
        errs.append("expected one from_raw_parts_mut call")
    else:
        i, t = rc[0]
        atoms = Atoms(b)
        # pointer: as_mut_ptr of the local vec, cast *mut u64 -> *mut u32
        pl = op_local(t["args"][0])
        cast = None
        l = pl
        for _ in range(4):
            ds = b.defs().get(l, [])
            if len(ds) == 1 and ds[0][0] == "assign":
                rv = ds[0][3]["rv"]
                if rv["k"] == "cast":
                    cast = rv
                    break
                if rv["k"] == "use" and op_local(rv["op"]) is not None:
                    l = op_local(rv["op"])
                    continue
            if len(ds) == 1 and ds[0][0] == "call" and callee_name(ds[0][2]) == "cast" and ds[0][2]["args"]:
                # `ptr.cast::<u32>()` is the same reinterpretation as `ptr as *mut u32`
                ct = ds[0][2]
                fty = b.local_ty(op_local(ct["args"][0])) if op_local(ct["args"][0]) is not None else ""
                cast = {"ck": "PtrToPtr", "from": fty, "to": b.local_ty(ct["dest"]["local"]), "op": ct["args"][0]}
            break
        if cast is None or cast["ck"] != "PtrToPtr" or cast["from"] != "*mut u64" or cast["to"] != "*mut u32":
            errs.append("the pointer is not a `*mut u64 as *mut u32` reinterpretation (%s)" % (cast and (cast["from"], cast["to"])))
        else:
            rr = core.Flow(b, transparent={"deref_mut"}).roots_of_operand(cast["op"])
            vec_call = None
            for r in rr:
                if r[0] == "call" and (r[2] or "").endswith("as_mut_ptr"):
                    vec_call = r[1]
            if vec_call is None:
                errs.append("the pointer does not come from as_mut_ptr() of the local buffer")
        # len depends only on bit_size (param 2)
        la = atoms.of_operand(t["args"][1])
        if params_of(la) != {2}:
            errs.append("the u32 view length is not a function of bit_size alone")
        # slice passed only to gen_bits
        dl = t["dest"]["local"]
        users = []
        for bj, tt in b.calls():
            for a in tt["args"]:
                rr = core.Flow(b, transparent=set()).roots_of_operand(a)
                if any(r[0] == "call" and r[1] == i for r in rr):
                    users.append(callee_name(tt))
        if set(users) != {"gen_bits"}:
            errs.append("the raw slice escapes to %s" % sorted(set(users)))
        # native buffer: vec![0u64; native_len] with native_len a function of bit_size alone
        fe = [(bj, tt) for bj, tt in b.calls() if callee_name(tt) in ("from_elem",)]
        if fe:
            na = atoms.of_operand(fe[0][1]["args"][1])
            if params_of(na) != {2}:
                errs.append("native buffer length is not a function of bit_size alone")
        else:
            errs.append("native buffer allocation (vec![0; native_len]) not found")
        # result
        rr = core.Flow(b, transparent=set()).roots_of_local(0)
        if not all(r[0] == "call" and (r[2] or "").endswith("biguint_from_vec") for r in rr):
            errs.append("the result does not leave through biguint_from_vec")
    if errs:
        res.fail(Finding("R4-raw-slice", b.path, "; ".join(errs), b))
    else:
        res.ok("R4-raw-slice", b.path, {"ptr": "vec.as_mut_ptr() as *mut u32", "escapes_to": "gen_bits only"})
        res.assume("ceil(bits/32) <= 2*ceil(bits/64) (arithmetic; also a debug assertion in the code)")
    res.clause("R4-S: the u64 buffer reinterpreted as u32 words comes from the local vec's as_mut_ptr (alignment only decreases), is passed to gen_bits only, and both lengths are functions of bit_size alone")


def _const_value(b, op, depth=0):
    """constant value of an operand through copies and constant-only arithmetic (with-overflow tuples .0)"""
    c = op_const(op)
    if c is not None and not isinstance(c, bool):
        return c
    pl = core.op_place(op)
    if pl is None or depth > 6:
        return None
    ds = b.defs().get(pl["local"], [])
    if len(ds) != 1 or ds[0][0] != "assign":
        return None
    rv = ds[0][3]["rv"]
    if rv["k"] == "use":
        return _const_value(b, rv["op"], depth + 1)
    if rv["k"] == "binop":
        x, y = _const_value(b, rv["a"], depth + 1), _const_value(b, rv["b"], depth + 1)
        if x is None or y is None:
            return None
        o = rv["op"].replace("WithOverflow", "").replace("Unchecked", "")
        if o == "Add":
            return x + y
        if o == "Sub":
            return x - y
        if o == "Mul":
            return x * y
    return None


# ------------------------------------------------------------------------------------------
# length expressions of gen_biguint, decided by evaluating the expressions extracted from MIR


class CantEval(Exception):
    pass


def eval_int(b, op, env, depth=0):
    """value of an integer/bool operand as a function of the parameters in env (local -> int); only single-definition
    locals, constants, integer arithmetic and a few total library functions on integers are interpreted"""
    if depth > 40:
        raise CantEval("too deep")
    if op["k"] == "const":
        if "val" in op:
            return int(op["val"])
        if "deref_val" in op:
            return int(op["deref_val"])
        raise CantEval("constant")
    pl = core.op_place(op)
    if pl is None:
        raise CantEval("operand")
    v = eval_local(b, pl["local"], env, depth + 1)
    for e in pl["proj"]:
        if e["k"] == "deref":
            continue
        if e["k"] == "field":
            if not isinstance(v, tuple):
                raise CantEval("field of scalar")
            v = v[e["idx"]]
        elif e["k"] == "downcast":
            continue
        else:
            raise CantEval(e["k"])
    return v


def eval_local(b, l, env, depth):
    if l in env:
        return env[l]
    ds = b.defs().get(l, [])
    if len(ds) != 1:
        raise CantEval("_%d has %d definitions" % (l, len(ds)))
    d = ds[0]
    if d[0] == "assign":
        rv = d[3]["rv"]
        k = rv["k"]
        if k == "use":
            return eval_int(b, rv["op"], env, depth)
        if k in ("ref", "copyforderef"):
            return eval_int(b, {"k": "copy", "place": rv["place"]}, env, depth)
        if k == "aggregate" and rv.get("akind") == "tuple":
            return tuple(eval_int(b, o, env, depth) for o in rv["ops"])
        if k == "cast" and rv["ck"] == "IntToInt":
            v = int(eval_int(b, rv["op"], env, depth))
            to = rv.get("to", "")
            if to in ("u8", "u16", "u32", "u64", "usize", "u128"):
                v &= (1 << (64 if to == "usize" else int(to[1:]))) - 1  # truncating cast
            return v
        if k == "binop":
            x = eval_int(b, rv["a"], env, depth)
            y = eval_int(b, rv["b"], env, depth)
            o = rv["op"]
            base = o.replace("WithOverflow", "").replace("Unchecked", "")
            if base == "Add":
                r = x + y
            elif base == "Sub":
                r = x - y
            elif base == "Mul":
                r = x * y
            elif base == "Div":
                r = x // y
            elif base == "Rem":
                r = x % y
            elif base == "Shr":
                r = x >> y
            elif base == "Shl":
                r = x << y
            elif base == "BitAnd":
                r = x & y
            elif base == "BitOr":
                r = x | y
            elif base == "BitXor":
                r = x ^ y
            elif base in ("Gt", "Ge", "Lt", "Le", "Eq", "Ne"):
                r = {"Gt": x > y, "Ge": x >= y, "Lt": x < y, "Le": x <= y, "Eq": x == y, "Ne": x != y}[base]
                return int(r)
            else:
                raise CantEval(o)
            return (r, 0) if o.endswith("WithOverflow") else r
        raise CantEval("rvalue " + k)
    if d[0] == "call":
        t = d[2]
        nm = callee_name(t)
        nargs = 1 if nm in ("to_usize", "to_u64", "to_u32", "unwrap", "expect", "from", "into", "try_from", "try_into", "ok") else len(t["args"])
        args = [eval_int(b, a, env, depth) for a in t["args"][:nargs]]
        if nm in ("leading_zeros", "trailing_zeros", "count_ones", "count_zeros") and "core::num" in (callee(t) or ""):
            import re as _re

            m_ = _re.search(r"impl ([ui])(\d+|size)>", callee(t) or "")
            if m_ and isinstance(args[0], int) and not isinstance(args[0], bool):
                w_ = 64 if m_.group(2) == "size" else int(m_.group(2))
                v_ = args[0] & ((1 << w_) - 1)
                if nm == "leading_zeros":
                    return w_ - v_.bit_length()
                if nm == "trailing_zeros":
                    return w_ if v_ == 0 else (v_ & -v_).bit_length() - 1
                if nm == "count_ones":
                    return bin(v_).count("1")
                return w_ - bin(v_).count("1")
        if nm == "div_rem":
            return (args[0] // args[1], args[0] % args[1])
        if nm == "div_ceil":
            return -(-args[0] // args[1])
        if nm == "div_floor":
            return args[0] // args[1]
        if nm in ("to_usize", "to_u64", "to_u32", "unwrap", "expect", "from", "into", "try_from", "try_into", "ok", "min", "max"):
            if nm == "min":
                return min(args)
            if nm == "max":
                return max(args)
            return args[0]
        # a small private function of the crate (an extracted length computation): evaluate its return value on the arguments
        fn_ = callee_fn(t)
        cb = b.facts.body(fn_["path"]) if fn_ and fn_.get("local") and fn_.get("path") and getattr(b, "facts", None) is not None else None
        if cb is not None and cb.kind in ("Fn", "AssocFn") and len(t["args"]) == cb.arg_count and depth < 30 and len(cb.blocks) <= 60:
            cenv = {k_ + 1: a_ for k_, a_ in enumerate(args)}
            return eval_local(cb, 0, cenv, depth + 5)
        raise CantEval("call " + str(nm))
    raise CantEval("def")


def check_raw_slice_lengths(ctx, res, config="all"):
    """gen_biguint: u32 view length = ceil(bits/32) and it fits the u64 buffer (len <= 2 * native_len); the shift remainder
    handed to gen_bits is bits mod 32 - decided by evaluating the length expressions read from MIR for bits = 0..=4096 and
    checking that they advance uniformly every 64 bits (so the bound holds for every bit size)"""
    facts = ctx.facts(config)
    bs = facts.find(suffix="bigrand::RandBigInt>::gen_biguint")
    if len(bs) != 1:
        res.fail(Finding("R4-anchor-lost", "gen_biguint", "not found", file="src/bigrand.rs", line=0))
        return
    b = core.inline_private(facts, bs[0], keep=("gen_bits", "biguint_from_vec", "normalized", "normalize"))
    rc = [(i, t) for i, t in b.calls() if callee_name(t) == "from_raw_parts_mut" and i in b.live_blocks()]
    fe = [(i, t) for i, t in b.calls() if callee_name(t) == "from_elem" and i in b.live_blocks()]
    gb = [(i, t) for i, t in b.calls() if callee_name(t) == "gen_bits" and i in b.live_blocks()]
    if len(rc) != 1 or len(fe) != 1 or len(gb) != 1:
        res.fail(Finding("R4-anchor-lost", "gen_biguint-shape", "expected one from_raw_parts_mut, one vec![0; n] and one gen_bits call", b))
        return
    errs = []
    lens = []
    try:
        for bits in range(0, 4097):
            env = {2: bits}
            ln = eval_int(b, rc[0][1]["args"][1], env)
            nat = eval_int(b, fe[0][1]["args"][1], env)
            rem = eval_int(b, gb[0][1]["args"][2], env)
            lens.append((ln, nat, rem))
            if ln > 2 * nat and not errs:
                errs.append("bit_size %d: the u32 view has %d words but the u64 buffer only %d digits (%d words): out-of-bounds write" % (bits, ln, nat, 2 * nat))
            if ln != -(-bits // 32) and len(errs) < 2:
                errs.append("bit_size %d: %d u32 words are generated, the documented stream uses ceil(n/32) = %d" % (bits, ln, -(-bits // 32)))
            if rem != bits % 32 and len(errs) < 3:
                errs.append("bit_size %d: gen_bits receives remainder %d, expected n mod 32 = %d" % (bits, rem, bits % 32))
    except CantEval as e:
        # an expression outside the evaluator's language: the bound is neither shown nor refuted
        res.note("R4-raw-slice-lengths: cannot evaluate the length expressions of gen_biguint (%s): the bound len <= 2*native_len is not decided" % e)
        res.ok("R4-raw-slice-lengths", b.path, {"status": "undecided"}, nontrivial=False)
        res.clause("R4-S/C18: gen_biguint's u32 view length (not decided: the length expression is outside the evaluator's language)")
        return
    # uniform advance: f(b+64) - f(b) constant  =>  the checked range generalises to every bit size
    for j in (0, 1):
        steps = {lens[i + 64][j] - lens[i][j] for i in range(0, 4097 - 64)}
        if len(steps) != 1:
            errs.append("length expression %d does not advance uniformly with the bit size" % j)
    if errs:
        res.fail(Finding("R4-raw-slice-lengths", b.path, "; ".join(errs[:3]), b))
    else:
        res.ok("R4-raw-slice-lengths", b.path, {"evaluated_bit_sizes": len(lens), "len": "ceil(bits/32)", "bound": "len <= 2*native_len", "rem": "bits mod 32"})
    res.clause("R4-S/C18: gen_biguint's u32 view has exactly ceil(n/32) words, never more than twice the u64 buffer's digits, and gen_bits gets n mod 32 (length expressions read from MIR, evaluated for n = 0..4096, uniform advance per 64 bits)")
