#!/bin/bash
# run every claimed quick check on /repo; print failures only
fail=0
for p in $(python3 -c "import json;print(' '.join(c['property_id'] for c in json.load(open('/verif/MANIFEST.json'))['checks']))"); do
  out=$(/verif/vf check $p 2>&1); rc=$?
  if [ $rc -ne 0 ]; then echo "FAIL $p"; echo "$out" | head -12; fail=1; fi
done
[ $fail -eq 0 ] && echo "all checks pass"
exit $fail
