"""R3 - guard and panic discipline.

R3a  mandatory guards exist (also in the release configuration), test the right thing and dominate the work
R3b  checked_* / total functions never reach a documented panic unguarded
R3c  panic inventory: what vanishes in release is exactly the debug_assert family
"""
from . import core, tests
from .core import Finding, callee, callee_fn, callee_name
from .tests import Atoms, consts_of, only_from_param, params_of, calls_of, fate, tests_of
from .r2 import is_big

DIV_TRAITS = {
    "core::ops::Div",
    "core::ops::Rem",
    "core::ops::DivAssign",
    "core::ops::RemAssign",
    "num_traits::Euclid",
}
INTEGER_DIV_METHODS = {"div_rem", "div_floor", "mod_floor", "div_mod_floor", "div_ceil"}
DIV_FREE = {
    "biguint::division::div_rem",
    "biguint::division::div_rem_ref",
    "biguint::division::div_rem_digit",
    "biguint::division::rem_digit",
}
CHECKED_DIV_NAMES = {"checked_div", "checked_div_euclid", "checked_rem_euclid", "checked_div_rem_euclid"}



# C16 asks a different question of the guard rules than C14 does: not "is the guard there in release builds" but "do the
# profiles agree".  With this switch on, a debug-only assertion counts as a guard; a finding that disappears then exists only
# because the guard is debug-only, i.e. the dev build panics where the release build computes on (props.profile_diff).
COUNT_DEBUG_GUARDS = [False]


def _debug_only_panic(b, blk):
    if COUNT_DEBUG_GUARDS[0]:
        return False
    return any(m.startswith("debug_assert") for ms in tests.panic_macros(b, blk) for m in ms)


def _is_div_family_body(b):
    if b.path in DIV_FREE:
        return True
    if b.kind != "AssocFn" or not b.impl:
        return False
    tys = [b.self_ty or ""] + list(b.trait_args)
    if not any(is_big(t) for t in tys):
        return False
    if b.trait in DIV_TRAITS:
        return True
    if b.trait == "num_integer::Integer" and b.name in INTEGER_DIV_METHODS:
        return True
    return False


def _is_div_family_callee(t):
    fn = callee_fn(t)
    if not fn:
        return False
    p = fn.get("path") or ""
    if p in DIV_FREE:
        return True
    tr = fn.get("impl_trait") or fn.get("raw_trait")
    nm = fn.get("raw_name")
    if tr in DIV_TRAITS:
        return True
    if tr == "num_integer::Integer" and nm in INTEGER_DIV_METHODS:
        return True
    return False


def zero_edges(body, param, tlist, atoms):
    """tests that decide 'value derived only from `param` is zero'; returns list of (test, zero_target, [nonzero targets])"""
    out = []
    for t in tlist:
        if t.cond is not None:
            c = t.cond
            if c.kind == "call" and c.name in ("is_zero", "is_empty") and c.args and only_from_param(c.args[0], param):
                out.append((t, t.t, [t.f]))
            elif c.kind == "cmp" and c.op in ("Eq", "Ne"):
                for x, y in ((c.a, c.b), (c.b, c.a)):
                    if only_from_param(x, param) and consts_of(y) == {0} and not params_of(y) and not calls_of(y):
                        if c.op == "Eq":
                            out.append((t, t.t, [t.f]))
                        else:
                            out.append((t, t.f, [t.t]))
        elif t.values is not None and t.subj is not None:
            if only_from_param(t.subj, param) and 0 in t.values:
                # not a discriminant read of an enum: require an integer-typed scrutinee
                dty = body.blocks[t.bb]["term"].get("discr_ty", "")
                if dty in ("usize", "u8", "u16", "u32", "u64", "u128", "i8", "i16", "i32", "i64", "i128", "isize"):
                    # make sure the scrutinee is not a `discriminant(..)`
                    l = core.op_local(body.blocks[t.bb]["term"]["discr"])
                    isdisc = False
                    if l is not None:
                        for d in body.defs().get(l, []):
                            if d[0] == "assign" and d[3]["rv"]["k"] == "discriminant":
                                isdisc = True
                    if not isdisc:
                        nz = [tg for v, tg in t.values.items() if v != 0]
                        out.append((t, t.values[0], nz))
    return out


ACCESSOR_NAMES = {
    "is_zero", "is_empty", "len", "deref", "deref_mut", "as_ref", "clone", "magnitude", "sign", "is_negative", "is_positive",
    "checked_uabs", "uabs", "from", "into", "capacity", "to_u8", "to_u16", "to_u32", "to_u64", "to_u128", "to_usize",
    "to_i8", "to_i16", "to_i32", "to_i64", "to_i128", "to_isize", "index", "borrow", "as_slice", "eq", "ne", "is_one",
    "unsigned_abs", "neg",
}


def check_div_guards(ctx, res, config="all"):
    facts = ctx.facts(config)
    fam = [b for b in facts.bodies if _is_div_family_body(b)]
    n_guard = n_fwd = n_unguarded = 0
    leaves = []
    for b0 in fam:
        # a private helper that is not itself a member of the family (an extracted "divide in place") is read as part of its
        # caller: the guard it contains, or the forward it makes, is the caller's
        b = core.inline_private(facts, b0, keep=tuple(DIV_FREE), depth=2)
        tl, atoms = tests_of(b)
        rets = b.return_blocks()
        # GUARD?
        guard = None
        for t, ztgt, nz in zero_edges(b, 2, tl, atoms):
            if fate(b, ztgt) != "panic":
                continue
            if _debug_only_panic(b, ztgt):
                continue
            # returns must pass the test, except along "the divisor does not fit the scalar type" edges
            # (`None` of to_uN/to_iN(divisor)), on which the divisor is necessarily non-zero
            excused = []
            for t2 in tl:
                if t2.values is None or t2.subj is None:
                    continue
                if only_from_param(t2.subj, 2) and any(c.startswith("to_") for c in calls_of(t2.subj)):
                    l2 = core.op_local(b.blocks[t2.bb]["term"]["discr"])
                    isdisc = l2 is not None and any(d[0] == "assign" and d[3]["rv"]["k"] == "discriminant" for d in b.defs().get(l2, []))
                    if isdisc and 0 in t2.values:
                        excused.append(t2.values[0])
            r_ = b.reachable(0, without_blocks=[t.bb] + excused)
            if any(x in r_ for x in rets):
                continue
            # no division work before the guard: blocks reachable without taking a non-zero edge
            pre = b.reachable(0, without_blocks=[x for x in nz if x != ztgt])
            bad = None
            for blk in pre:
                tt = b.blocks[blk]["term"]
                if tt["k"] == "call" and not core.is_panic_call(tt):
                    fn = callee_fn(tt)
                    if fn and fn.get("local") and (fn.get("raw_name") not in ACCESSOR_NAMES) and _is_div_family_callee(tt):
                        bad = tt
                if tt["k"] == "asm":
                    bad = tt
            if bad is not None:
                continue
            guard = t
            break
        if guard is not None:
            n_guard += 1
            leaves.append(b.path)
            res.ok("R3a-div-guard", b.path, {"kind": "guard", "line": guard.line})
            continue
        # FORWARD?
        fcalls = []
        for i, t in b.calls():
            if i in b.live_blocks() and _is_div_family_callee(t) and len(t["args"]) >= 2:
                a = atoms.of_operand(t["args"][1])
                if 2 in params_of(a):
                    fcalls.append(i)
        r = b.reachable(0, without_blocks=fcalls)
        if fcalls and not any(x in r for x in rets):
            n_fwd += 1
            res.ok("R3a-div-forward", b.path, None, nontrivial=False)
            continue
        # primitive division of scalars (`*self % v`) has a compiler-inserted zero check (Assert DivisionByZero):
        # accept only if an explicit guard-or-forward was not needed because the divisor is a primitive and every
        # path divides with the compiler check -- not used by this crate; report instead.
        n_unguarded += 1
        res.fail(
            Finding(
                "R3a-div-unguarded",
                b.path,
                "division-family function neither tests its divisor (parameter 2) for zero with a panic on the zero edge before any division work, "
                "nor forwards the divisor to another division-family function on every returning path",
                b,
            )
        )
    res.count("R3a division-family bodies", len(fam))
    res.count("R3a division leaves with own zero guard", n_guard)
    if len(fam) < 370:
        res.fail(Finding("R3a-anchor-lost", "div-family", "only %d division-family bodies found (floor 370)" % len(fam), file="src/biguint/division.rs", line=0))
    # the floor is about the rule still finding its instances: a leaf that lost its guard is reported by name above and
    # still counts as found
    if n_guard + n_unguarded < 19:
        res.fail(Finding("R3a-anchor-lost", "div-leaves", "only %d division leaves with their own zero guard found (floor 19)" % n_guard, file="src/biguint/division.rs", line=0))
    res.clause("R3a-div: every division-family function guards a zero divisor with a (release-mode) panic before any division work, or forwards the divisor")
    return leaves


def checked_div_bodies(facts):
    out = []
    for b in facts.bodies:
        if b.name in CHECKED_DIV_NAMES and b.kind == "AssocFn":
            tys = [b.self_ty or ""] + list(b.trait_args)
            if any(is_big(t) for t in tys):
                out.append(b)
    return out


def _then_receiver_nonzero(pb, clo_local, atoms):
    """In body pb: is closure `clo_local` the argument of `cond.then(closure)` with cond = !x.is_zero() (or x != 0)?  Returns the
    atoms of x, else None.  The closure then runs only for x != 0 and the call yields None otherwise."""
    for i, t in pb.calls():
        if callee_name(t) != "then" or len(t["args"]) != 2 or i not in pb.live_blocks():
            continue
        if "bool" not in ((callee_fn(t) or {}).get("impl_self") or callee(t) or ""):
            continue
        if core.op_local(t["args"][1]) != clo_local:
            # moved temporaries
            fr = core.Flow(pb).roots_of_operand(t["args"][1])
            if not any(r[0] == "local" and r[1] == clo_local for r in fr):
                continue
        l = core.op_local(t["args"][0])
        neg = False
        for _ in range(6):
            ds = pb.defs().get(l, []) if l is not None else []
            if len(ds) != 1:
                break
            d = ds[0]
            if d[0] == "assign" and d[3]["rv"]["k"] == "unop" and d[3]["rv"].get("op") == "Not":
                neg = not neg
                l = core.op_local(d[3]["rv"]["a"])
            elif d[0] == "assign" and d[3]["rv"]["k"] == "use":
                l = core.op_local(d[3]["rv"]["op"])
            elif d[0] == "call" and callee_name(d[2]) == "is_zero" and d[2]["args"]:
                return atoms.of_operand(d[2]["args"][0]) if neg else None
            else:
                break
    return None


def check_checked_div(ctx, res, config="all"):
    facts = ctx.facts(config)
    bs = checked_div_bodies(facts)
    for b in bs:
        tl, atoms = tests_of(b)
        ok = False
        why = "no zero test on the divisor (parameter 2)"
        for t, ztgt, nz in zero_edges(b, 2, tl, atoms):
            region = b.reachable(ztgt, without_blocks=[x for x in nz if x != ztgt])
            # zero edge: must return None and call nothing from the crate
            calls_in = [callee(b.blocks[x]["term"]) for x in region if b.blocks[x]["term"]["k"] == "call" and (callee_fn(b.blocks[x]["term"]) or {}).get("local")]
            none_set = False
            for x in region:
                for s in b.blocks[x]["stmts"]:
                    if s["k"] == "assign" and s["place"]["local"] == 0 and not s["place"]["proj"]:
                        rv = s["rv"]
                        if rv["k"] == "aggregate" and rv.get("adt") == "core::option::Option" and rv.get("variant") == "None":
                            none_set = True
            if calls_in:
                why = "the zero-divisor path still calls %s" % calls_in[0]
                continue
            if not none_set or fate(b, ztgt) != "return":
                why = "the zero-divisor path does not return None"
                continue
            # every division-family call is dominated by a non-zero edge
            bad = None
            for i, tt in b.calls():
                if i in b.live_blocks() and _is_div_family_callee(tt):
                    if not any(b.edge_dominates((t.bb, x), i) for x in nz):
                        bad = callee(tt)
            if bad:
                why = "call to %s is not dominated by the non-zero edge of the divisor test" % bad
                continue
            ok = True
            break
        if not ok and not any(_is_div_family_callee(tt) for i, tt in b.calls() if i in b.live_blocks()):
            # `(!v.is_zero()).then(|| division)`: None for a zero divisor by construction, the division runs in the closure only
            for i, si, s_ in b.stmts():
                rv = s_.get("rv")
                if rv and rv["k"] == "aggregate" and rv.get("akind") == "closure":
                    xa = _then_receiver_nonzero(b, s_["place"]["local"], atoms)
                    if xa is not None and only_from_param(xa, 2):
                        ok = True
        if ok:
            res.ok("R3b-checked-div", b.path, {"guard": "is_zero(divisor) -> None"})
        else:
            res.fail(Finding("R3b-checked-div", b.path, "checked division must return None for a zero divisor without reaching a division: " + why, b))
    res.count("R3b checked division functions", len(bs))
    if len(bs) < 9:
        res.fail(Finding("R3b-anchor-lost", "checked-div", "only %d checked division functions found (floor 9)" % len(bs), file="src/biguint/division.rs", line=0))
    res.clause("R3b: the 9 checked_div*/checked_*_euclid functions return None on a zero divisor and reach a division only behind the non-zero edge")


def check_checked_sub(ctx, res, config="all"):
    facts = ctx.facts(config)
    bs = [b for b in facts.bodies if b.name == "checked_sub" and b.trait == "num_traits::CheckedSub" and is_big(b.self_ty or "")]
    n = 0
    for b in bs:
        if "BigUint" not in b.self_ty:
            # BigInt subtraction cannot underflow: checked_sub is Some(self - v)
            continue
        n += 1
        tl, atoms = tests_of(b)
        ok = False
        why = "no three-way comparison of (self, v)"
        for t in tl:
            if t.values is None:
                continue
            # scrutinee: discriminant/ value of cmp(self, v)
            subj = t.subj or set()
            cmpc = [a for a in subj if a[0] == "call" and a[1] == "cmp"]
            if not cmpc:
                continue
            # argument order: find the cmp call
            order_ok = False
            for i, tt in b.calls():
                if callee_name(tt) == "cmp":
                    a0 = atoms.of_operand(tt["args"][0])
                    a1 = atoms.of_operand(tt["args"][1])
                    if only_from_param(a0, 1) and only_from_param(a1, 2):
                        order_ok = True
            if not order_ok:
                why = "cmp is not applied to (self, v) in this order"
                continue
            # Ordering: Less = -1 (255 as u8 / i8 bits), Equal = 0, Greater = 1
            vals = {k: v for k, v in t.values.items() if k != "otherwise"}
            less = vals.get(255, vals.get((1 << 64) - 1, vals.get((1 << 128) - 1)))
            if less is None:
                less = t.values["otherwise"] if (0 in vals and 1 in vals) else None
            greater = vals.get(1, t.values["otherwise"] if (255 in vals and 0 in vals) else None)
            if less is None or greater is None:
                why = "cannot identify Less/Greater arms"
                continue
            # Less arm: None, no crate calls
            region = b.reachable(less, without_blocks=[x for x in set(t.values.values()) if x != less])
            none_set = any(
                s["k"] == "assign" and s["place"]["local"] == 0 and s["rv"]["k"] == "aggregate" and s["rv"].get("variant") == "None"
                for x in region
                for s in b.blocks[x]["stmts"]
            )
            sub_in_less = any(b.blocks[x]["term"]["k"] == "call" and (callee_fn(b.blocks[x]["term"]) or {}).get("impl_trait") in ("core::ops::Sub", "core::ops::SubAssign") for x in region)
            if not none_set or sub_in_less:
                why = "the Less arm does not return None / still subtracts"
                continue
            bad = False
            for i, tt in b.calls():
                fn = callee_fn(tt) or {}
                if i in b.live_blocks() and fn.get("impl_trait") in ("core::ops::Sub", "core::ops::SubAssign"):
                    if not b.edge_dominates((t.bb, greater), i):
                        bad = True
            if bad:
                why = "a subtraction is reachable outside the Greater arm"
                continue
            ok = True
        if ok:
            res.ok("R3b-checked-sub", b.path, {"guard": "cmp(self,v): Less -> None, sub only under Greater"})
        else:
            res.fail(Finding("R3b-checked-sub", b.path, "BigUint::checked_sub must return None exactly when self < v and never reach the underflow panic: " + why, b))
    if n < 1:
        res.fail(Finding("R3b-anchor-lost", "checked-sub", "CheckedSub for BigUint not found", file="src/biguint/subtraction.rs", line=0))
    res.clause("R3b: BigUint::checked_sub returns None on Less and subtracts only on Greater")


# ------------------------------------------------------------------------------------------
# generic literal guards


def _match_arg(atoms, spec):
    if spec == "any":
        return True
    if isinstance(spec, int):
        return consts_of(atoms) == {spec} and not params_of(atoms)
    if isinstance(spec, str) and spec.startswith("p"):
        return only_from_param(atoms, int(spec[1:]))
    if isinstance(spec, tuple) and spec[0] == "call":
        return spec[1] in calls_of(atoms) and not params_of(atoms)
    if isinstance(spec, tuple) and spec[0] == "pcall":
        # derived from param through a given call
        return only_from_param(atoms, spec[1]) and spec[2] in calls_of(atoms)
    return False


def lit_call(name, args, truth):
    return {"kind": "call", "name": name, "args": args, "truth": truth}


def lit_cmp(op, a, b, truth):
    return {"kind": "cmp", "op": op, "a": a, "b": b, "truth": truth}


SIGN_DISCR = {"Minus": 0, "NoSign": 1, "Plus": 2}


def _sign_discriminants(facts):
    a = facts.adts.get("bigint::Sign") if facts is not None else None
    out = dict(SIGN_DISCR)
    for nm, d in (a or {}).get("discriminants", []):
        out[nm] = int(d)
    return out


def _semantic_alternatives(t, lit, b, facts):
    """other ways of writing the predicates the guard table names by method: `x.is_negative()` as a match on x.sign or `x < 0`;
    `x.is_zero()` as a match on the sign, `x.data.is_empty()` / `len() == 0`; `n.is_even()` as `n % 2 == 0` / `n & 1 == 0`"""
    if lit["kind"] != "call" or len(lit["args"]) != 1 or not str(lit["args"][0]).startswith("p"):
        return None
    k = int(lit["args"][0][1:])
    name = lit["name"]
    truth = lit["truth"]
    c = t.cond
    # a match on the sign of parameter k
    if c is None and t.values is not None and t.subj and name in ("is_negative", "is_zero", "is_positive"):
        if all(a[0] == "param" and a[1] == k and a[2][-1:] == ("sign",) for a in t.subj):
            d = _sign_discriminants(facts)
            want = {"is_negative": "Minus", "is_zero": "NoSign", "is_positive": "Plus"}[name]
            hold = t.values.get(d[want], t.values.get("otherwise"))
            others = {v for kk, v in t.values.items() if kk != d[want]}
            if truth:
                return (hold, None) if hold not in others else None
            # the literal is "not negative": only decidable when all other arms share one target
            return (next(iter(others)), None) if len(others) == 1 and hold not in others else None
    if c is None:
        return None
    # `x.sign == Minus` / `x.sign != Minus` written as a comparison with a Sign constant
    if name in ("is_negative", "is_zero", "is_positive") and (c.kind == "call" and c.name in ("eq", "ne") and len(c.args) == 2 or c.kind == "cmp" and c.op in ("Eq", "Ne")):
        want = {"is_negative": "Minus", "is_zero": "NoSign", "is_positive": "Plus"}[name]
        a0, a1 = (c.args[0], c.args[1]) if c.kind == "call" else (c.a, c.b)
        is_eq = (c.name == "eq") if c.kind == "call" else (c.op == "Eq")
        for x, y in ((a0, a1), (a1, a0)):
            if x and all(a[0] == "param" and a[1] == k and a[2][-1:] == ("sign",) for a in x) and len(y) == 1:
                e = next(iter(y))
                if e[0] == "enumconst" and (e[1] or "").endswith("Sign") and e[2] == want:
                    holds_on_true = is_eq == truth
                    return (t.t, t.f) if holds_on_true else (t.f, t.t)
    # parity through the opposite predicate
    if name in ("is_even", "is_odd") and c.kind == "call" and c.name in ("is_even", "is_odd") and c.name != name and len(c.args) >= 1:
        if _match_arg(c.args[0], lit["args"][0]):
            return (t.f, t.t) if truth else (t.t, t.f)
    if name == "is_even" and c.kind == "cmp" and c.op in ("Eq", "Ne") and b is not None:
        for x, y, rx in ((c.a, c.b, c.ra), (c.b, c.a, c.rb)):
            if params_of(x) == {k} and not calls_of(x) and consts_of(y) <= {0, 1} and not params_of(y) and len(consts_of(y)) == 1:
                l = core.op_local(rx)
                ds = b.defs().get(l, []) if l is not None else []
                if len(ds) == 1 and ds[0][0] == "assign" and ds[0][3]["rv"]["k"] == "binop":
                    rv = ds[0][3]["rv"]
                    par = (rv["op"] == "Rem" and core.op_const(rv["b"]) == 2) or (rv["op"] == "BitAnd" and core.op_const(rv["b"]) == 1)
                    if par:
                        even_when_true = (next(iter(consts_of(y))) == 0) == (c.op == "Eq")
                        holds_on_true = even_when_true == truth
                        return (t.t, t.f) if holds_on_true else (t.f, t.t)
    if name == "is_zero" and c.kind == "call" and c.name == "is_empty" and c.args:
        a0 = c.args[0]
        if a0 and all(a[0] == "param" and a[1] == k and a[2][-1:] == ("data",) for a in a0 if a[0] == "param") and params_of(a0) == {k}:
            return (t.t, t.f) if truth else (t.f, t.t)
    if name == "is_zero" and c.kind == "cmp" and c.op in ("Eq", "Ne"):
        for x, y in ((c.a, c.b), (c.b, c.a)):
            if params_of(x) == {k} and calls_of(x) <= {"len", "deref"} and "len" in calls_of(x) and consts_of(y) == {0} and not params_of(y):
                z_on_true = c.op == "Eq"
                return (t.t, t.f) if z_on_true == truth else (t.f, t.t)
            if params_of(x) == {k} and not calls_of(x) and not params_of(y) and (calls_of(y) <= {"zero"} and (calls_of(y) or any(a[0] == "named" and str(a[1]).endswith("ZERO") for a in y))):
                z_on_true = c.op == "Eq"
                return (t.t, t.f) if z_on_true == truth else (t.f, t.t)
    return None


def match_literal(t, lit, b=None, facts=None):
    """returns the target taken when the literal holds, or None if test t does not decide lit"""
    alt = _semantic_alternatives(t, lit, b, facts)
    if alt is not None:
        return alt
    c = t.cond
    if c is None:
        return None
    if lit["kind"] == "call" and c.kind == "call":
        names = lit["name"] if isinstance(lit["name"], (tuple, list, set)) else (lit["name"],)
        if c.name not in names or len(c.args) < len(lit["args"]):
            # comparison operators as calls: lt/le/gt/ge with flipped arguments
            return None
        if all(_match_arg(a, s) for a, s in zip(c.args, lit["args"])):
            return (t.t, t.f) if lit["truth"] else (t.f, t.t)
        return None
    if lit["kind"] == "cmp":
        b_body = b
        op, a, b = lit["op"], lit["a"], lit["b"]
        cands = []
        if c.kind == "cmp":
            cands.append((c.op, c.a, c.b))
        elif c.kind == "call" and c.name in ("lt", "le", "gt", "ge", "eq", "ne") and len(c.args) == 2:
            cands.append(({"lt": "Lt", "le": "Le", "gt": "Gt", "ge": "Ge", "eq": "Eq", "ne": "Ne"}[c.name], c.args[0], c.args[1]))
        body_ = b_body
        for cop, ca, cb in cands:
            for (o2, x, y) in ((cop, ca, cb), (tests.FLIP[cop], cb, ca)):
                if o2 == op and _match_arg(x, a) and _match_arg(y, b):
                    return (t.t, t.f) if lit["truth"] else (t.f, t.t)
                # for an unsigned x: `x > 0`, `x != 0` and `x >= 1` are one predicate
                if op == "Gt" and b == 0 and isinstance(a, str) and a.startswith("p") and body_ is not None and str(body_.local_ty(int(a[1:]))).lstrip("&").startswith("u"):
                    same = (o2 == "Ne" and _match_arg(x, a) and _match_arg(y, 0)) or (o2 == "Ge" and _match_arg(x, a) and _match_arg(y, 1))
                    opposite = (o2 == "Eq" and _match_arg(x, a) and _match_arg(y, 0)) or (o2 == "Lt" and _match_arg(x, a) and _match_arg(y, 1))
                    if same:
                        return (t.t, t.f) if lit["truth"] else (t.f, t.t)
                    if opposite:
                        return (t.f, t.t) if lit["truth"] else (t.t, t.f)
                if tests.NEG[o2] == op and _match_arg(x, a) and _match_arg(y, b):
                    # test decides the negation
                    return (t.f, t.t) if lit["truth"] else (t.t, t.f)
    return None


def find_panic_guard(b, lits, debug_ok=False, facts=None):
    """conjunction lits -> panic.  Returns (ok, why, detail)"""
    tl, atoms = tests_of(b)
    rets = b.return_blocks()

    def rec(idx, dom_edge, first_bb):
        if idx == len(lits):
            return None
        found_any = False
        for t in tl:
            m = match_literal(t, lits[idx], b, facts)
            if m is None:
                continue
            hold, other = m
            if hold is None:
                continue
            if dom_edge is not None and not b.edge_dominates(dom_edge, t.bb):
                continue
            found_any = True
            fb = first_bb if first_bb is not None else t.bb
            if idx == len(lits) - 1:
                if fate(b, hold) != "panic":
                    continue
                if not debug_ok and _debug_only_panic(b, hold):
                    continue
                if not all(b.block_dominates(fb, r) for r in rets):
                    continue
                return (t, fb)
            r = rec(idx + 1, (t.bb, hold), fb)
            if r is not None:
                return r
        return None

    r = rec(0, None, None)
    if r is None and len(lits) == 2:
        # a conjunction may be tested in either order (`a && b` or, after De Morgan, `!b || !a`)
        lits = [lits[1], lits[0]]
        r = rec(0, None, None)
        lits = [lits[1], lits[0]]
    if r is None:
        return False, "no branch testing %s whose outcome leads only to a (non-debug) panic and which dominates every return" % (lits,), None
    return True, "", r


# (selector, description, literals-that-panic)
def _sel(facts, **kw):
    return facts.find(**kw)


def guard_specs(facts):
    S = []

    def add(bodies, role, lits, floor=1):
        S.append((bodies, role, lits, floor))

    # negative shift
    add(facts.find(suffix="biguint::shift::biguint_shl"), "negative shift amount panics", [lit_cmp("Lt", "p2", ("call", "zero"), True)])
    add(facts.find(suffix="biguint::shift::biguint_shr"), "negative shift amount panics", [lit_cmp("Lt", "p2", ("call", "zero"), True)])
    # zero modulus / negative exponent
    add(facts.find(suffix="biguint::power::modpow"), "zero modulus panics", [lit_call("is_zero", ["p3"], True)])
    add(facts.find(suffix="biguint::power::plain_modpow"), "zero modulus panics", [lit_call("is_zero", ["p3"], True)], floor=0)
    add(facts.find(suffix="biguint::BigUint::modinv"), "zero modulus panics", [lit_call("is_zero", ["p2"], True)])
    # the exported method, with its private helpers inlined (the guards live in bigint::power::modpow today)
    add(facts.find(suffix="bigint::BigInt::modpow"), "zero modulus panics", [lit_call("is_zero", ["p3"], True)])
    add(facts.find(suffix="bigint::BigInt::modpow"), "negative exponent panics", [lit_call("is_negative", ["p2"], True)])
    # roots
    add(facts.find(trait="num_integer::Roots", self_ty="biguint::BigUint", name="nth_root"), "zeroth root panics", [lit_cmp("Gt", "p2", 0, False)])
    add(facts.find(trait="num_integer::Roots", self_ty="bigint::BigInt", name="sqrt"), "square root of a negative panics", [lit_call("is_negative", ["p1"], True)])
    add(
        facts.find(trait="num_integer::Roots", self_ty="bigint::BigInt", name="nth_root"),
        "even root of a negative panics",
        [lit_call("is_negative", ["p1"], True), lit_call("is_even", ["p2"], True)],
    )
    # random ranges
    add(facts.find(suffix="bigrand::RandBigInt>::gen_biguint_below"), "zero bound panics", [lit_call("is_zero", ["p2"], True)])
    add(facts.find(suffix="bigrand::RandBigInt>::gen_biguint_range"), "empty or inverted range panics", [lit_cmp("Lt", "p2", "p3", False)])
    add(facts.find(suffix="bigrand::RandBigInt>::gen_bigint_range"), "empty or inverted range panics", [lit_cmp("Lt", "p2", "p3", False)])
    for ty in ("bigrand::UniformBigUint", "bigrand::UniformBigInt"):
        add(facts.find(self_ty=ty, name="new", trait="rand::distributions::uniform::UniformSampler"), "empty or inverted range panics", [lit_cmp("Lt", "p1", "p2", False)])
        add(facts.find(self_ty=ty, name="new_inclusive", trait="rand::distributions::uniform::UniformSampler"), "inverted inclusive range panics", [lit_cmp("Le", "p1", "p2", False)])
    return S


GUARD_KEEP = ("is_zero", "is_negative", "is_positive", "is_even", "is_odd", "zero", "plain_modpow", "monty_modpow", "fixpoint", "gen_biguint_below", "gen_biguint", "gen_bigint")


def check_guard_table(ctx, res, config="all", roles=None):
    facts = ctx.facts(config)
    for bodies, role, lits, floor in guard_specs(facts):
        if roles and not any(r in role for r in roles):
            continue
        if len(bodies) < floor:
            res.fail(Finding("R3a-anchor-lost", role, "function carrying the guard '%s' not found" % role, file="src", line=0))
            continue
        for b in bodies:
            # a guard moved into a private helper (or written through one) is looked through
            b = core.inline_private(facts, b, keep=GUARD_KEEP)
            ok, why, det = find_panic_guard(b, lits, facts=facts)
            key = "%s|%s" % (b.path, role)
            if ok:
                res.ok("R3a-guard", key, {"config": config, "line": det[0].line})
            else:
                res.fail(Finding("R3a-guard", key, "mandatory guard missing or ineffective (%s) in config %s: %s" % (role, config, why), b))
    res.clause("R3a: documented failure guards (negative shift, zero modulus, negative exponent, zeroth/imaginary root) are non-debug, test the right operand and dominate all returns [config %s]" % config)


# ------------------------------------------------------------------------------------------
# radix

RADIX_ROLE = [
    ("to_str_radix", 36),
    ("from_str_radix", 36),
    ("parse_bytes", 36),
    ("from_radix_be", 256),
    ("from_radix_le", 256),
    ("to_radix_be", 256),
    ("to_radix_le", 256),
]


def radix_param(b):
    for i in range(1, b.arg_count + 1):
        if b.locals[i].get("name") == "radix" and b.locals[i]["ty"] == "u32":
            return i
    return None


def radix_summary(facts, b, memo, stack=()):
    """(lo, hi) range enforced by b on its radix parameter on every path that does not merely propagate an error, or None"""
    if b.path in memo:
        return memo[b.path]
    if b.path in stack:
        return None
    p = radix_param(b)
    if p is None:
        return None
    tl, atoms = tests_of(b)
    rets = b.return_blocks()
    lo = hi = None
    lo_edge = hi_edge = None
    for t in tl:
        for bound, isl in ((2, True), (36, False), (256, False)):
            lit = lit_cmp("Le", bound, "p%d" % p, True) if isl else lit_cmp("Le", "p%d" % p, bound, True)
            m = match_literal(t, lit)
            if m is None:
                continue
            hold, other = m
            if fate(b, other) != "panic":
                continue
            if _debug_only_panic(b, other):
                continue
            if isl:
                lo, lo_edge = bound, (t.bb, hold)
            else:
                hi, hi_edge = bound, (t.bb, hold)
    # the same range test written `(2..=N).contains(&radix)`
    for t in tl:
        c = t.cond
        if c is None or c.kind != "call" or c.name != "contains" or len(c.term["args"]) != 2 or t.t is None or t.f is None:
            continue
        if not only_from_param(atoms.of_operand(c.term["args"][1]), p):
            continue
        if fate(b, t.f) != "panic" or _debug_only_panic(b, t.f):
            continue
        # the range: RangeInclusive::new(lo, hi) behind a reference
        l_ = core.op_local(c.term["args"][0])
        bounds = None
        for _ in range(6):
            ds_ = b.defs().get(l_, []) if l_ is not None else []
            if len(ds_) != 1:
                break
            d_ = ds_[0]
            if d_[0] == "call" and callee_name(d_[2]) == "new" and "RangeInclusive" in (callee(d_[2]) or "") and len(d_[2]["args"]) == 2:
                k0, k1 = core.op_const(d_[2]["args"][0]) if d_[2]["args"][0]["k"] == "const" else None, core.op_const(d_[2]["args"][1]) if d_[2]["args"][1]["k"] == "const" else None
                if isinstance(k0, int) and isinstance(k1, int):
                    bounds = (k0, k1)
                break
            if d_[0] == "assign" and d_[3]["rv"]["k"] in ("ref", "use", "copyforderef"):
                pl_ = d_[3]["rv"].get("place") or core.op_place(d_[3]["rv"].get("op"))
                l_ = pl_["local"] if pl_ else None
                continue
            break
        if bounds is not None:
            lo, hi = bounds
            lo_edge = hi_edge = (t.bb, t.t)
        elif all(b.edge_dominates((t.bb, t.t), r) for r in rets):
            # a release-mode range guard on the radix whose bounds sit in a promoted constant the driver does not read
            memo[b.path] = ("range guard with unread bounds",)
            return memo[b.path]
    if lo is not None and hi is not None:
        if all(b.edge_dominates(lo_edge, r) and b.edge_dominates(hi_edge, r) for r in rets):
            memo[b.path] = (lo, hi)
            return memo[b.path]
    # forward: calls passing the radix to a callee with a radix parameter at that position
    fw = []
    summ = None
    residual = []
    for i, t in b.calls():
        if i not in b.live_blocks():
            continue
        if callee_name(t) == "from_residual":
            residual.append(i)
            continue
        fn = callee_fn(t)
        if not fn or not fn.get("local") or not fn.get("path"):
            continue
        tb = facts.body(fn["path"])
        if tb is None:
            continue
        tp = radix_param(tb)
        if tp is None or tp - 1 >= len(t["args"]):
            continue
        a = atoms.of_operand(t["args"][tp - 1])
        if not only_from_param(a, p) or calls_of(a):
            continue
        s = radix_summary(facts, tb, memo, stack + (b.path,))
        if s is None:
            continue
        fw.append(i)
        if len(s) == 1 or (summ is not None and len(summ) == 1):
            summ = s if len(s) == 1 else summ
        else:
            summ = s if summ is None else (max(summ[0], s[0]), min(summ[1], s[1]))
    if fw:
        r = b.reachable(0, without_blocks=fw + residual)
        if not any(x in r for x in rets):
            memo[b.path] = summ
            return summ
    memo[b.path] = None
    return None


def check_radix(ctx, res, config="all"):
    facts = ctx.facts(config)
    memo = {}
    n = 0
    for b in facts.bodies:
        p = radix_param(b)
        if p is None or not b.exported():
            continue
        role = None
        for nm, hi in RADIX_ROLE:
            if b.name == nm:
                role = hi
        if role is None:
            res.note("exported function %s has a radix parameter but no documented range role; not checked" % b.path)
            continue
        n += 1
        s = radix_summary(facts, b, memo)
        key = b.path
        if s == (2, role):
            res.ok("R3a-radix", key, {"range": [2, role], "config": config})
        elif s is not None and len(s) == 1:
            res.note("R3a-radix: %s: the radix is guarded by `(lo..=hi).contains(&radix)` with a release-mode panic, but the bounds are a promoted constant the facts do not carry - the range is not decided [config %s]" % (key, config))
            res.ok("R3a-radix", key, {"range": "undecided (contains)", "config": config}, nontrivial=False)
        else:
            res.fail(
                Finding(
                    "R3a-radix",
                    key,
                    "radix-taking entry point does not enforce 2..=%d with a non-debug assertion (own or in the callee it forwards the radix to) "
                    "on every non-error path; found %s [config %s]" % (role, s, config),
                    b,
                )
            )
    res.count("R3a radix entry points", n)
    if n < 14:
        res.fail(Finding("R3a-anchor-lost", "radix-entry-points", "only %d radix entry points found (floor 14)" % n, file="src/biguint.rs", line=0))
    res.clause("R3a-radix: all 14 radix-taking entry points enforce 2..=36 (text) / 2..=256 (digits) by a non-debug assertion, constants read from MIR [config %s]" % config)


# ------------------------------------------------------------------------------------------
# underflow / carry assertions


def _defs_include_call(b, local, names, depth=0, seen=None):
    """does `local` (transitively through copies/casts/field of call result) get a value from a call named in names"""
    seen = seen or set()
    if local in seen or depth > 10:
        return False
    seen.add(local)
    for d in b.defs().get(local, []) + b.partial_defs().get(local, []):
        if d[0] == "call":
            if callee_name(d[2]) in names:
                return True
        elif d[0] == "assign":
            rv = d[3]["rv"]
            ops = core.rv_operands(rv)
            for o in ops:
                pl = core.op_place(o)
                if pl and _defs_include_call(b, pl["local"], names, depth + 1, seen):
                    return True
            if rv["k"] in ("ref", "copyforderef") and _defs_include_call(b, rv["place"]["local"], names, depth + 1, seen):
                return True
    return False


def check_underflow_asserts(ctx, res, config="all"):
    facts = ctx.facts(config)
    for fname, borrow_src in (("biguint::subtraction::sub2", ("sbb",)), ("biguint::subtraction::sub2rev", ("__sub2rev",))):
        b = facts.body(fname)
        if b is None:
            res.fail(Finding("R3a-anchor-lost", fname, "%s not found" % fname, file="src/biguint/subtraction.rs", line=0))
            continue
        # private helpers (an extracted assertion, an extracted borrow loop) are looked through
        b = core.inline_private(facts, b, keep=("sbb", "__sub2rev", "adc", "schoolbook_sub_assign_x86_64"))
        tl, atoms = tests_of(b)
        rets = b.return_blocks()
        got_borrow = got_high = False
        for t in tl:
            c = t.cond
            if c is None:
                continue
            # borrow == 0, failing -> panic
            if c.kind == "cmp" and c.op in ("Eq", "Ne"):
                for x, y, rx in ((c.a, c.b, c.ra), (c.b, c.a, c.rb)):
                    if consts_of(y) == {0} and not params_of(y) and not calls_of(y):
                        l = core.op_local(rx)
                        if l is not None and _defs_include_call(b, l, borrow_src):
                            fail_t = t.f if c.op == "Eq" else t.t
                            pass_t = t.t if c.op == "Eq" else t.f
                            if fate(b, fail_t) == "panic" and not _debug_only_panic(b, fail_t):
                                if all(b.edge_dominates((t.bb, pass_t), r) for r in rets):
                                    got_borrow = True
            # b_hi.iter().all(|x| *x == 0), failing -> panic   (or its De Morgan twin: any(|x| *x != 0) holding -> panic)
            if c.kind == "call" and c.name in ("all", "any"):
                # iterator derived from the subtrahend's high part: parameter 2 for sub2 (b), parameter 2 for sub2rev (b is minuend there!)
                fail_t, pass_t = (t.f, t.t) if c.name == "all" else (t.t, t.f)
                if fate(b, fail_t) == "panic" and not _debug_only_panic(b, fail_t):
                    if all(b.edge_dominates((t.bb, pass_t), r) for r in rets):
                        # which operand's high part?  split_at(.).1 of a param
                        a0 = c.args[0]
                        ps = params_of(a0)
                        if ps and 2 in ps:
                            got_high = True
        key = fname
        if got_borrow and got_high:
            res.ok("R3a-underflow-assert", key, {"reads": ["final borrow", "high part all-zero"], "config": config})
        else:
            res.fail(
                Finding(
                    "R3a-underflow-assert",
                    key,
                    "mandatory underflow assertion missing or weakened in config %s: final-borrow test %s, high-digits all-zero test %s "
                    "(both must be non-debug, panic on failure and dominate the return)" % (config, "present" if got_borrow else "MISSING", "present" if got_high else "MISSING"),
                    b,
                )
            )
    # mac_digit: assert_eq!(final_carry, 0) on the value returned by __add2
    b = facts.body("biguint::multiplication::mac_digit")
    if b is None:
        res.fail(Finding("R3a-anchor-lost", "mac_digit", "mac_digit not found", file="src/biguint/multiplication.rs", line=0))
    else:
        tl, atoms = tests_of(b)
        rets = b.return_blocks()
        ok = False
        for t in tl:
            c = t.cond
            if c is None or c.kind != "cmp" or c.op not in ("Eq", "Ne"):
                continue
            for x, y in ((c.a, c.b), (c.b, c.a)):
                if "__add2" in calls_of(x) and consts_of(y) == {0} and not calls_of(y):
                    fail_t = t.f if c.op == "Eq" else t.t
                    pass_t = t.t if c.op == "Eq" else t.f
                    if fate(b, fail_t) == "panic" and not _debug_only_panic(b, fail_t):
                        # every path from a call of __add2 to a return takes the passing edge of this test
                        cs = [i for i, tt in b.calls() if callee(tt) == "biguint::addition::__add2" and i in b.live_blocks()]
                        if cs and all(not (set(rets) & b.reachable(i, without_edge=(t.bb, pass_t))) for i in cs):
                            ok = True
        if ok:
            res.ok("R3a-carry-assert", b.path, {"config": config})
        else:
            res.fail(Finding("R3a-carry-assert", b.path, "the final carry returned by __add2 is not checked by a non-debug assertion in mac_digit [config %s]" % config, b))
    res.clause("R3a: sub2/sub2rev underflow assertions (final borrow AND high digits) and mac_digit's carry assertion are mandatory (non-debug) [config %s]" % config)


# ------------------------------------------------------------------------------------------
# must-use of the carry returned by __add2


CARRY_FNS = ("biguint::addition::__add2", "biguint::addition::adc", "biguint::subtraction::sbb", "biguint::subtraction::__sub2rev")


def check_add2_carry_used(ctx, res, config="all"):
    facts = ctx.facts(config)
    n = 0
    for b in facts.bodies:
        for i, t in b.calls():
            if i not in b.live_blocks():
                continue
            ce = callee(t)
            if ce not in CARRY_FNS:
                continue
            n += 1
            short = ce.split("::")[-1]
            key = "%s@call#%d" % (b.path, sum(1 for j, tt in b.calls() if j < i and callee(tt) == ce))
            if ce != "biguint::addition::__add2":
                key = "%s@%s#%d" % (b.path, short, sum(1 for j, tt in b.calls() if j < i and callee(tt) == ce))
            dest = t["dest"]
            used = False
            if dest["proj"]:
                used = True
            else:
                l = dest["local"]
                if l == 0:
                    used = True  # returned to the caller (who carries the obligation)
                for bi, si, s in b.stmts():
                    if s["k"] == "assign":
                        rv = s["rv"]
                        for o in core.rv_operands(rv):
                            if core.op_local(o) == l:
                                used = True
                        if rv["k"] in ("ref",) and rv["place"]["local"] == l:
                            used = True
                for bi, tt in b.terms():
                    if tt["k"] == "switch" and core.op_local(tt["discr"]) == l:
                        used = True
                    if tt["k"] == "call":
                        for a in tt["args"]:
                            if core.op_local(a) == l:
                                used = True
            if used:
                res.ok("R3-carry-used", key, None)
            elif b.path == "biguint::addition::add2":
                # contract of add2: "the caller made room for the carry" - checked by a debug assertion only
                res.ok("R3-carry-used", key, {"exempt": "add2: caller guarantees room (documented contract)"}, nontrivial=False)
            else:
                res.fail(Finding("R3-carry-dropped", key, "the carry/borrow returned by %s is discarded; a carry out of the top digit would be lost silently" % short, b, t["span"]["line"]))
    res.count("carry-returning call sites (__add2, adc, sbb, __sub2rev)", n)
    if n < 12:
        res.fail(Finding("R3-anchor-lost", "__add2-calls", "only %d calls of the carry-returning routines found (floor 12)" % n, file="src/biguint/addition.rs", line=0))
    res.clause("R3: no call site discards the carry/borrow returned by __add2, adc, sbb or __sub2rev (except add2, whose contract is 'caller made room')")


# ------------------------------------------------------------------------------------------
# panic inventory, debug vs release


def release_live_blocks(b):
    """blocks reachable when every `if cfg!(debug_assertions)` switch of a debug_assert* expansion takes its
    disabled edge (structural definition of 'debug-only code', independent of where argument tokens come from)"""
    seen = set()
    stack = [0]
    while stack:
        x = stack.pop()
        if x in seen:
            continue
        seen.add(x)
        bl = b.blocks[x]
        t = bl.get("term")
        nxt = b.succ(x)
        if t and t["k"] == "switch":
            l = core.op_local(t["discr"])
            for st in bl["stmts"]:
                if st["k"] == "assign" and not st["place"]["proj"] and st["place"]["local"] == l:
                    ms = st["span"].get("macros", [])
                    rv = st["rv"]
                    if rv["k"] == "use" and rv["op"]["k"] == "const" and "val" in rv["op"] and any(m.startswith("debug_assert") for m in ms) and any("cfg" in m for m in ms):
                        m_ = core.switch_edges(b, x)
                        nxt = [m_.get(0, m_["otherwise"])]
        for s_ in nxt:
            if s_ not in seen:
                stack.append(s_)
    return seen


def explicit_panic_sites(facts):
    """list of dicts: body path, kind(macro), message, debug(bool), line"""
    out = []
    for b in facts.bodies:
        live = b.live_blocks()
        rel = release_live_blocks(b)
        for i, t in b.calls():
            if not core.is_panic_call(t) and callee_name(t) not in ("unwrap", "expect", "unwrap_failed", "expect_failed"):
                continue
            ms = core.span_macros(t)
            kind = None
            for m in ms:
                if m in ("debug_assert", "debug_assert_eq", "debug_assert_ne"):
                    kind = m
            if kind is None:
                for m in ms:
                    if m in ("assert", "assert_eq", "assert_ne", "panic", "unreachable", "unimplemented", "todo"):
                        kind = m
                        break
            if kind is None:
                kind = callee_name(t)
            msgs = core.panic_message(b, i)
            if kind == "unwrap":
                msgs = []  # `.unwrap()` has no message of its own; a string constant nearby belongs to a neighbouring `expect`
            out.append({"body": b.path, "kind": kind, "msg": msgs[0] if msgs else "", "debug": (i in live and i not in rel), "live": i in live, "line": t["span"]["line"], "bb": i})
    return out


def check_inventory(ctx, res):
    """(i) the explicit panic sites live in the dev configuration but dead in the release configuration are exactly the
    structurally debug-only ones (code behind `cfg!(debug_assertions)` of a debug_assert*); (ii) debug-only code has no effects"""
    fa = ctx.facts("all")
    fr = ctx.facts("all-rel")
    sa = explicit_panic_sites(fa)
    sr = explicit_panic_sites(fr)

    def keyset(sites, pred):
        c = {}
        for s_ in sites:
            if not pred(s_):
                continue
            k = (s_["body"], s_["kind"], s_["msg"])
            c[k] = c.get(k, 0) + 1
        return c

    dev_nondebug = keyset(sa, lambda s_: s_["live"] and not s_["debug"])
    dev_debug = keyset(sa, lambda s_: s_["live"] and s_["debug"])
    rel_live = keyset(sr, lambda s_: s_["live"])
    bad = 0
    for k in set(dev_nondebug) | set(rel_live):
        if dev_nondebug.get(k, 0) != rel_live.get(k, 0):
            bad += 1
            res.fail(
                Finding(
                    "R3c-profile-dependent-guard",
                    "%s|%s|%s" % k,
                    "explicit panic site `%s` (%s) in %s: %d live outside debug-only code in the dev configuration but %d live in the release configuration"
                    % (k[1], k[2][:60], k[0], dev_nondebug.get(k, 0), rel_live.get(k, 0)),
                    file="src",
                    line=0,
                )
            )
    res.count("explicit panic sites (dev, live)", sum(dev_nondebug.values()) + sum(dev_debug.values()))
    res.count("explicit panic sites (release, live)", sum(rel_live.values()))
    res.count("debug-only panic sites", sum(dev_debug.values()))
    if not bad:
        res.ok("R3c-inventory", "dev-vs-release", {"dev_nondebug": sum(dev_nondebug.values()), "release": sum(rel_live.values()), "debug_only": sum(dev_debug.values())})
    if sum(rel_live.values()) < 40:
        res.fail(Finding("R3c-anchor-lost", "panic-sites", "only %d explicit panic sites found in release (floor 40)" % sum(rel_live.values()), file="src", line=0))
    # (ii) debug-only code is effect free: it assigns no user variable and passes no &mut of a user place to a call
    n_dbg_blocks = 0
    for b in fa.bodies:
        live = b.live_blocks()
        rel = release_live_blocks(b)
        dbg = live - rel
        if not dbg:
            continue
        n_dbg_blocks += len(dbg)
        named = {i for i, l in enumerate(b.locals) if l.get("name")}
        for x in dbg:
            bl = b.blocks[x]
            for st in bl["stmts"]:
                if st["k"] != "assign":
                    continue
                tgt = st["place"]["local"]
                rv = st["rv"]
                if tgt in named or (st["place"]["proj"] and st["place"]["proj"][0]["k"] == "deref" and b.is_param(tgt)):
                    # bindings introduced by the assertion macro itself (left_val/right_val) are named too: allow if the
                    # local is only ever assigned inside debug-only code
                    all_defs = [d[1] for d in b.defs().get(tgt, []) + b.partial_defs().get(tgt, [])]
                    if any(d not in dbg for d in all_defs) or b.is_param(tgt):
                        res.fail(Finding("R6d-debug-effect", "%s|_%d" % (b.path, tgt), "debug-only code assigns user variable `%s`: debug and release builds can compute different values" % b.locals[tgt].get("name"), b, st["span"]["line"]))
                if rv["k"] == "ref" and rv.get("mut"):
                    rl = rv["place"]["local"]
                    if rl in named or b.is_param(rl):
                        all_defs = [d[1] for d in b.defs().get(rl, [])]
                        if any(d not in dbg for d in all_defs) or b.is_param(rl):
                            res.fail(Finding("R6d-debug-effect", "%s|&mut _%d" % (b.path, rl), "debug-only code takes `&mut %s`: it may modify state only in debug builds" % b.locals[rl].get("name"), b, st["span"]["line"]))
    res.count("debug-only blocks", n_dbg_blocks)
    if n_dbg_blocks:
        res.ok("R6d-debug-effect-free", "all-bodies", {"debug_only_blocks": n_dbg_blocks})
    res.clause("R3c/R6d: explicit panic sites outside debug-only code are identical in dev and release; debug-only code (behind cfg!(debug_assertions)) assigns no user state")


# ------------------------------------------------------------------------------------------
# R3b: every division call site outside the division family has a non-zero divisor by construction

TRUSTED_DIVISORS = {
    # (body path, callee name) -> reason (value-level fact, listed as an assumption)
    ("<biguint::BigUint as num_integer::Roots>::sqrt::{closure#0}", "div"): "Newton iterate s >= 1 (fixpoint never passes 0 to its closure: guess >= 1 and iterates of a value > 0)",
    ("<biguint::BigUint as num_integer::Roots>::cbrt::{closure#0}", "div"): "Newton iterate s >= 1, so s*s >= 1",
    ("<biguint::BigUint as num_integer::Roots>::nth_root::{closure#0}", "div"): "Newton iterate s >= 1, so s^(n-1) >= 1",
    ("biguint::convert::to_radix_digits_le", "div_rem"): "big_base = base^k with base != 0 from the BASES table (R7 checks the table)",
    ("biguint::convert::to_radix_digits_le", "div_rem_digit"): "base != 0 from the BASES table for non power-of-two radix (R7 checks the table)",
    ("<bigint::BigInt as num_integer::Integer>::next_multiple_of", "mod_floor"): "documented to panic for other == 0 (forwards the divisor)",
    ("<bigint::BigInt as num_integer::Integer>::prev_multiple_of", "mod_floor"): "documented to panic for other == 0 (forwards the divisor)",
    ("<biguint::BigUint as num_integer::Integer>::next_multiple_of", "mod_floor"): "documented to panic for other == 0 (forwards the divisor)",
    ("<biguint::BigUint as num_integer::Integer>::prev_multiple_of", "mod_floor"): "documented to panic for other == 0 (forwards the divisor)",
}


def _is_newton_closure(facts, cb):
    env = closure_env(facts, cb)
    if not env:
        return False
    pb, rv, cbb = env
    clo_l = None
    for i_, si_, s_ in pb.stmts():
        if s_.get("rv") is rv:
            clo_l = s_["place"]["local"]
    if clo_l is None:
        return False
    fl = core.Flow(pb)
    for i, t in pb.calls():
        if callee_name(t) == "fixpoint" and len(t["args"]) == 3 and i in pb.live_blocks():
            a = t["args"][2]
            if core.op_local(a) == clo_l or any(r[0] == "local" and r[1] == clo_l for r in fl.roots_of_operand(a)):
                return True
    return False


def _nonzero_tests(b, tl, atoms):
    """list of (test, subject_atoms, subject_local_or_None, [nonzero edge targets])"""
    out = []
    for t in tl:
        c = t.cond
        if c is not None:
            if c.kind == "call" and c.name in ("is_zero", "is_empty") and c.args:
                subj_local = _arg_root_local(b, c.term["args"][0])
                out.append((t, c.args[0], subj_local, [t.f]))
            elif c.kind == "call" and c.name in ("is_odd",) and c.args:
                out.append((t, c.args[0], _arg_root_local(b, c.term["args"][0]), [t.t]))
            elif c.kind == "cmp":
                for x, y, rx, flip in ((c.a, c.b, c.ra, False), (c.b, c.a, c.rb, True)):
                    if consts_of(y) == {0} and not params_of(y) and not calls_of(y):
                        op = tests.FLIP[c.op] if flip else c.op
                        sl = _arg_root_local(b, rx)
                        if op == "Eq":
                            out.append((t, x, sl, [t.f]))
                        elif op == "Ne":
                            out.append((t, x, sl, [t.t]))
                        elif op == "Gt":
                            out.append((t, x, sl, [t.t]))
                        elif op == "Le":  # x <= 0 is the zero side
                            out.append((t, x, sl, [t.f]))
        elif t.values is not None and t.subj is not None and 0 in t.values:
            dty = b.blocks[t.bb]["term"].get("discr_ty", "")
            if dty.startswith("u") or dty.startswith("i"):
                l = core.op_local(b.blocks[t.bb]["term"]["discr"])
                isdisc = l is not None and any(d[0] == "assign" and d[3]["rv"]["k"] == "discriminant" for d in b.defs().get(l, []))
                if not isdisc:
                    out.append((t, t.subj, None, [tg for v, tg in t.values.items() if v != 0 and tg != t.values[0]]))
    return out


def _fields(pl):
    return tuple(e.get("name", str(e.get("idx"))) for e in pl["proj"] if e["k"] == "field")


def _arg_root_local(b, op, depth=0):
    """the user-level place an operand refers to (through &, copies, deref): for `&r1` returns r1's local;
    for `&egcd.gcd.data` returns (local of egcd, 'gcd', 'data') -- a bare int for a plain local"""
    pl = core.op_place(op)
    if pl is None:
        return None
    l = pl["local"]
    fields = _fields(pl)
    for _ in range(8):
        if b.locals[l].get("name"):
            break
        ds = b.defs().get(l, [])
        if len(ds) != 1 or ds[0][0] != "assign":
            break
        rv = ds[0][3]["rv"]
        if rv["k"] in ("ref", "copyforderef"):
            fields = _fields(rv["place"]) + fields
            l = rv["place"]["local"]
        elif rv["k"] == "use" and core.op_place(rv["op"]):
            fields = _fields(rv["op"]["place"]) + fields
            l = rv["op"]["place"]["local"]
        else:
            break
    # the magnitude of a BigInt is zero iff the BigInt is zero: `.data` suffix is immaterial
    while fields and fields[-1] == "data":
        fields = fields[:-1]
    return (l,) + fields if fields else l


def _root_local(x):
    return x[0] if isinstance(x, tuple) else x


def _view_of_param(at):
    """value is a pure view (accessors only) of exactly one parameter -> that parameter"""
    ps = params_of(at)
    if len(ps) != 1:
        return None
    if any(a[0] in ("unknown", "asm") for a in at):
        return None
    if not all(c in ACCESSOR_NAMES or c.startswith("to_") for c in calls_of(at)):
        return None
    return next(iter(ps))


def _redefined_between(b, local, test_bb, nz_target, call_bb):
    defs = []
    for d in b.defs().get(local, []) + b.partial_defs().get(local, []):
        defs.append(d[1])
    for i, si, s in b.stmts():
        rv = s.get("rv")
        if rv and rv["k"] == "ref" and rv.get("mut") and rv["place"]["local"] == local:
            defs.append(i)
    if not defs:
        return False
    fwd = b.reachable(nz_target, without_blocks=[test_bb])
    for d in set(defs):
        if d in fwd and d != call_bb and call_bb in b.reachable(d, without_blocks=[test_bb]):
            return True
    return False


def closure_env(facts, cb):
    """for a closure body: (parent body, aggregate rvalue creating the closure) or None"""
    parent = cb.j.get("closure_of")
    if not parent:
        return None
    for pb in facts.by_path.get(parent, []):
        for i, si, s in pb.stmts():
            rv = s.get("rv")
            if rv and rv["k"] == "aggregate" and rv.get("akind") == "closure" and rv.get("closure") == cb.path:
                return pb, rv, i
    return None


def divisor_status(facts, b, call_bb, t, tl=None, atoms=None, depth=0):
    """classify the divisor (arg 1) of division call t in body b: returns (status, detail)"""
    if tl is None:
        tl, atoms = tests_of(b)
    D = t["args"][1]
    at = atoms.of_operand(D)
    cs = consts_of(at)
    if not params_of(at) and not calls_of(at) and cs and all(c not in (0, None) for c in cs) and not any(a[0] in ("unknown", "asm", "named") for a in at):
        return "const-nonzero", sorted(cs)
    nzt = _nonzero_tests(b, tl, atoms)
    dlocal = _arg_root_local(b, D)
    dview = _view_of_param(at)
    eligible = []
    # gcd(X, Y): non-zero iff X or Y non-zero
    gcd_args = None
    if "gcd" in calls_of(at) or "extended_gcd" in calls_of(at):
        for i, tt in b.calls():
            if callee_name(tt) in ("gcd", "extended_gcd") and len(tt["args"]) == 2:
                gcd_args = [_view_of_param(atoms.of_operand(a)) for a in tt["args"]]
    for (tst, subj, slocal, nz_targets) in nzt:
        same = False
        if slocal is not None and dlocal is not None and slocal == dlocal and b.locals[_root_local(slocal)].get("name"):
            if not any(_redefined_between(b, _root_local(slocal), tst.bb, nz, call_bb) for nz in nz_targets):
                same = True
        sview = _view_of_param(subj)
        if dview is not None and sview == dview:
            same = True
        if gcd_args and sview is not None and sview in gcd_args:
            same = True
        if same:
            for nz in nz_targets:
                eligible.append((tst.bb, nz))
    if eligible:
        # jointly dominating?
        seen = set()
        stack = [0]
        el = set(eligible)
        while stack:
            x = stack.pop()
            if x in seen:
                continue
            seen.add(x)
            for s_ in b.succ(x):
                if (x, s_) in el:
                    continue
                stack.append(s_)
        if call_bb not in seen:
            return "guarded", ["bb%d" % e[0] for e in eligible]
    # closure: divisor from a captured variable -> judge in the parent at the creation site
    if b.kind == "Closure" and depth < 2:
        env = closure_env(facts, b)
        if env:
            pb, rv, cbb = env
            # divisor atoms: ('param', 1, (fieldname...)) : env is param 1
            for a in at:
                if a[0] == "param" and a[1] == 1 and a[2]:
                    try:
                        idx = int(a[2][0])
                    except ValueError:
                        continue
                    if idx < len(rv["ops"]):
                        # the closure is the argument of `(!x.is_zero()).then(..)` with x the captured divisor
                        clo_l = None
                        for i_, si_, s_ in pb.stmts():
                            if s_.get("rv") is rv:
                                clo_l = s_["place"]["local"]
                        pat = tests.Atoms(pb)
                        xa = _then_receiver_nonzero(pb, clo_l, pat) if clo_l is not None else None
                        if xa is not None and xa == pat.of_operand(rv["ops"][idx]):
                            return "guarded", ["receiver of bool::then in %s" % pb.path]
                        fake = {"args": [None, rv["ops"][idx]], "span": t["span"]}
                        st, det = divisor_status(facts, pb, cbb, fake, depth=depth + 1)
                        if st in ("guarded", "const-nonzero", "precondition"):
                            return st, ["captured from %s" % pb.path] + list(det)
    # private function whose parameter is the divisor: precondition for the callers
    if dview is not None and not b.exported() and b.kind != "Closure":
        return "precondition", [dview]
    return "unknown", tests._short(at)


def check_division_sites(ctx, res, config="all"):
    facts = ctx.facts(config)
    n = 0
    pre = []  # (body, param) obligations on callers
    for b in facts.bodies:
        if _is_div_family_body(b) or b.name in CHECKED_DIV_NAMES:
            continue
        tl = atoms = None
        k = 0
        for i, t in b.calls():
            if i not in b.live_blocks() or not _is_div_family_callee(t) or len(t["args"]) < 2:
                continue
            fn = callee_fn(t)
            if not (is_big(fn.get("impl_self") or "") or any(is_big(a) for a in fn.get("args", [])) or fn.get("path") in DIV_FREE):
                continue
            if tl is None:
                tl, atoms = tests_of(b)
            n += 1
            key = "%s|%s#%d" % (b.path, callee_name(t), k)
            k += 1
            st, det = divisor_status(facts, b, i, t, tl, atoms)
            if st in ("guarded", "const-nonzero"):
                res.ok("R3b-divisor-nonzero", key, {"status": st, "by": det, "line": t["span"]["line"]})
            elif st == "precondition":
                owner, pidx = b, det[0]
                if isinstance(pidx, str) and pidx.startswith("captured from "):
                    # the divisor is a variable captured by this closure from a private function's parameter
                    owner, pidx = facts.body(pidx[len("captured from "):]), det[-1]
                if owner is None or not isinstance(pidx, int):
                    res.fail(Finding("R3b-unguarded-division", key, "division `%s` by a captured value whose origin cannot be resolved (%s)" % (callee(t), det), b, t["span"]["line"]))
                    continue
                pre.append((owner, pidx, key))
                res.ok("R3b-divisor-nonzero", key, {"status": "precondition on callers", "param": pidx}, nontrivial=False)
            else:
                reason = TRUSTED_DIVISORS.get((b.path, callee_name(t)))
                if reason is None and b.kind == "Closure" and callee_name(t) == "div" and _is_newton_closure(facts, b):
                    # whichever index the closure has: the function handed to `fixpoint` divides by (a power of) its own argument,
                    # the Newton iterate, which fixpoint never lets reach 0
                    da = atoms.of_operand(t["args"][1])
                    if params_of(da) == {2} and not any(a_[0] == "param" and a_[1] == 1 for a_ in da):
                        reason = "Newton iterate s >= 1 (the closure is the iteration function passed to fixpoint)"
                if reason:
                    res.ok("R3b-divisor-nonzero", key, {"status": "trusted", "reason": reason}, nontrivial=False)
                    res.assume("divisor non-zero in %s (%s): %s" % (b.path, callee_name(t), reason))
                else:
                    res.fail(
                        Finding(
                            "R3b-unguarded-division",
                            key,
                            "division `%s` by a value (%s) that is neither a non-zero constant, nor dominated by a non-zero test of the same value, "
                            "nor covered by a reviewed reason" % (callee(t), det),
                            b,
                            t["span"]["line"],
                        )
                    )
    # discharge preconditions at the callers
    for (fb, p, key) in pre:
        callers = 0
        for b in facts.bodies:
            tl = atoms = None
            for i, t in b.calls():
                if i not in b.live_blocks() or callee(t) != fb.path:
                    continue
                callers += 1
                if tl is None:
                    tl, atoms = tests_of(b)
                fake = {"args": [None, t["args"][p - 1]], "span": t["span"]}
                st, det = divisor_status(facts, b, i, fake, tl, atoms)
                ck = "%s<-%s" % (key, b.path)
                if st in ("guarded", "const-nonzero"):
                    res.ok("R3b-divisor-precondition", ck, {"status": st, "by": det})
                elif st == "precondition" and b.path != fb.path:
                    res.ok("R3b-divisor-precondition", ck, {"status": "passed on to private caller"}, nontrivial=False)
                else:
                    res.fail(
                        Finding(
                            "R3b-unguarded-division",
                            ck,
                            "%s divides by its parameter %d without a zero test; caller %s passes a value not shown to be non-zero (%s)" % (fb.path, p, b.path, det),
                            b,
                            t["span"]["line"],
                        )
                    )
        if callers == 0:
            res.note("private function %s with a divisor precondition has no callers" % fb.path)
    res.count("R3b division call sites outside the division family", n)
    if n < 25:
        res.fail(Finding("R3b-anchor-lost", "division-sites", "only %d division call sites found (floor 25)" % n, file="src", line=0))
    res.clause("R3b: each of the ~29 Big-family division call sites outside the division family divides by a non-zero constant, a value behind a dominating non-zero test (incl. gcd of a non-zero operand, modulus asserts), or a reviewed trusted value")


def check_residue_complement(ctx, res, config="all"):
    """every `m - r` mapping a canonical residue r in [0,m) to the other sign's representative must be behind r != 0"""
    facts = ctx.facts(config)
    targets = []
    targets += facts.find(suffix="bigint::BigInt::modinv")
    targets += facts.find(suffix="bigint::BigInt::modpow")  # exported method; its private helper (bigint::power::modpow) is inlined
    targets += facts.find(trait="num_integer::Integer", self_ty="bigint::BigInt", name="mod_floor")
    targets += facts.find(trait="num_integer::Integer", self_ty="bigint::BigInt", name="div_mod_floor")
    n = 0
    for b in targets:
        b = core.inline_private(facts, b)  # a shared private tail (sign placement helper) is looked through
        tl, atoms = tests_of(b)
        k = 0
        for i, t in b.calls():
            fn = callee_fn(t)
            if i not in b.live_blocks() or not fn or (fn.get("impl_trait") != "core::ops::Sub") or len(t["args"]) != 2:
                continue
            a0 = atoms.of_operand(t["args"][0])
            a1 = atoms.of_operand(t["args"][1])
            # minuend is (a view of) the modulus parameter, subtrahend is a computed residue
            mv = _view_of_param(a0)
            if mv is None or not calls_of(a1):
                continue
            n += 1
            key = "%s|complement#%d" % (b.path, k)
            k += 1
            st, det = divisor_status(facts, b, i, t, tl, atoms)
            if st == "guarded":
                res.ok("R3b-residue-complement", key, {"guard": det, "line": t["span"]["line"]})
            else:
                res.fail(
                    Finding(
                        "R3b-residue-complement",
                        key,
                        "`modulus - residue` is computed without a dominating residue != 0 test: for a zero residue the result is |modulus| "
                        "(outside the documented interval) instead of 0",
                        b,
                        t["span"]["line"],
                    )
                )
    if len(targets) < 4 or n < 4:
        res.fail(Finding("R3b-anchor-lost", "residue-complement", "only %d modulus-minus-residue sites in %d functions found (expected modpow, modinv, mod_floor, div_mod_floor with at least one each)" % (n, len(targets)), file="src/bigint.rs", line=0))
    res.clause("R3b: every modulus-minus-residue complement (mod_floor, div_mod_floor, modpow, modinv) is dominated by residue != 0")


def check_parity_dispatch(ctx, res, config="all"):
    facts = ctx.facts(config)
    bs = facts.find(suffix="biguint::power::modpow")
    if not bs:
        res.fail(Finding("R3b-anchor-lost", "modpow", "biguint::power::modpow not found", file="src/biguint/power.rs", line=0))
        return
    b = bs[0]
    tl, atoms = tests_of(b)
    ok = False
    n = 0
    for i, t in b.calls():
        if (callee(t) or "").endswith("monty::monty_modpow") and i in b.live_blocks():
            n += 1
            mod_view = _view_of_param(atoms.of_operand(t["args"][2]))
            for tst in tl:
                c = tst.cond
                if c is not None and c.kind == "call" and c.name == "is_odd" and _view_of_param(c.args[0]) == mod_view and mod_view is not None:
                    if b.edge_dominates((tst.bb, tst.t), i):
                        ok = True
    if n == 0:
        res.fail(Finding("R3b-anchor-lost", "monty-dispatch", "no call of monty_modpow in modpow", b))
    elif ok:
        res.ok("R3b-parity-dispatch", b.path, {"rule": "monty_modpow only behind is_odd(modulus)"})
    else:
        res.fail(Finding("R3b-parity-dispatch", b.path, "monty_modpow (which requires an odd modulus) is called without a dominating is_odd(modulus) test on the same modulus", b))
    res.clause("R3b: the Montgomery path is entered only behind is_odd(modulus)")


# ------------------------------------------------------------------------------------------
# R3c: reviewed table of release-live explicit panic sites; anything new is unclassified


def _site_table_path():
    import os

    return os.path.join(core.VERIF, "tables", "r3c_panic_sites.json")


def _classify(body, kind, msg):
    m = msg.lower()
    if "divide by zero" in m or "zero modulus" in m or "negative exponentiation" in m or "radix must be" in m or "shift left with negative" in m or "shift right with negative" in m or "imaginary" in m or "root degree" in m or "cannot subtract" in m or "lbound < *ubound" in m or "low <" in m or "bound.is_zero" in m:
        return "DOCUMENTED"
    if "capacity overflow" in m or "memory overflow" in m:
        return "OUT-OF-SCOPE (result does not fit in memory)"
    if kind == "unreachable":
        return "INTERNAL (after a zero-divisor panic)"
    if kind in ("unwrap", "expect"):
        return "STRUCTURALLY-GUARDED / INTERNAL"
    return "INTERNAL"


def current_sites(ctx):
    fr = ctx.facts("all-rel")
    c = {}
    for s_ in explicit_panic_sites(fr):
        if s_["live"]:
            # matched by function and message text, not by macro kind: `assert!(c, m)` and `if !c { panic!(m) }` are the same site
            kind = s_["kind"] if not s_["msg"] else "panic"
            k = "%s|%s|%s" % (s_["body"], kind, s_["msg"][:60])
            c[k] = c.get(k, 0) + 1
    # checked negation of signed primitives (dev configuration: OverflowNeg assertions)
    fa = ctx.facts("all")
    for b in fa.bodies:
        for i, t in b.terms("assert"):
            if t["msg"] == "OverflowNeg" and i in b.live_blocks():
                k = "%s|checked-negation|OverflowNeg" % b.path
                c[k] = c.get(k, 0) + 1
    return c


def write_site_table(ctx):
    import json, os

    c = current_sites(ctx)
    tab = {k: {"count": v, "class": _classify(*k.split("|", 2))} for k, v in sorted(c.items())}
    os.makedirs(os.path.dirname(_site_table_path()), exist_ok=True)
    with open(_site_table_path(), "w") as fh:
        json.dump({"comment": "release-live explicit panic sites (+ checked negations of signed primitives) reviewed on the pinned tree; key = function|kind|message", "sites": tab}, fh, indent=0)
    return len(tab)


REQUIRED_EVERYWHERE = {"attempt to divide by zero"}


def check_panic_site_table(ctx, res):
    import json, os

    p = _site_table_path()
    if not os.path.exists(p):
        res.fail(Finding("R3c-anchor-lost", "site-table", "tables/r3c_panic_sites.json missing", file="(verif)", line=0))
        return
    with open(p) as fh:
        tab = json.load(fh)["sites"]
    def canon(k):
        body, kind, msg = k.split("|", 2)
        # a message-less assert!(c) and `if !c { panic!() }` are the same site; unwrap/expect stay distinct
        if not msg and kind in ("assert", "assert_eq", "assert_ne", "panic", "unreachable"):
            kind = "panic"
        return "%s|%s|%s" % (body, kind, msg)

    tab_c = {}
    for k, v in tab.items():
        tab_c[canon(k)] = tab_c.get(canon(k), 0) + v.get("count", 0)
    cur_raw = current_sites(ctx)
    cur = {}
    for k, n in cur_raw.items():
        cur[canon(k)] = cur.get(canon(k), 0) + n
    fr = ctx.facts("all-rel")
    fa = ctx.facts("all")
    existing = {b.path for b in fr.bodies} | {b.path for b in fa.bodies}
    callers = {}
    for b in fa.bodies:
        for i, t in b.calls():
            ce = callee(t)
            if ce:
                callers.setdefault(ce, set()).add(b.path)

    def form_key(bd):
        def unref(t_):
            t_ = t_ or ""
            while t_.startswith("&"):
                t_ = t_[1:].lstrip()
                if t_.startswith("mut "):
                    t_ = t_[4:]
            return t_

        return (bd.trait, bd.name, unref(bd.self_ty), tuple(unref(a_) for a_ in bd.trait_args)) if bd.trait else None

    def sibling_owns(path, kind, msg):
        """another by-value / by-reference form of the same trait method owns this site in the inventory (the forms used to
        forward to each other; C10 makes them behave alike)"""
        bd = fa.body(path)
        fk = form_key(bd) if bd is not None else None
        if fk is None:
            return False
        for k_ in tab_c:
            pb_, kd_, ms_ = k_.split("|", 2)
            if (kd_, ms_) == (kind, msg) and pb_ != path:
                ob = fa.body(pb_)
                if ob is not None and form_key(ob) == fk:
                    return True
        return False

    def moved_from_callers(body, kind, msg):
        """the site sits in a private helper all of whose (transitive) callers are functions that own this very site in the
        reviewed inventory: the panic was moved into a helper, not added"""
        bb_ = fa.body(body) or fr.body(body)
        if bb_ is None or bb_.exported():
            return False
        roots, seen, work = set(), set(), [body]
        while work:
            x = work.pop()
            if x in seen:
                continue
            seen.add(x)
            cs = callers.get(x, set()) - {x}
            if not cs:
                return False
            for c_ in cs:
                if tab_c.get("%s|%s|%s" % (c_, kind, msg), 0) > 0 or sibling_owns(c_, kind, msg):
                    roots.add(c_)
                else:
                    cb = fa.body(c_)
                    if cb is None or cb.exported() and cb.kind != "Closure":
                        return False
                    work.append(c_)
        return bool(roots)

    def moved_from_removed(kind, msg):
        """the reviewed inventory has this site in a function that no longer exists (a helper was inlined into its callers)"""
        return any(k_.split("|", 2)[1:] == [kind, msg] and k_.split("|", 2)[0] not in existing for k_ in tab_c)

    def duplicates_callee(body, kind, msg):
        """the site restates, with the same message, a documented failure that a function it (transitively) calls already owns
        in the reviewed inventory - a guard hoisted in front of the call that would panic with these words anyway"""
        if not msg:
            return False
        reach_ = fa.reach_calls([body]) - {body}
        return any(tab_c.get("%s|%s|%s" % (x, kind, msg), 0) > 0 for x in reach_)

    def moved_from_owner(body, kind, msg):
        """an inventory owner of this very site now has fewer of them and (transitively) calls this function: the site moved
        into a helper that other forms share"""
        for k_, allowed_ in tab_c.items():
            pb_, kd_, ms_ = k_.split("|", 2)
            if (kd_, ms_) == (kind, msg) and pb_ != body and cur.get(k_, 0) < allowed_ and body in fa.reach_calls([pb_]):
                return True
        return False

    def same_operand_negations(body):
        """every overflow-checked negation in the function negates one and the same variable: more of them than the inventory
        counted add no new way to overflow"""
        bd = fa.body(body)
        if bd is None:
            return False
        roots = set()
        for i_, si_, st_ in bd.stmts():
            rv_ = st_.get("rv") if st_["k"] == "assign" else None
            if rv_ and rv_["k"] == "unop" and rv_.get("op") == "Neg":
                l_ = core.op_local(rv_["a"])
                if l_ is None:
                    return False
                # copy root
                for _ in range(20):
                    ds_ = bd.defs().get(l_, [])
                    if len(ds_) == 1 and ds_[0][0] == "assign" and ds_[0][3]["rv"]["k"] == "use" and core.op_local(ds_[0][3]["rv"]["op"]) is not None:
                        l_ = core.op_local(ds_[0][3]["rv"]["op"])
                    else:
                        break
                roots.add(l_)
        return len(roots) == 1

    new = 0
    for k, n in sorted(cur.items()):
        allowed = tab_c.get(k, 0)
        if n > allowed:
            body, kind, msg = k.split("|", 2)
            if kind == "checked-negation" and allowed > 0 and same_operand_negations(body):
                res.ok("R3c-site", k, {"same operand": "the function negates the same reviewed operand more often"}, nontrivial=False)
                continue
            # only for the failure that every function of the family must have anyway (R3a-div demands a zero-divisor panic of
            # each division-family function, so reaching it by another route adds no new failure case); for any other message a
            # helper shared with a function that did not own the site gives that function a new panic (seed C14-6)
            if kind != "checked-negation" and msg in REQUIRED_EVERYWHERE and (duplicates_callee(body, kind, msg) or moved_from_owner(body, kind, msg)):
                res.ok("R3c-site", k, {"moved": "restates / relocates a site (kind, message) that the reviewed inventory has in a function on this call path"}, nontrivial=False)
                continue
            if kind != "checked-negation" and (moved_from_callers(body, kind, msg) or moved_from_removed(kind, msg)):
                res.ok("R3c-site", k, {"moved": "same site (kind, message) as the reviewed inventory has in this function's callers / in a removed helper"}, nontrivial=False)
                continue
            new += 1
            body, kind, msg = k.split("|", 2)
            bb = fr.body(body)
            if kind == "checked-negation":
                why = "negation of a signed primitive with an overflow check: it panics in debug builds (and wraps in release) when the value is MIN; the crate's idiom is wrapping_neg / unsigned_abs / checked_uabs"
            else:
                why = "a release-live panic site `%s` (%s) that is not in the reviewed inventory: it is not shown to fire only in a documented failure case" % (kind, msg or "no message")
            res.fail(Finding("R3c-unclassified-panic", k, "%s has %d such site(s), the reviewed inventory allows %d: %s" % (body, n, allowed, why), bb, file=None if bb else "src"))
        else:
            res.ok("R3c-site", k, None, nontrivial=False)
    gone = [k for k in tab_c if k not in cur]
    for k in gone[:10]:
        res.note("inventory entry no longer present: %s" % k)
    res.count("R3c inventory entries", len(tab))
    res.count("R3c current site keys", len(cur))
    res.distinct.add("R3c-site:inventory")
    if len(cur) < 60:
        res.fail(Finding("R3c-anchor-lost", "sites", "only %d site keys found (floor 60)" % len(cur), file="src", line=0))
    res.clause("R3c: every release-live explicit panic site (and every overflow-checked negation of a signed primitive) belongs to the reviewed inventory; a new one is unclassified")


def check_underflow_check_sees_all_digits(ctx, res, config="all"):
    """the underflow assertion of sub2 / sub2rev inspects the subtrahend's digits beyond the minuend's length; it can only do so
    if the subtrahend operand handed to it is not a proper sub-range (prefix / middle) of a digit vector"""
    facts = ctx.facts(config)
    n = 0
    for b in facts.bodies:
        k = 0
        for i, t in b.calls():
            c = callee(t) or ""
            if i not in b.live_blocks() or not (c.endswith("subtraction::sub2") or c.endswith("subtraction::sub2rev") or c.endswith("subtraction::__sub2rev")):
                continue
            n += 1
            key = "%s|%s#%d" % (b.path, c.split("::")[-1], k)
            k += 1
            sub = t["args"][1]
            fl = core.Flow(b, transparent={"deref", "deref_mut", "as_slice", "as_mut_slice"})
            rr = fl.roots_of_operand(sub)
            bad = None
            for r in rr:
                if r[0] == "call" and (r[2] or "").find("index") >= 0:
                    # which range type indexes the vector?
                    cal = b.blocks[r[1]]["term"]
                    full = callee_fn(cal).get("full") or ""
                    if "RangeTo<" in full or "ops::Range<" in full or "RangeInclusive" in full or "RangeToInclusive" in full:
                        # stripping high *zero* digits (range end = rposition of the last non-zero digit) loses nothing;
                        # a cut at another vector's length does
                        at_ = Atoms(b)
                        ra = at_.of_operand(cal["args"][1])
                        if "rposition" in calls_of(ra) and "len" not in calls_of(ra):
                            continue
                        # the cut is computed from the cut vector's own digits (its length minus a count of its own high zeros)
                        own = params_of(at_.of_operand(cal["args"][0]))
                        if own and params_of(ra) <= own and (calls_of(ra) & {"rposition", "take_while", "count", "position", "skip_while"}):
                            continue
                        bad = full
            if bad:
                res.fail(Finding("R3a-underflow-coverage", key, "the subtrahend passed to %s is a truncated sub-range (%s): digits beyond it are invisible to the mandatory underflow assertion, so a larger subtrahend can go undetected" % (c.split("::")[-1], bad.split(" for ")[0][-60:]), b, t["span"]["line"]))
            else:
                res.ok("R3a-underflow-coverage", key, None)
    res.count("sub2/sub2rev call sites", n)
    if n < 8:
        res.fail(Finding("R3a-anchor-lost", "sub2-callers", "only %d call sites of sub2/sub2rev found (floor 8)" % n, file="src/biguint/subtraction.rs", line=0))
    res.clause("R3a: no call site hands sub2/sub2rev a truncated prefix of the subtrahend (the underflow assertion must see all its digits)")


def check_gcd_zero_cases(ctx, res, config="all"):
    """BigUint::gcd: gcd(0, b) = b and gcd(a, 0) = a are decided by early returns before the binary algorithm
    (Stein's loop never terminates correctly / strips factors of two when an operand is zero)"""
    facts = ctx.facts(config)
    bs = facts.find(trait="num_integer::Integer", self_ty="biguint::BigUint", name="gcd")
    if len(bs) != 1:
        res.fail(Finding("R3b-anchor-lost", "gcd", "BigUint::gcd not found", file="src/biguint.rs", line=0))
        return
    b = bs[0]
    tl, atoms = tests_of(b)
    # "work": the first call that is not an accessor / clone (the twos() helper, shifts, subtraction ...)
    work = [i for i, t in b.calls() if i in b.live_blocks() and callee_name(t) not in ("is_zero", "clone", "deref") and not core.is_panic_call(t)]
    for p, other in ((1, 2), (2, 1)):
        ok = False
        for t, ztgt, nz in zero_edges(b, p, tl, atoms):
            region = b.reachable(ztgt, without_blocks=[x for x in nz if x != ztgt])
            if any(w in region for w in work):
                continue
            # returns a clone of the other operand
            rets_clone = False
            for x in region:
                tt = b.blocks[x]["term"]
                if tt["k"] == "call" and callee_name(tt) == "clone" and tt["dest"]["local"] == 0:
                    if only_from_param(atoms.of_operand(tt["args"][0]), other):
                        rets_clone = True
            if not rets_clone or fate(b, ztgt) != "return":
                continue
            if all(b.edge_dominates((t.bb, x), w) for w in work for x in nz[:1]):
                ok = True
        key = "gcd(%s)" % ("0, b" if p == 1 else "a, 0")
        if ok:
            res.ok("R3b-gcd-zero-case", key, {"returns": "the other operand, before the binary algorithm"})
        else:
            res.fail(Finding("R3b-gcd-zero-case", key, "BigUint::gcd has no early return of the other operand for a zero operand %d before entering the binary (Stein) algorithm" % p, b))
    res.clause("C13: BigUint::gcd returns the other operand for a zero operand (both sides) before the binary algorithm starts")


def _ref_base(b, op, depth=0):
    """(base local, is_mut) of the place a reference operand points to, through copies / reborrows; None if unclear"""
    if depth > 12:
        return None
    pl = core.op_place(op)
    if pl is None:
        return None
    l = pl["local"]
    ds = b.defs().get(l, [])
    if len(ds) != 1 or ds[0][0] != "assign":
        return None
    rv = ds[0][3]["rv"]
    if rv["k"] == "use":
        return _ref_base(b, rv["op"], depth + 1)
    if rv["k"] == "ref":
        p2 = rv["place"]
        if not p2["proj"]:
            return (p2["local"], bool(rv.get("mut")))
        if all(e["k"] == "deref" for e in p2["proj"]):
            r = _ref_base(b, {"k": "copy", "place": {"local": p2["local"], "proj": []}}, depth + 1)
            if r is None:
                # a reference parameter: the base is the parameter itself
                return (p2["local"], bool(rv.get("mut"))) if p2["local"] <= b.arg_count else None
            return (r[0], r[1] and bool(rv.get("mut")) or bool(rv.get("mut")))
    return None


def check_gcd_nonzero_at_shift(ctx, res, config="all"):
    """Stein's algorithm takes the common power of two as min(tz(m), tz(n)).  `trailing_zeros()` of zero is None, which the
    helper turns into 0 - so a working value that can be zero at that point silently loses the common factor.  Each value whose
    trailing zeros feed that `min` must be provably non-zero there: a dominating `is_zero()` = false test of the value itself,
    or of the operand it was cloned from, with no modification of the value in between."""
    facts = ctx.facts(config)
    bs = facts.find(trait="num_integer::Integer", self_ty="biguint::BigUint", name="gcd")
    if len(bs) != 1:
        res.fail(Finding("R3b-anchor-lost", "gcd", "BigUint::gcd not found", file="src/biguint.rs", line=0))
        return
    b0 = bs[0]
    b = core.inline_private(facts, b0, depth=2)
    live = b.live_blocks()
    tl, atoms = tests_of(b)
    calls = [(i, t) for i, t in b.calls() if i in live]
    dest_of = {t["dest"]["local"]: (i, t) for i, t in calls if t.get("dest")}
    mins = [(i, t) for i, t in calls if callee_name(t) == "min" and len(t["args"]) == 2]
    if not mins:
        res.note("R3b-gcd-nonzero: no min(..) of trailing-zero counts found in BigUint::gcd - the common power of two is computed another way, not decided")
        res.clause("C13: the values whose trailing zeros give gcd's common power of two are non-zero there (not decided: other shape)")
        return
    # forward must-analysis of the fact "local X holds a non-zero value":
    #   gen   on the false edge of `is_zero(&X)` (X a local or a reference parameter), by `X = clone(&Y)` / `X = move Y` from Y's fact
    #   kill  by any call that receives `&mut X`, by any other assignment of X
    #   meet  = and over the predecessors
    zero_tests = {}
    for t in tl:
        c = t.cond
        if c is None or c.kind != "call" or c.name != "is_zero" or not c.term["args"] or t.f is None:
            continue
        rr = _ref_base(b, c.term["args"][0])
        if rr is not None:
            zero_tests.setdefault((t.bb, t.f), set()).add(rr[0])
    nloc = len(b.locals)
    TOP = None  # unvisited
    state_in = {0: frozenset()}
    work = [0]

    def transfer(blk, st):
        st = set(st)
        for s_ in b.blocks[blk]["stmts"]:
            if s_["k"] != "assign":
                continue
            pl = s_["place"]
            if pl["proj"]:
                continue
            x_ = pl["local"]
            rv = s_["rv"]
            src = core.op_local(rv["op"]) if rv["k"] == "use" else None
            if src is not None and src in st:
                st.add(x_)
            else:
                st.discard(x_)
        t_ = b.blocks[blk].get("term")
        if t_ and t_["k"] == "call":
            for a in t_["args"]:
                r_ = _ref_base(b, a)
                if r_ is not None and r_[1]:
                    st.discard(r_[0])
            d_ = t_.get("dest")
            if d_ is not None and not d_["proj"]:
                if callee_name(t_) == "clone" and t_["args"]:
                    r_ = _ref_base(b, t_["args"][0])
                    if r_ is not None and r_[0] in st:
                        st.add(d_["local"])
                    else:
                        st.discard(d_["local"])
                else:
                    st.discard(d_["local"])
        return st

    it = 0
    while work and it < 5000:
        it += 1
        blk = work.pop()
        out = transfer(blk, state_in[blk])
        for s2 in b.succ(blk):
            o2 = set(out) | zero_tests.get((blk, s2), set())
            if s2 not in state_in:
                state_in[s2] = frozenset(o2)
                work.append(s2)
            else:
                m2 = state_in[s2] & frozenset(o2)
                if m2 != state_in[s2]:
                    state_in[s2] = m2
                    work.append(s2)
    n = 0
    for mi, mt in mins:
        for a in mt["args"]:
            l = core.op_local(a)
            tz = None
            for _ in range(12):
                if l is None:
                    break
                if l not in dest_of:
                    # a copy of another local (inlined helper's return value, temporaries)
                    ds_ = [d for d in b.defs().get(l, []) if d[0] == "assign"]
                    if len(ds_) >= 1 and all(d[3]["rv"]["k"] == "use" for d in ds_):
                        srcs = {core.op_local(d[3]["rv"]["op"]) for d in ds_}
                        if len(srcs) == 1 and None not in srcs:
                            l = srcs.pop()
                            continue
                    break
                ci, ct = dest_of[l]
                if callee_name(ct) == "trailing_zeros":
                    tz = (ci, ct)
                    break
                # the count may be produced inside a closure handed to an Option combinator (`first().map_or(0, |d| d.trailing_zeros())`)
                for a_ in ct["args"]:
                    al_ = core.op_local(a_)
                    for d_ in b.defs().get(al_, []) if al_ is not None else []:
                        if d_[0] == "assign" and d_[3]["rv"]["k"] == "aggregate" and d_[3]["rv"].get("akind") == "closure":
                            cb_ = facts.body(d_[3]["rv"]["closure"])
                            for ci2, ct2 in (cb_.calls() if cb_ is not None else []):
                                if callee_name(ct2) == "trailing_zeros":
                                    tz = (ci, ct2)
                if tz is not None:
                    break
                l = core.op_local(ct["args"][0]) if ct["args"] else None
                if l is None and ct["args"]:
                    l = (core.op_place(ct["args"][0]) or {}).get("local")
            if tz is None:
                res.note("R3b-gcd-nonzero: an argument of min(..) in BigUint::gcd is not a trailing-zero count read from a call - not decided")
                continue
            zi, zt = tz
            if "core::num" in (callee(zt) or ""):
                # the count is taken from one machine word (a digit), not from the number: at most BITS, however many zero
                # digits the operands share
                n += 1
                res.fail(Finding("R3b-gcd-nonzero", "gcd|tz-of-a-digit#%d" % (n - 1), "BigUint::gcd takes a trailing-zero count that feeds the common power of two from a single digit (`%s`, line %s): operands whose common factor of two spans more than one digit lose it" % (callee(zt), zt["span"]["line"]), b0, zt["span"]["line"]))
                continue
            r = _ref_base(b, zt["args"][0])
            if r is None:
                res.note("R3b-gcd-nonzero: receiver of trailing_zeros() not resolved - not decided")
                continue
            x = r[0]
            n += 1
            key = "gcd|tz#%d" % (n - 1)
            if x in state_in.get(zi, frozenset()):
                res.ok("R3b-gcd-nonzero", key, {"value": b.locals[x].get("name") or "_%d" % x})
            else:
                res.fail(Finding("R3b-gcd-nonzero", key, "BigUint::gcd takes the common power of two from trailing_zeros() of `%s`, which is not provably non-zero there (on some path it is modified after the last is_zero() test, or never tested): trailing_zeros() of zero counts as 0, so the common factor of two is lost whenever the value is zero" % (b.locals[x].get("name") or "_%d" % x), b0, zt["span"]["line"]))
    res.count("gcd trailing-zero counts feeding the common shift", n)
    res.clause("C13: the values whose trailing zeros give gcd's common power of two are provably non-zero at that point (dominating is_zero test, no modification in between)")


def check_parse_validation_order(ctx, res, config="all"):
    """text parsing: the empty-input and leading-underscore rejections are applied to the string *after* the optional sign has
    been stripped (otherwise "+_1" / "+" are judged on the wrong first character); failures are Err, never a panic"""
    facts = ctx.facts(config)
    n = 0
    for ty, sign_char in (("biguint::BigUint", 43), ("bigint::BigInt", 45)):
        bs = facts.find(trait="num_traits::Num", self_ty=ty, name="from_str_radix")
        if len(bs) != 1:
            res.fail(Finding("R3-anchor-lost", "from_str_radix " + ty, "not found", file="src", line=0))
            continue
        b = bs[0]
        n += 1
        strips = [i for i, t in b.calls() if i in b.live_blocks() and callee_name(t) == "strip_prefix" and any(core.op_const(a) == sign_char for a in t["args"])]
        key = "%s::from_str_radix" % ty.split("::")[-1]
        if len(strips) != 1:
            res.fail(Finding("R3-parse-order", key, "the optional sign is not removed with strip_prefix(%r) exactly once" % chr(sign_char), b))
            continue
        errs = []
        if ty.endswith("BigUint"):
            us = [i for i, t in b.calls() if i in b.live_blocks() and callee_name(t) == "starts_with" and any(core.op_const(a) == 95 for a in t["args"])]
            em = [i for i, t in b.calls() if i in b.live_blocks() and callee_name(t) == "is_empty"]
            if not us or not em:
                # written with another idiom: the order cannot be judged here (the accept/reject language itself is not decided)
                res.note("%s: leading-'_' / empty-input tests not recognised (idiom other than starts_with('_') / is_empty()); order not checked" % key)
            for i in us + em:
                if not b.block_dominates(strips[0], i):
                    errs.append("the %s test is not applied to the sign-stripped string" % ("leading '_'" if i in us else "empty-input"))
            # rejected inputs produce Err (the true edge of each test reaches a return through an Err aggregate, no panic)
            tl, atoms = tests_of(b)
            for t in tl:
                c = t.cond
                if c is not None and c.kind == "call" and ((c.name == "starts_with" and t.bb - 0 >= 0 and any(95 in consts_of(a) for a in c.args)) or c.name == "is_empty"):
                    reg = b.reachable(t.t, without_blocks=[t.f])
                    iserr = any(s["k"] == "assign" and s["place"]["local"] == 0 and s["rv"]["k"] == "aggregate" and s["rv"].get("variant") == "Err" for x in reg for s in b.blocks[x]["stmts"])
                    if not iserr or fate(b, t.t) != "return":
                        errs.append("a rejected input does not return Err")
        else:
            # BigInt: after stripping '-', the magnitude is parsed by BigUint::from_str_radix and the sign applied through from_biguint
            inner = [i for i, t in b.calls() if i in b.live_blocks() and (callee(t) or "").endswith("Num for biguint::BigUint>::from_str_radix")]
            fb = [i for i, t in b.calls() if i in b.live_blocks() and (callee(t) or "").endswith("BigInt::from_biguint")]
            if len(inner) != 1 or len(fb) != 1:
                errs.append("the magnitude is not parsed by BigUint::from_str_radix and wrapped by from_biguint")
            elif not b.block_dominates(strips[0], inner[0]):
                errs.append("the magnitude parser does not see the sign-stripped string")
        if errs:
            res.fail(Finding("R3-parse-order", key, "; ".join(sorted(set(errs))), b))
        else:
            res.ok("R3-parse-order", key, {"order": "strip sign, then reject empty / leading '_' with Err"})
    res.clause("C06: from_str_radix strips the optional sign first and applies the empty-input and leading-underscore rejections (Err) to the remaining string; BigInt delegates the magnitude to BigUint's parser")


# ------------------------------------------------------------------------------------------
# overflow-checked arithmetic directly on a caller-supplied scalar


def _scalar_param_root(b, op, depth=0):
    """the by-value integer parameter this operand is (through moves and value-preserving casts), else None"""
    from . import r2 as _r2

    prev = None
    while depth < 20:
        if op["k"] == "const":
            return None
        pl = op["place"]
        if pl["proj"]:
            # `let x = <iN as Deserialize>::deserialize(d)?;` - the Continue payload of the `?` on a deserialize call is input
            # from outside just like a parameter (any value of the type); its identity is the local that receives it
            kinds = [e["k"] for e in pl["proj"]]
            if prev is not None and kinds == ["downcast", "field"] and pl["proj"][0].get("variant") == "Continue" and _r2.int_info(pl.get("ty") or ""):
                d1 = b.defs().get(pl["local"], [])
                if len(d1) == 1 and d1[0][0] == "call" and callee_name(d1[0][2]) == "branch" and d1[0][2]["args"]:
                    a0 = core.op_place(d1[0][2]["args"][0])
                    d2 = b.defs().get(a0["local"], []) if a0 is not None and not a0["proj"] else []
                    if len(d2) == 1 and d2[0][0] == "call" and callee_name(d2[0][2]) == "deserialize":
                        return prev
            return None
        l = pl["local"]
        prev = l
        if b.is_param(l):
            ty = b.locals[l]["ty"]
            return l if _r2.int_info(ty) else None
        ds = b.defs().get(l, [])
        if len(ds) != 1 or ds[0][0] != "assign" or b.partial_defs().get(l):
            return None
        rv = ds[0][3]["rv"]
        if rv["k"] == "use":
            op = rv["op"]
        elif rv["k"] == "cast" and rv["ck"] == "IntToInt" and _r2.lossless_cast(rv["from"], rv["to"]):
            op = rv["op"]
        else:
            return None
        depth += 1
    return None


def _int_range(ty):
    from . import r2 as _r2

    sg, bits = _r2.int_info(ty)
    return (-(1 << (bits - 1)), (1 << (bits - 1)) - 1) if sg else (0, (1 << bits) - 1)


def _param_is_bounded(b, p, binop, k):
    """Conservative: True when the body may have established a range for parameter p before the arithmetic - an ordering
    comparison of p (through moves / value-preserving casts), an equality test against a constant at the overflowing edge,
    or p handed to any call (unknown).  False only when none of these exists anywhere in the body."""
    lo, hi = _int_range(b.locals[p]["ty"])

    def is_p(o):
        return o["k"] != "const" and _scalar_param_root(b, o) == p

    def edge(c):
        if c is None:
            return True
        if binop == "MulWithOverflow":
            return False
        if not isinstance(k, int):
            return True
        kk = abs(k)
        top = (binop == "AddWithOverflow") == (k > 0)
        return c >= hi - kk + 1 if top else c <= lo + kk - 1

    for bi, si, s_ in b.stmts():
        rv = s_.get("rv")
        if rv and rv["k"] == "binop" and rv["op"] in ("Lt", "Le", "Gt", "Ge", "Eq", "Ne", "Cmp"):
            for o, other in ((rv["a"], rv["b"]), (rv["b"], rv["a"])):
                if is_p(o):
                    if rv["op"] in ("Eq", "Ne"):
                        c = core.op_const(other) if other["k"] == "const" else None
                        if edge(c):
                            return True
                    else:
                        return True
    for bi, t in b.terms():
        if t["k"] == "switch" and is_p(t["discr"]):
            vals = [v for v in t.get("values", [])]
            if not vals or any(edge(v) for v in vals):
                return True
        if t["k"] == "call":
            # a plain conversion of the value (`x.into()` for an error message, `i64::from(x)`) establishes no range
            conv = callee_name(t) in ("into", "from") and "core::convert::" in (callee(t) or "")
            for a in t["args"]:
                if is_p(a) and not conv:
                    return True
                # a reference to the parameter handed to a call
                if a["k"] != "const" and not a["place"]["proj"]:
                    ds = b.defs().get(a["place"]["local"], [])
                    if len(ds) == 1 and ds[0][0] == "assign" and ds[0][3]["rv"]["k"] == "ref" and ds[0][3]["rv"]["place"]["local"] == p:
                        return True
    return False


def check_operand_overflow(ctx, res, config="all"):
    """In an exported function, `p + c`, `p - c`, `p * c` (c a non-zero constant or another full-range parameter) on a by-value
    integer parameter that the body never compares with anything overflows for an extreme p: the debug build panics and the
    release build wraps, so the two profiles disagree (and a documented total operation panics)."""
    from . import r2 as _r2

    facts = ctx.facts(config)
    nb = ns = 0
    for b in facts.bodies:
        if not b.exported() or b.kind not in ("Fn", "AssocFn"):
            continue
        if not (b.file or "").startswith("src/"):
            continue
        nb += 1
        live = b.live_blocks()
        cmp_roots = None
        for bi, t in b.terms():
            if bi not in live or t["k"] != "assert" or t.get("msg") != "Overflow":
                continue
            c = t["cond"]
            if c["k"] == "const":
                continue
            l = c["place"]["local"]
            ds = b.defs().get(l, [])
            # cond is `move (_t.1)` or a temp copied from it
            src = None
            if c["place"]["proj"]:
                src = l
            elif len(ds) == 1 and ds[0][0] == "assign" and ds[0][3]["rv"]["k"] == "use" and ds[0][3]["rv"]["op"]["k"] != "const":
                src = ds[0][3]["rv"]["op"]["place"]["local"]
            if src is None:
                continue
            dd = b.defs().get(src, [])
            if len(dd) != 1 or dd[0][0] != "assign" or dd[0][3]["rv"]["k"] != "binop":
                continue
            rv = dd[0][3]["rv"]
            if rv["op"] not in ("AddWithOverflow", "SubWithOverflow", "MulWithOverflow"):
                continue
            ns += 1
            pa, pb = _scalar_param_root(b, rv["a"]), _scalar_param_root(b, rv["b"])

            def nonzero_const(o):
                return o["k"] == "const" and core.op_const(o) not in (None, 0) and not (rv["op"] == "MulWithOverflow" and core.op_const(o) == 1)

            hit = None
            if pa is not None and (nonzero_const(rv["b"]) or pb is not None):
                hit = pa
            elif pb is not None and nonzero_const(rv["a"]) and rv["op"] != "SubWithOverflow":
                hit = pb
            if hit is None:
                continue
            involved = {x for x in (pa, pb) if x is not None}
            kconst = core.op_const(rv["b"]) if rv["b"]["k"] == "const" else (core.op_const(rv["a"]) if rv["a"]["k"] == "const" else None)
            if any(_param_is_bounded(b, p_, rv["op"], kconst) for p_ in involved):
                continue
            nm = b.locals[hit].get("name") or ("_%d" % hit)
            res.fail(Finding("R3c-operand-overflow", "%s|%s|%s" % (b.path, nm, rv["op"].replace("WithOverflow", "")),
                             "overflow-checked %s directly on the caller-supplied (or deserialized) `%s: %s`, which the function never compares with anything (line %s): for an extreme value the debug build panics and the release build wraps" % (rv["op"].replace("WithOverflow", "").lower(), nm, b.locals[hit]["ty"], t["span"]["line"]), b, t["span"]["line"]))
        # `x.abs()` / `-x` through core's `iN::abs` on a caller-supplied signed integer: MIN has no absolute value in the type
        # (debug panics, release returns MIN); comparing x with 0 does not exclude MIN.  The crate's idiom is unsigned_abs /
        # checked_uabs.  Accepted only if the parameter is compared with a constant at the MIN edge.
        for bi, t in b.calls():
            if bi not in live or callee_name(t) != "abs" or "core::num" not in (callee(t) or "") or not t["args"]:
                continue
            pa_ = _scalar_param_root(b, t["args"][0])
            if pa_ is None:
                continue
            lo_, hi_ = _int_range(b.locals[pa_]["ty"])
            if lo_ >= 0:
                continue
            guarded = False
            for bj, sj, s2 in b.stmts():
                rv2 = s2.get("rv")
                if rv2 and rv2["k"] == "binop" and rv2["op"] in ("Lt", "Le", "Gt", "Ge", "Eq", "Ne"):
                    for o, other in ((rv2["a"], rv2["b"]), (rv2["b"], rv2["a"])):
                        if o["k"] != "const" and _scalar_param_root(b, o) == pa_ and other["k"] == "const" and core.op_const(other) in (lo_, lo_ + 1, -hi_):
                            guarded = True
            if guarded:
                continue
            nm = b.locals[pa_].get("name") or ("_%d" % pa_)
            res.fail(Finding("R3c-operand-overflow", "%s|%s|abs" % (b.path, nm),
                             "`abs()` of the caller-supplied `%s: %s` (line %s), which the function never compares with %s::MIN: for MIN the debug build panics and the release build returns MIN (a negative \"absolute value\"); the crate's idiom is unsigned_abs / checked_uabs" % (nm, b.locals[pa_]["ty"], t["span"]["line"], b.locals[pa_]["ty"]), b, t["span"]["line"]))
        res.ok("R3c-operand-overflow", b.path, None, nontrivial=False)
    res.distinct.add("R3c-operand-overflow:all")
    res.count("exported bodies scanned for overflow on caller-supplied scalars", nb)
    res.count("overflow-checked + - * sites inspected", ns)
    if nb < 900:
        res.fail(Finding("R3-anchor-lost", "operand-overflow", "only %d exported bodies (floor 900)" % nb, file="src", line=0))
    res.clause("R3c: no exported function applies overflow-checked + - * to a by-value integer parameter that it never compares with anything (profile divergence for extreme values)")


def check_digit_step_checked(ctx, res, config="all"):
    """`digits[i] -= 1` / `+= 1` (overflow-checked arithmetic with a constant directly on an element of a digit slice) is a
    carry or borrow without propagation: when the digit is 0 (resp. MAX) the debug build panics and the release build wraps
    and leaves the neighbouring digit wrong.  The crate's idiom is adc/sbb, __add2/sub2 with a one-digit operand, or
    overflowing_*/wrapping_* with the flag used.  Such a step is accepted only if the function compares that element with
    something (a test for the 0/MAX edge)."""
    facts = ctx.facts(config)
    digit_ty = "u32" if (config or "").endswith("32") else "u64"
    nb = ns = 0
    for b in facts.bodies:
        if not (b.file or "").startswith("src/") or not ("biguint" in b.path or "bigint" in b.path):
            continue
        nb += 1
        live = None
        for bi, si, st in b.stmts():
            if st["k"] != "assign":
                continue
            rv = st["rv"]
            if rv["k"] != "binop" or rv["op"] not in ("AddWithOverflow", "SubWithOverflow"):
                continue
            pa = core.op_place(rv["a"])
            if pa is None or not pa["proj"] or pa.get("ty") != digit_ty:
                continue
            k = core.op_const(rv["b"]) if rv["b"]["k"] == "const" else None
            if k == 0:
                continue
            if k is None:
                # `*a -= *b`, `d += carry`: another digit or a variable amount - same question, the step can leave the digit's range
                pb_ = core.op_place(rv["b"])
                if pb_ is None or pb_.get("ty") not in (digit_ty, None):
                    continue
                k = "x"
            # element of a digit slice: `(*_e)` with _e from index/index_mut/first_mut/last_mut/get_mut/next, or `(*_s)[i]`
            base = pa["local"]
            kinds = [e["k"] for e in pa["proj"]]
            is_elem = any(x in ("index", "constindex", "constidx") for x in kinds)
            if not is_elem and kinds == ["deref"]:
                ds = b.defs().get(base, [])
                if len(ds) == 1 and ds[0][0] == "call" and callee_name(ds[0][2]) in ("index_mut", "index", "first_mut", "last_mut", "get_unchecked_mut", "unwrap", "next", "next_back"):
                    is_elem = True
                # a slice-pattern binding: `if let [a] = &mut data[..]` -> a = &mut (*s)[0 of 1]
                if len(ds) == 1 and ds[0][0] == "assign" and ds[0][3]["rv"]["k"] == "ref" and any(e["k"] in ("index", "constindex", "constidx") for e in ds[0][3]["rv"]["place"]["proj"]):
                    is_elem = True
            if not is_elem:
                continue
            if live is None:
                live = b.live_blocks()
            if bi not in live:
                continue
            ns += 1
            # is the element compared with anything in this function?
            compared = False
            for j, sj, s2 in b.stmts():
                r2_ = s2.get("rv") if s2["k"] == "assign" else None
                if r2_ and r2_["k"] == "binop" and r2_["op"] in ("Eq", "Ne", "Lt", "Le", "Gt", "Ge"):
                    for side in ("a", "b"):
                        p2 = core.op_place(r2_[side])
                        if p2 is not None and p2.get("ty") == digit_ty and (p2["local"] == base or (p2["proj"] and [e["k"] for e in p2["proj"]] == kinds)):
                            compared = True
            key = "%s|%s %s" % (b.path, "+" if rv["op"].startswith("Add") else "-", k)
            if compared:
                res.ok("R3c-digit-step", key, {"guard": "the element is compared in this function"})
            else:
                res.fail(Finding("R3c-digit-step", key, "overflow-checked `%s= %s` directly on a digit of a digit slice (line %s) with no test of that digit: when the digit is %s the debug build panics and the release build wraps without carrying into the next digit" % ("+" if rv["op"].startswith("Add") else "-", k, st["span"]["line"], "MAX" if rv["op"].startswith("Add") else "0"), b, st["span"]["line"]))
    res.distinct.add("R3c-digit-step:all")
    res.count("bodies scanned for unpropagated digit steps", nb)
    res.count("checked +/- constant on a digit element", ns)
    if nb < 700:
        res.fail(Finding("R3-anchor-lost", "digit-step", "only %d bodies scanned (floor 700)" % nb, file="src", line=0))
    res.clause("R3c: no overflow-checked `+= c` / `-= c` directly on an element of a digit slice without a test of that element (a carry/borrow must be propagated)")


def _interval(b, op, depth=0):
    """exact value range (lo, hi) of an unsigned integer operand built from constants, `% n`, `& m`, `+`, `c - x`, `>> k`,
    `/ k`, `*` and lossless casts - None as soon as anything else is involved"""
    if depth > 25:
        return None
    if op["k"] == "const":
        v = core.op_const(op)
        return (v, v) if isinstance(v, int) and v >= 0 else None
    # a local that is a compile-time constant in disguise (`let bits_per_digit = u64::from(big_digit::BITS)`)
    try:
        from . import r4 as _r4

        v = _r4.eval_int(b, op, {})
        if isinstance(v, int) and not isinstance(v, bool) and v >= 0:
            return (v, v)
    except Exception:
        pass
    pl = core.op_place(op)
    if pl is None:
        return None
    l = pl["local"]
    fld = [e for e in pl["proj"] if e["k"] == "field"]
    if [e for e in pl["proj"] if e["k"] not in ("field",)]:
        return None
    if b.is_param(l):
        return None
    ds = b.defs().get(l, [])
    if len(ds) != 1 or ds[0][0] != "assign" or b.partial_defs().get(l):
        return None
    rv = ds[0][3]["rv"]
    k = rv["k"]
    if fld and not (k == "binop" and rv["op"].endswith("WithOverflow") and fld[0]["idx"] == 0):
        return None
    if k == "use":
        return _interval(b, rv["op"], depth + 1)
    if k == "cast" and rv["ck"] == "IntToInt":
        from . import r2 as _r2

        r = _interval(b, rv["op"], depth + 1)
        ti = _r2.int_info(rv.get("to", ""))
        if r is None or ti is None:
            return None
        top = (1 << (ti[1] - (1 if ti[0] else 0))) - 1
        return r if r[1] <= top else None
    if k == "binop":
        o = rv["op"].replace("WithOverflow", "").replace("Unchecked", "")
        a, c = rv["a"], rv["b"]
        if o == "Rem":
            rc_ = _interval(b, c, depth + 1)
            if rc_ is not None and rc_[0] == rc_[1] and rc_[0] > 0:
                ra = _interval(b, a, depth + 1)
                n_ = rc_[0]
                return (0, n_ - 1) if ra is None or ra[1] >= n_ else ra
            return None
        if o == "BitAnd":
            for x_, y_ in ((a, c), (c, a)):
                ry_ = _interval(b, y_, depth + 1)
                if ry_ is not None and ry_[0] == ry_[1]:
                    m_ = ry_[0]
                    # exact only for masks of the form 2^k - 1
                    return (0, m_) if m_ & (m_ + 1) == 0 else None
            return None
        ra, rc = _interval(b, a, depth + 1), _interval(b, c, depth + 1)
        if ra is None or rc is None:
            return None
        if o == "Add":
            return (ra[0] + rc[0], ra[1] + rc[1])
        if o == "Sub":
            return (ra[0] - rc[1], ra[1] - rc[0]) if ra[0] - rc[1] >= 0 else None
        if o == "Mul":
            return (ra[0] * rc[0], ra[1] * rc[1])
        if o == "Shr" and rc[0] == rc[1]:
            return (ra[0] >> rc[0], ra[1] >> rc[0])
        if o == "Div" and rc[0] == rc[1] and rc[0] > 0:
            return (ra[0] // rc[0], ra[1] // rc[0])
    return None


def check_shift_amount_range(ctx, res, config="all"):
    """`x << s` / `x >> s` on a primitive with s >= the bit width is an overflow: the debug build panics, the release build
    masks the amount.  Where the amount is built locally from constants and `% n` / `& m` its exact range is computed; a
    range that reaches the width (`tz % 64 + 1` is 1..=64) is reported.  Amounts that come from anywhere else are not judged."""
    facts = ctx.facts(config)
    n_sh = n_dec = 0
    for b in facts.bodies:
        if not (b.file or "").startswith("src/"):
            continue
        live = None
        for bi, t in b.terms("assert"):
            if t.get("msg") != "Overflow" or t.get("expected") is not True:
                continue
            cl = core.op_local(t["cond"])
            ds = b.defs().get(cl, []) if cl is not None else []
            if len(ds) != 1 or ds[0][0] != "assign" or ds[0][3]["rv"]["k"] != "binop" or ds[0][3]["rv"]["op"] != "Lt":
                continue
            rv = ds[0][3]["rv"]
            w = core.op_const(rv["b"]) if rv["b"]["k"] == "const" else None
            if not isinstance(w, int):
                continue
            if live is None:
                live = b.live_blocks()
            if bi not in live:
                continue
            n_sh += 1
            r = _interval(b, rv["a"])
            if r is None:
                continue
            n_dec += 1
            key = "%s|shift amount %d..=%d of %d" % (b.path, r[0], r[1], w)
            if r[1] >= w:
                res.fail(Finding("R3c-shift-range", key, "a shift amount computed here ranges over %d..=%d (line %s) but the shifted type has %d bits: for the top value the debug build panics (\"attempt to shift with overflow\") and the release build shifts by the amount modulo %d" % (r[0], r[1], t["span"]["line"], w, w), b, t["span"]["line"]))
            else:
                res.ok("R3c-shift-range", key, None, nontrivial=False)
    res.distinct.add("R3c-shift-range:all")
    res.count("overflow-checked shifts", n_sh)
    res.count("overflow-checked shifts with a locally decidable amount", n_dec)
    if config == "all" and n_sh < 20:
        res.fail(Finding("R3-anchor-lost", "shift-range", "only %d overflow-checked shifts found (floor 20)" % n_sh, file="src", line=0))
    res.clause("R3c: no shift amount whose locally computed exact range reaches the bit width of the shifted type (debug panic / release wrap)")


# ------------------------------------------------------------------------------------------
# from_f64(..).unwrap() needs a finite argument


def _float_max_exp(b, src_bb):
    for j in src_bb:
        if callee_name(b.blocks[j]["term"]) == "to_f32":
            return 128
    return 1024


def _bits_upper_bound(b, at_block, live):
    """largest bit length admitted by the comparisons `bits() <op> constant` whose deciding edge dominates at_block, or None"""
    from . import r4

    tl, atoms = tests_of(b)
    best = None
    for t in tl:
        c = t.cond
        if c is None or c.kind != "cmp" or t.bb not in live:
            continue
        for edge_true, tgt in ((True, t.t), (False, t.f)):
            if tgt is None or not b.edge_dominates((t.bb, tgt), at_block):
                continue
            for (x, rx, ry, flip) in ((c.a, c.ra, c.rb, False), (c.b, c.rb, c.ra, True)):
                if calls_of(x) != {"bits"} or consts_of(x):
                    continue
                try:
                    k = r4.eval_int(b, ry, {})
                except Exception:
                    continue
                if not isinstance(k, int):
                    continue
                op = c.op
                if flip:
                    op = {"Lt": "Gt", "Le": "Ge", "Gt": "Lt", "Ge": "Le"}.get(op, op)
                if not edge_true:
                    op = {"Lt": "Ge", "Le": "Gt", "Gt": "Le", "Ge": "Lt", "Eq": "Ne", "Ne": "Eq"}.get(op, op)
                ub = {"Le": k, "Lt": k - 1, "Eq": k}.get(op)
                if ub is not None and (best is None or ub < best):
                    best = ub
    return best


def _check_scale_constant(b, res):
    from . import r4
    from . import tests as _t

    at = _t.Atoms(b)
    live = b.live_blocks()
    found = 0
    for i, si, st in b.stmts():
        if i not in live or st["k"] != "assign":
            continue
        rv = st["rv"]
        if rv["k"] != "binop" or rv["op"] not in ("Sub", "SubWithOverflow", "SubUnchecked"):
            continue
        xa = at.of_operand(rv["a"])
        if calls_of(xa) != {"bits"} or consts_of(xa):
            continue
        # does the difference feed the amount of a right shift of a big value?
        tainted = {st["place"]["local"]}
        changed = True
        while changed:
            changed = False
            for j, sj, s2 in b.stmts():
                if s2["k"] != "assign" or s2["place"]["local"] in tainted:
                    continue
                used = [(core.op_place(o) or {}).get("local") for o in core.rv_operands(s2["rv"])]
                if isinstance(s2["rv"].get("place"), dict):
                    used.append(s2["rv"]["place"].get("local"))
                if any(l in tainted for l in used):
                    tainted.add(s2["place"]["local"])
                    changed = True
            for j, t2 in b.calls():
                d = t2.get("dest")
                if d is None or d["local"] in tainted:
                    continue
                if any(core.op_local(a) in tainted or ((core.op_place(a) or {}).get("local") in tainted) for a in t2["args"]):
                    tainted.add(d["local"])
                    changed = True
        feeds = False
        for j, t2 in b.calls():
            if callee_name(t2) in ("shr", "shr_assign") and len(t2["args"]) == 2 and j in live:
                a1 = t2["args"][1]
                if (core.op_place(a1) or {}).get("local") in tainted and ("Big" in (callee(t2) or "") or "Big" in str((callee_fn(t2) or {}).get("args"))):
                    feeds = True
        if not feeds:
            continue
        found += 1
        key = "%s|bits-K" % b.path
        try:
            k = r4.eval_int(b, rv["b"], {})
        except Exception:
            k = None
        lim = (128 if any(callee_name(t2) == "to_f32" for _, t2 in b.calls()) else 1024) - 1
        if not isinstance(k, int):
            res.note("R3-float-scale-bound: %s: the constant subtracted from the bit length could not be evaluated - not decided" % key)
            res.ok("R3-float-scale-bound", key, {"K": "undecided"}, nontrivial=False)
        elif k <= lim:
            res.ok("R3-float-scale-bound", key, {"K": k, "limit": lim})
        else:
            res.fail(Finding("R3-float-scale-bound", key, "the scaled retry of the float guess keeps up to %d bits (bit length minus %d, line %s): a value of more than %d bits can convert to infinity again, and for a value that does the retry shifts by less than it must - with %d the shift can be 0 and the function calls itself on the same value without end" % (k, k, st["span"]["line"], lim, lim + 1), b, st["span"]["line"]))
    return found


def check_float_guess_guard(ctx, res, config="all"):
    """`BigUint::from_f64(x).unwrap()` panics for a non-finite x, and `to_f64()` answers Some(INFINITY) for large values: every such
    unwrap whose argument derives from `to_f64()` must be dominated by the true edge of `is_finite()` on that float (any other
    dominating test of the float or of the bit length leaves the question open: note)"""
    from . import tests as _t

    facts = ctx.facts(config)
    n = 0
    for b in facts.bodies:
        live = None
        for i, t in b.calls():
            if callee_name(t) != "from_f64" or "BigUint" not in (callee(t) or "") and "BigInt" not in (callee(t) or ""):
                continue
            if live is None:
                live = b.live_blocks()
            if i not in live:
                continue
            # result unwrapped?
            d = t["dest"]["local"]
            unwrapped = any(callee_name(tt) in ("unwrap", "expect") and tt["args"] and core.op_local(tt["args"][0]) == d for j, tt in b.calls())
            if not unwrapped:
                continue
            at = _t.Atoms(b)
            atoms = at.of_operand(t["args"][0])
            if not any(a[0] == "call" and a[1] == "to_f64" for a in atoms):
                continue
            n += 1
            src_bb = [j for j, tt in b.calls() if callee_name(tt) == "to_f64" and b.block_dominates(j, i)]
            finite = other = False
            for j, tt in b.terms("switch"):
                if j not in live or not b.block_dominates(j, i):
                    continue
                if not any(b.block_dominates(sb, j) for sb in src_bb):
                    continue
                da = at.of_operand(tt["discr"])
                if any(a[0] == "call" and a[1] == "is_finite" for a in da):
                    # the true edge must be the one that reaches the call
                    tgt_true = tt.get("otherwise")
                    if tgt_true is not None and b.edge_dominates((j, tgt_true), i):
                        finite = True
                        continue
                # the Option match on to_f64's own result does not bound the float
                ds = b.defs().get(core.op_local(tt["discr"]), []) if core.op_local(tt["discr"]) is not None else []
                if len(ds) == 1 and ds[0][0] == "assign" and ds[0][3]["rv"]["k"] == "discriminant":
                    continue
                other = True
            if not finite and any(a[0] == "call" and a[1] == "filter" for a in atoms):
                # `to_f64().filter(|f| f.is_finite())`: the float that comes out of the Option is finite by construction
                for j, tt in b.calls():
                    if callee_name(tt) == "filter" and j in live and len(tt["args"]) == 2 and b.block_dominates(j, i):
                        cl = core.op_local(tt["args"][1])
                        for d in b.defs().get(cl, []) if cl is not None else []:
                            if d[0] == "assign" and d[3]["rv"]["k"] == "aggregate" and d[3]["rv"].get("akind") == "closure":
                                cb = facts.body(d[3]["rv"]["closure"])
                                if cb is not None and any(callee_name(t2) == "is_finite" for j2, t2 in cb.calls()):
                                    rets_ = [s_ for j2, si2, s_ in cb.stmts() if s_["k"] == "assign" and s_["place"]["local"] == 0]
                                    finite = True
            key = "%s|from_f64#%d" % (b.path, sum(1 for j, tt in b.calls() if j < i and callee_name(tt) == "from_f64"))
            bound = None
            if not finite and other:
                # a bit-length guard in place of is_finite(): `bits <= C` on the edge that reaches the conversion.  A value of at
                # most C bits is below 2^C; it is certainly finite iff C <= MAX_EXP - 1 (a value of MAX_EXP bits can round up to
                # 2^MAX_EXP = infinity)
                bound = _bits_upper_bound(b, i, live)
            if bound is not None:
                lim = _float_max_exp(b, src_bb) - 1
                if bound <= lim:
                    res.ok("R3-float-guess-finite", key, {"guard": "bits <= %d" % bound})
                else:
                    res.fail(Finding("R3-float-guess-unguarded", key, "from_f64(..).unwrap() (line %s) is guarded by a bit-length test that admits values of %d bits: such a value can round up to 2^%d = infinity in to_f64(), from_f64 then returns None and the unwrap panics (a bit-length guard must not admit more than %d bits; is_finite() is the crate's guard)" % (t["span"]["line"], bound, lim + 1, lim), b, t["span"]["line"]))
            elif finite:
                res.ok("R3-float-guess-finite", key, {"guard": "is_finite()"})
            elif other:
                res.note("R3-float-guess-finite: %s: the unwrapped from_f64 is guarded by a test other than is_finite() - not decided" % key)
                res.ok("R3-float-guess-finite", key, {"guard": "other test (undecided)"}, nontrivial=False)
            else:
                res.fail(Finding("R3-float-guess-unguarded", key, "from_f64(..).unwrap() (line %s) on a float derived from to_f64() without an is_finite() guard: to_f64() returns Some(INFINITY) for large values, from_f64 then returns None and the unwrap panics" % t["span"]["line"], b, t["span"]["line"]))
    # the scaled retry: `extra = bits - K; scale = f(extra) >= extra; (self >> scale).root()`.  What is left has at most K bits,
    # so the retry is certain to take the finite branch iff K <= MAX_EXP - 1; with a larger K the retry can see infinity again
    # with (for K = MAX_EXP) extra = 0, scale = 0: it calls itself on the same value for ever
    n_scale = 0
    for b in facts.bodies:
        if not any(callee_name(t) in ("to_f64", "to_f32") for _, t in b.calls()):
            continue
        n_scale += _check_scale_constant(b, res)
    res.count("float-guess scale constants (bits - K feeding a right shift)", n_scale)
    res.count("from_f64(to_f64-derived).unwrap() sites", n)
    if config in ("all", "default") and n < 1:
        res.fail(Finding("R3-anchor-lost", "float-guess", "no float-guess site found (floor 1: the three roots may share one helper)", file="src/biguint.rs", line=0))
    res.clause("R3: every from_f64(..).unwrap() on a float derived from to_f64() is dominated by is_finite() = true [config %s]" % config)


# ------------------------------------------------------------------------------------------
# Knuth D normalisation: the dividend is scaled by 2^shift going in, the remainder is scaled back exactly once coming out


def _move_root(b, l, depth=0):
    """follow whole-local moves/copies backwards to the local a temporary was filled from"""
    while depth < 12:
        ds = b.defs().get(l, [])
        if len(ds) != 1 or ds[0][0] != "assign" or ds[0][3]["rv"]["k"] != "use" or ds[0][3]["rv"]["op"]["k"] == "const":
            return l
        pl = ds[0][3]["rv"]["op"]["place"]
        if pl["proj"]:
            return l
        l = pl["local"]
        depth += 1
    return l


def _shift_calls_behind(b, l, fam, depth=0):
    """(count, [amount locals]) of `fam` (shl/shr) calls on the by-value chain that produces local l; None when the chain
    leaves the shapes understood here (anything but moves, tuple fields and shift calls)"""
    n, amts = 0, []
    while depth < 12:
        depth += 1
        ds = b.defs().get(l, [])
        if b.is_param(l) and not ds:
            return n, amts, ("param", l)
        if len(ds) != 1:
            return None
        d = ds[0]
        if d[0] == "assign" and d[3]["rv"]["k"] == "use" and d[3]["rv"]["op"]["k"] != "const":
            pl = d[3]["rv"]["op"]["place"]
            if pl["proj"]:
                if len(pl["proj"]) == 1 and pl["proj"][0]["k"] == "field":
                    return n, amts, ("field", pl["local"], pl["proj"][0]["idx"])
                return None
            l = pl["local"]
            continue
        if d[0] == "call" and callee_name(d[2]) in ("shl", "shr") and len(d[2]["args"]) == 2:
            if callee_name(d[2]) == fam:
                n += 1
                ap = core.op_place(d[2]["args"][1])
                amts.append(_move_root(b, ap["local"]) if ap is not None and not ap["proj"] else None)
            else:
                return None
            a0 = core.op_place(d[2]["args"][0])
            if a0 is None or a0["proj"]:
                return None
            l = a0["local"]
            continue
        if d[0] == "call":
            return n, amts, ("call", d[1])
        return None
    return None


def check_division_scaling(ctx, res, config="all"):
    """Knuth's algorithm D runs on operands shifted left so that the divisor's top bit is set; quotient is unaffected, the
    remainder comes out scaled by 2^shift and has to be shifted back exactly once, by the same amount - in whichever of the
    long-division entry points and the core routine that shift is written.  For every call of div_rem_core: (number of `<<` on
    the dividend argument) = (number of `>>` on the returned remainder inside the core) + (number of `>>` between the call and
    the caller's returned remainder), and all amounts are the same variable."""
    facts = ctx.facts(config)
    core_b = [b for b in facts.bodies if b.name == "div_rem_core" and "division" in b.path and b.kind != "Closure"]
    if not core_b:
        if config == "all":
            res.fail(Finding("R3-anchor-lost", "div_rem_core", "the long-division core routine was not found", file="src/biguint/division.rs", line=0))
        return
    cb = core_b[0]
    # inside the core: how the returned remainder (_0.1) derives from the dividend parameter
    inner = None
    rets = [s for (_, _, s) in cb.stmts() if s["k"] == "assign" and s["place"]["local"] == 0 and not s["place"]["proj"] and s["rv"]["k"] == "aggregate"]
    if len(rets) == 1 and len(rets[0]["rv"].get("ops") or []) == 2:
        rp = core.op_place(rets[0]["rv"]["ops"][1])
        if rp is not None and not rp["proj"]:
            inner = _shift_calls_behind(cb, rp["local"], "shr")
    n_sites = 0
    for b in facts.bodies:
        if b.path == cb.path or b.kind == "Closure":
            continue
        live = b.live_blocks()
        for ci, t in b.calls():
            if ci not in live or callee(t) != cb.path:
                continue
            n_sites += 1
            key = "%s|div_rem_core@%d" % (b.path, n_sites and sum(1 for (x, t2) in b.calls() if callee(t2) == cb.path and x < ci))
            a0 = core.op_place(t["args"][0]) if t["args"] else None
            up = _shift_calls_behind(b, a0["local"], "shl") if a0 is not None and not a0["proj"] else None
            # forward: from the call's result to this function's returned remainder
            d = t["dest"]
            down = None
            if not d["proj"] and d["local"] == 0:
                down = (0, [])
            elif not d["proj"]:
                for (_, _, s) in b.stmts():
                    if s["k"] == "assign" and s["place"]["local"] == 0 and not s["place"]["proj"] and s["rv"]["k"] == "aggregate" and len(s["rv"].get("ops") or []) == 2:
                        rp = core.op_place(s["rv"]["ops"][1])
                        if rp is None or rp["proj"]:
                            continue
                        r = _shift_calls_behind(b, rp["local"], "shr")
                        if r is not None and r[2] == ("field", d["local"], 1):
                            down = (r[0], r[1])
            # a private helper wrapped around the core (`div_rem_scaled(u << s, d << s, s)`): its dividend is a parameter -
            # the left shifts are at its call sites; the helper's amounts that are parameters are mapped to the arguments
            inner_here = []
            if inner is not None:
                for a_ in inner[1]:
                    if a_ is not None and cb.is_param(a_) and a_ - 1 < len(t["args"]):
                        ap = core.op_place(t["args"][a_ - 1])
                        if ap is not None and not ap["proj"]:
                            inner_here.append(_move_root(b, ap["local"]))
                        elif core.op_const(t["args"][a_ - 1]) == 0:
                            continue
                        else:
                            inner_here.append(None)
                    else:
                        inner_here.append(None)
            via = None
            if up is not None and up[2][0] == "param" and not b.exported() and down is not None and inner is not None:
                k_ = up[2][1]
                sites2 = [(b2, t2) for b2 in facts.bodies if b2.kind != "Closure" for (x2, t2) in b2.calls() if callee(t2) == b.path and x2 in b2.live_blocks()]
                ups2 = []
                for (b2, t2) in sites2:
                    a2 = core.op_place(t2["args"][k_ - 1]) if k_ - 1 < len(t2["args"]) else None
                    u2 = _shift_calls_behind(b2, a2["local"], "shl") if a2 is not None and not a2["proj"] else None
                    if u2 is None:
                        ups2 = None
                        break
                    # amounts: the helper's own amount locals that are its parameters, seen from this caller
                    def seen(l_, b2=b2, t2=t2):
                        if l_ is not None and b.is_param(l_) and l_ - 1 < len(t2["args"]):
                            ap_ = core.op_place(t2["args"][l_ - 1])
                            return ("caller", _move_root(b2, ap_["local"])) if ap_ is not None and not ap_["proj"] else None
                        return ("local", l_) if l_ is not None else None
                    ups2.append((u2[0], [("caller", x_) for x_ in u2[1]], seen))
                if ups2:
                    via = ups2
            via_ok = False
            if via is not None:
                via_ok = True
                for (n2, amts2, seen) in via:
                    n_in_t = up[0] + n2
                    n_out_t = len(inner_here) + down[0]
                    am = set(amts2) | {seen(x_) for x_ in up[1]} | {seen(x_) for x_ in down[1]} | {seen(x_) for x_ in inner_here}
                    if n_in_t != n_out_t or (n_in_t and (None in am or len(am) != 1)):
                        via_ok = False
            if up is None or down is None or inner is None or inner[2] != ("param", 1):
                res.note("R3-div-scaling: %s: the dividend/remainder chain around div_rem_core is not in the shapes this rule follows - the rescaling of the remainder is not decided here" % key)
                res.obligations += 1
                res.discharged += 1
                continue
            # amounts used inside the core are parameters of the core: map them to the caller's arguments; a shift by the
            # constant 0 is no shift
            inner_amts = []
            for a_ in inner[1]:
                if a_ is not None and cb.is_param(a_) and a_ - 1 < len(t["args"]):
                    ap = core.op_place(t["args"][a_ - 1])
                    if ap is not None and not ap["proj"]:
                        inner_amts.append(_move_root(b, ap["local"]))
                    elif core.op_const(t["args"][a_ - 1]) == 0:
                        continue
                    else:
                        inner_amts.append(("const", core.op_const(t["args"][a_ - 1])))
                else:
                    inner_amts.append(None)
            n_in, n_out = up[0], len(inner_amts) + down[0]
            amts = set(up[1]) | set(down[1]) | set(inner_amts)
            if (n_in != n_out or (n_in and (None in amts or len(amts) != 1))) and via_ok:
                # the imbalance is that of a private helper wrapped around the core; every call site of the helper balances it
                res.ok("R3-div-scaling", key, {"through_helper": b.name, "call_sites_of_the_helper": len(via)})
            elif n_in != n_out:
                res.fail(Finding("R3-div-scaling", key, "the dividend handed to div_rem_core is shifted left %d time(s) but the remainder is shifted back %d time(s) (%d inside the core, %d after the call): the remainder is off by a power of two whenever the divisor's top digit is not full" % (n_in, n_out, inner[0], down[0]), b, t["span"]["line"]))
            elif n_in and (None in amts or len(amts) != 1):
                res.fail(Finding("R3-div-scaling", key, "the dividend is scaled and the remainder scaled back by different amounts (%d distinct)" % len(amts), b, t["span"]["line"]))
            else:
                res.ok("R3-div-scaling", key, {"shl_on_dividend": n_in, "shr_on_remainder": n_out})
    res.count("div_rem_core call sites", n_sites)
    if config == "all" and n_sites < 2:
        res.fail(Finding("R3-anchor-lost", "div_rem_core-callers", "only %d call sites of div_rem_core found (4 on the reviewed tree)" % n_sites, file="src/biguint/division.rs", line=0))
    res.clause("R3-div-scaling: at every call of div_rem_core the left shifts applied to the dividend equal the right shifts applied to the remainder (inside the core plus after the call), by the same amount")
