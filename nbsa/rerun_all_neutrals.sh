#!/bin/bash
rm -rf /tmp/nrunA; mkdir -p /tmp/nrunA
n=0
for d in /verif/neutral/*/; do id=$(basename $d); /verif/nbsa/seedrun.sh $d/patch.diff > /tmp/nrunA/$id.txt 2>&1 & n=$((n+1)); if [ $n -ge 10 ]; then wait; n=0; fi; done
for m in /verif/mutants/neutral_*.patch; do id=$(basename $m .patch); /verif/nbsa/seedrun.sh $m > /tmp/nrunA/$id.txt 2>&1 & n=$((n+1)); if [ $n -ge 10 ]; then wait; n=0; fi; done
wait
echo finished
