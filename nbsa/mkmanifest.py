#!/usr/bin/env python3
"""regenerates /verif/MANIFEST.json from nbsa.props (single source of truth)"""
import json, os, sys
sys.path.insert(0, os.path.dirname(os.path.dirname(os.path.abspath(__file__))))
from nbsa import props

VERIF = os.path.dirname(os.path.dirname(os.path.abspath(__file__)))
allp = [json.loads(l) for l in open(os.path.join(VERIF, "properties.jsonl"))]
checks = []
na = []
for p in allp:
    pid = p["id"]
    m = props.PROPS.get(pid)
    if not m or not m.get("claimed", True):
        na.append({"property_id": pid, "reason": (m or {}).get("na_reason", "checker not built yet (implementation in progress; see DESIGN.md section 9)")})
        continue
    checks.append({
        "property_id": pid,
        "quick_cmd": "./vf check %s --tier quick" % pid,
        "thorough_cmd": "./vf check %s --tier thorough" % pid,
        "evidence_file": "/verif/evidence/%s.json" % pid,
        "replay_cmd_template": "./vf explain {path}",
        "engine": "nbsa",
        "level_claimed": {
            "category": "other",
            "text": m["level_text"],
            "design_ref": "DESIGN.md section 4, " + pid,
        },
        "level_note": "Decides only the named structural clauses (necessary conditions), for every input; does NOT decide: " + m["not_decided"] + ". Trusted base: rustc's type checker/MIR construction (nightly), the nbfacts driver, the Python rule host; results are for the x86_64 / 64-bit-digit configuration.",
        "technique": m["technique"],
    })
man = {
    "version": 1,
    "setup_cmd": "cd /verif/driver && CARGO_NET_OFFLINE=true cargo build --release --offline && cd /verif && python3 -m py_compile nbsa/*.py",
    "hooks": {
        "guard": "twiby_num_bigint_verif",
        "enable": "none needed: the checks are static analyses of /repo's source; no instrumentation is compiled in",
        "baseline_off_cmd": "cd /repo && cargo test --workspace --no-fail-fast --offline",
        "source_commits": [],
        "add_only": True,
    },
    "engines": [
        {"name": "nbfacts", "path": "/verif/driver", "serves_properties": [c["property_id"] for c in checks], "kind_free_text": "rustc_private driver (nightly) run as RUSTC_WORKSPACE_WRAPPER: dumps MIR/HIR facts of /repo's working tree as JSON per build configuration"},
        {"name": "nbsa", "path": "/verif/nbsa", "serves_properties": [c["property_id"] for c in checks], "kind_free_text": "Python rule host: CFG/dominance/value-flow over the MIR facts; rule engines R1-R10 of DESIGN.md"},
    ],
    "checks": checks,
    "not_applicable": na,
    "notes": "Static analysis only (no execution of the library). Genuine defects found by the rules were repaired by 'fix:' commits in /repo; see known_findings.json and DESIGN.md section 5.",
}
json.dump(man, open(os.path.join(VERIF, "MANIFEST.json"), "w"), indent=1)
print("claimed:", [c["property_id"] for c in checks], "n/a:", len(na))
