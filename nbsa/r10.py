"""R10 - sampling structure of the random generators (C18)."""
from . import core
from .core import Finding, callee, callee_fn, callee_name
from .tests import Atoms, tests_of, only_from_param, params_of, calls_of, consts_of


def _one(facts, suffix):
    bs = facts.find(suffix=suffix)
    return bs[0] if len(bs) == 1 else None


def check_rejection_loop(ctx, res, config="all"):
    facts = ctx.facts(config)
    b = _one(facts, "bigrand::RandBigInt>::gen_biguint_below")
    if b is None:
        res.fail(Finding("R10-anchor-lost", "gen_biguint_below", "not found", file="src/bigrand.rs", line=0))
        return
    tl, atoms = tests_of(b)
    errs = []
    gens = [(i, t) for i, t in b.calls() if callee_name(t) == "gen_biguint" and i in b.live_blocks()]
    if len(gens) < 1:
        errs.append("no gen_biguint call found")
    else:
        # every draw (there may be one before the loop and one in it) asks for exactly bound.bits() bits
        gis = {gi for gi, gt in gens}
        for gi, gt in gens:
            ba = atoms.of_operand(gt["args"][1])
            if not ("bits" in calls_of(ba) and params_of(ba) == {2} and calls_of(ba) <= {"bits"} and not consts_of(ba)):
                errs.append("the candidate's bit size is not exactly bound.bits() (%s)" % sorted(calls_of(ba)))
        gi, gt = gens[0]
        cand = gt["dest"]["local"]
        # classify every definition of the return value: the accepted candidate itself (a gen_biguint draw), something made of
        # the operands/constants only (wrong: not a candidate), or the product of another computation (a fast path the rule does
        # not model: undecided)
        fl = core.Flow(b)
        cand_defs, other_defs, wrong_defs = [], [], []
        for d in b.defs().get(0, []):
            bb_ = d[1]
            if bb_ not in b.live_blocks():
                continue
            if d[0] == "call":
                roots = {("call", bb_)}
                # a value computed *from* a candidate (`n - bound`, `n % bound`) is not the candidate: folding a rejected draw back
                # into the range gives some values two candidates
                if bb_ not in gis:
                    arg_roots = set()
                    for a_ in d[2]["args"]:
                        arg_roots |= set(fl.roots_of_operand(a_))
                    if any(r[0] == "call" and r[1] in gis for r in arg_roots):
                        wrong_defs.append(bb_)
                        continue
            elif d[0] == "assign" and d[3]["rv"]["k"] == "use":
                roots = set(fl.roots_of_operand(d[3]["rv"]["op"]))
            else:
                roots = {("other", bb_)}
            if roots and all(r[0] == "call" and r[1] in gis for r in roots):
                cand_defs.append(bb_)
            elif roots and all(r[0] in ("param", "const") for r in roots):
                wrong_defs.append(bb_)
            else:
                other_defs.append(bb_)
        strict_edges = []
        for t in tl:
            c = t.cond
            if c is None:
                continue
            strict = None
            if c.kind == "call" and c.name in ("lt", "gt", "le", "ge") and len(c.args) == 2:
                a0 = c.term["args"][0]
                a1 = c.term["args"][1]
                r0 = fl.roots_of_operand(a0)
                r1 = fl.roots_of_operand(a1)
                is_c0 = bool(r0) and all(r[0] == "call" and r[1] in gis for r in r0)
                is_c1 = bool(r1) and all(r[0] == "call" and r[1] in gis for r in r1)
                is_b0 = any(r[0] == "param" and r[1] == 2 for r in r0)
                is_b1 = any(r[0] == "param" and r[1] == 2 for r in r1)
                if c.name == "lt" and is_c0 and is_b1:
                    strict = t.t
                elif c.name == "gt" and is_b0 and is_c1:
                    strict = t.t
                elif c.name == "ge" and is_c0 and is_b1:
                    strict = t.f
                elif c.name == "le" and is_b0 and is_c1:
                    strict = t.f
                elif c.name in ("le", "ge", "lt", "gt") and (is_c0 or is_c1) and (is_b0 or is_b1):
                    errs.append("the acceptance test is `%s`, which is not the strict candidate < bound" % c.name)
            if strict is not None:
                strict_edges.append((t.bb, strict))
        if not cand_defs and not other_defs:
            errs.append("the returned value is not the accepted candidate itself")
        for bb_ in cand_defs:
            if not any(b.edge_dominates(e, bb_) for e in strict_edges) and not errs:
                errs.append("no strict `candidate < bound` test dominates the return of the candidate")
        if wrong_defs:
            errs.append("a return value is not an accepted candidate: it is made of the operands only, or computed from a candidate (a rejected draw folded back into the range)")
        if other_defs and not errs:
            res.note("R10-rejection-loop: gen_biguint_below also returns a value produced another way (line %s) - that path is not decided" % b.blocks[other_defs[0]]["term"]["span"]["line"])
        # the rejecting edge loops back to a fresh draw (gen call reachable from the false edge)
    if errs:
        res.fail(Finding("R10-rejection-loop", b.path, "; ".join(errs), b))
    else:
        res.ok("R10-rejection-loop", b.path, {"bits": "bound.bits()", "accept": "first candidate with candidate < bound (strict), returned unchanged"})
    res.clause("R10: gen_biguint_below is a first-candidate rejection loop: candidates of exactly bound.bits() bits, accepted by a strict < and returned unchanged")


def _paths(b, start, stops, limit=400):
    """acyclic paths from block `start` until a block in `stops` (inclusive); each path = (blocks, decisions) with
    decisions = [(switch_block, chosen_target)]"""
    out = []
    stack = [(start, [start], [])]
    while stack and len(out) < limit:
        x, blocks, dec = stack.pop()
        if x in stops:
            out.append((blocks, dec))
            continue
        succ = b.succ(x)
        t = b.blocks[x]["term"]
        for s_ in succ:
            if s_ in blocks:
                continue
            d2 = dec + [(x, s_)] if t["k"] == "switch" and len(succ) > 1 else dec
            stack.append((s_, blocks + [s_], d2))
    return out


def check_gen_bigint(ctx, res, config="all"):
    """one iteration of gen_bigint as an outcome table: paths from the magnitude draw to either the next draw (re-draw) or the
    from_biguint call, labelled by the outcome of is_zero(magnitude) and of the fresh random bools consulted on the way.
    Zero magnitude: one fresh bool maps {true,false} one-to-one onto {re-draw, NoSign}; non-zero: one fresh bool maps one-to-one
    onto {Plus, Minus}.  Any control-flow shape with this table is accepted."""
    facts = ctx.facts(config)
    b = _one(facts, "bigrand::RandBigInt>::gen_bigint")
    if b is None:
        res.fail(Finding("R10-anchor-lost", "gen_bigint", "not found", file="src/bigrand.rs", line=0))
        return
    b = core.inline_private(facts, b, keep=("gen_biguint", "from_biguint", "gen", "is_zero"))
    tl, atoms = tests_of(b)
    by_bb = {t.bb: t for t in tl}
    errs = []
    live = b.live_blocks()
    gens = [(i, t) for i, t in b.calls() if callee_name(t) == "gen_biguint" and i in live]
    coin = {i: t for i, t in b.calls() if callee_name(t) == "gen" and i in live}
    fb = [(i, t) for i, t in b.calls() if callee_name(t) == "from_biguint" and i in live]
    if len(gens) != 1 or len(fb) != 1:
        errs.append("expected one gen_biguint and one from_biguint call")
    else:
        gi, gt = gens[0]
        fi = fb[0][0]
        ba = atoms.of_operand(gt["args"][1])
        if params_of(ba) != {2} or calls_of(ba):
            errs.append("gen_biguint is not called with the requested bit_size")
        fa = core.Flow(b).roots_of_operand(fb[0][1]["args"][1])
        if not all(r[0] == "call" and r[1] == gi for r in fa):
            errs.append("from_biguint does not receive the drawn magnitude")
        table = {True: {}, False: {}}
        undecided = False
        for blocks, dec in _paths(b, gt["target"], {gi, fi}):
            z = None
            coins = {}
            infeasible = False
            for (sb, tgt) in dec:
                t = by_bb.get(sb)
                if t is None or t.cond is None:
                    undecided = True
                    continue
                c = t.cond
                val = True if tgt == t.t else (False if tgt == t.f else None)
                if c.kind == "call" and c.name == "is_zero" and c.args and "gen_biguint" in calls_of(c.args[0]):
                    if z is not None and z != val:
                        infeasible = True  # the same is_zero() result tested twice with different outcomes
                    z = val
                elif c.kind == "call" and c.name == "gen" and c.bb in coin:
                    if c.bb in coins and coins[c.bb] != val:
                        infeasible = True
                    coins[c.bb] = val
                elif c.kind in ("const",):
                    pass
                else:
                    undecided = True
            if infeasible:
                continue
            if blocks[-1] == gi:
                outcome = "re-draw"
            else:
                signs = {s_["rv"]["variant"] for x in blocks for s_ in b.blocks[x]["stmts"] if s_["k"] == "assign" and s_["rv"]["k"] == "aggregate" and s_["rv"].get("adt") == "bigint::Sign"}
                outcome = next(iter(signs)) if len(signs) == 1 else "sign?%s" % sorted(signs)
            # every coin consulted must be drawn inside this iteration (its call lies on the path)
            for cb_ in coins:
                if cb_ not in blocks and not (b.block_dominates(cb_, blocks[0]) and gi in b.reachable(cb_)):
                    errs.append("a random bool drawn outside the iteration decides the outcome")
            if z is None:
                errs.append("a path from the draw to %s does not test the magnitude for zero" % outcome)
                continue
            table[z].setdefault(outcome, []).append(coins)
        if undecided and not errs:
            res.note("R10-gen-bigint: a branch of gen_bigint is not an is_zero / random-bool test - outcome table not decided")
        elif not errs:
            for z, want in ((True, {"re-draw", "NoSign"}), (False, {"Plus", "Minus"})):
                got = table[z]
                what = "zero" if z else "non-zero"
                if set(got) != want:
                    errs.append("for a %s magnitude the outcomes are %s, expected %s" % (what, sorted(got), sorted(want)))
                    continue
                ids = {cid for lst in got.values() for cs in lst for cid in cs}
                if len(ids) != 1:
                    errs.append("for a %s magnitude the outcome must depend on exactly one fresh random bool (found %d)" % (what, len(ids)))
                    continue
                cid = next(iter(ids))
                vals = {o: {cs.get(cid) for cs in lst} for o, lst in got.items()}
                if any(len(v) != 1 or None in v for v in vals.values()) or len({next(iter(v)) for v in vals.values()}) != 2:
                    errs.append("for a %s magnitude the random bool does not map one-to-one onto %s" % (what, sorted(want)))
    if errs:
        res.fail(Finding("R10-gen-bigint", b.path, "; ".join(sorted(set(errs))[:4]), b))
    else:
        res.ok("R10-gen-bigint", b.path, {"zero": "one fresh bool: re-draw / NoSign", "non-zero": "one fresh bool: Plus / Minus", "form": "outcome table over the paths of one iteration"})
    res.clause("R10: gen_bigint draws a magnitude of bit_size bits; zero is kept with probability 1/2 (else re-drawn); the sign of a non-zero magnitude is a fresh fair bool (outcome table of one loop iteration)")


def check_delegations(ctx, res, config="all"):
    """RandomBits::sample forwards self.bits; Uniform*::sample = base + below(len); sample_single -> gen_*_range"""
    facts = ctx.facts(config)
    n = 0
    for ty_out, gen in (("biguint::BigUint", "gen_biguint"), ("bigint::BigInt", "gen_bigint")):
        bs = [b for b in facts.bodies if b.self_ty == "bigrand::RandomBits" and b.name == "sample" and b.trait_args and ty_out in b.trait_args[0]]
        if len(bs) != 1:
            res.fail(Finding("R10-anchor-lost", "RandomBits->" + ty_out, "Distribution impl not found", file="src/bigrand.rs", line=0))
            continue
        b = bs[0]
        n += 1
        at = Atoms(b)
        cs = [(i, t) for i, t in b.calls() if i in b.live_blocks() and not core.is_panic_call(t)]
        ok = len(cs) == 1 and callee_name(cs[0][1]) == gen
        if ok:
            a = at.of_operand(cs[0][1]["args"][1])
            ok = a == {("param", 1, ("bits",))}
            rr = core.Flow(b).roots_of_local(0)
            ok = ok and all(r[0] == "call" and r[1] == cs[0][0] for r in rr)
        if ok:
            res.ok("R10-randombits", b.path, {"forwards": "self.bits to " + gen})
        else:
            res.fail(Finding("R10-randombits", b.path, "RandomBits::sample must be exactly rng.%s(self.bits)" % gen, b))
    for ty in ("bigrand::UniformBigUint", "bigrand::UniformBigInt"):
        bs = facts.find(self_ty=ty, name="sample", trait="rand::distributions::uniform::UniformSampler")
        if len(bs) != 1:
            res.fail(Finding("R10-anchor-lost", ty + "::sample", "not found", file="src/bigrand.rs", line=0))
            continue
        b = core.inline_private(facts, bs[0], keep=("gen_biguint_below",))  # base + below(len) may be a shared private helper
        n += 1
        at = Atoms(b)
        below = [(i, t) for i, t in b.calls() if callee_name(t) == "gen_biguint_below" and i in b.live_blocks()]

        def is_add(t):
            fn = callee_fn(t) or {}
            return "core::ops::Add" in (fn.get("impl_trait") or "", fn.get("raw_trait") or "") or (fn.get("raw") or "").startswith("core::ops::Add::add") or (callee(t) or "").endswith("core::ops::Add::add")

        adds = [(i, t) for i, t in b.calls() if is_add(t) and i in b.live_blocks()]
        errs = []
        if len(below) != 1 or len(adds) != 1:
            errs.append("expected base + gen_biguint_below(len)")
        else:
            la = at.of_operand(below[0][1]["args"][1])
            if la != {("param", 1, ("len",))}:
                errs.append("gen_biguint_below is not called with self.len")
            a0 = at.of_operand(adds[0][1]["args"][0])
            a1 = at.of_operand(adds[0][1]["args"][1])
            if not any(x == ("param", 1, ("base",)) for x in a0) or "gen_biguint_below" not in calls_of(a1):
                errs.append("result is not self.base + offset")
            rr = core.Flow(b).roots_of_local(0)
            if not all(r[0] == "call" and r[1] == adds[0][0] for r in rr) and not getattr(b, "inlined_callees", None):
                errs.append("the sum is not the returned value")
        if errs:
            res.fail(Finding("R10-uniform-sample", b.path, "; ".join(errs), b))
        else:
            res.ok("R10-uniform-sample", b.path, {"term": "self.base + below(self.len)"})
        # constructors: len = high - low (+1 through new_inclusive -> new(low, high + 1))
        for nm in ("new", "new_inclusive"):
            cb = facts.find(self_ty=ty, name=nm, trait="rand::distributions::uniform::UniformSampler")
            if len(cb) != 1:
                res.fail(Finding("R10-anchor-lost", "%s::%s" % (ty, nm), "not found", file="src/bigrand.rs", line=0))
                continue
            c = cb[0]
            n += 1
            at2 = Atoms(c)
            if nm == "new":
                subs = [(i, t) for i, t in c.calls() if (callee_fn(t) or {}).get("impl_trait") == "core::ops::Sub" and i in c.live_blocks()]
                ok = False
                if len(subs) == 1:
                    s0 = at2.of_operand(subs[0][1]["args"][0])
                    s1 = at2.of_operand(subs[0][1]["args"][1])
                    ok = params_of(s0) == {2} and params_of(s1) == {1}
                # aggregate fields: base from low (param 1), len from the difference
                agg_ok = False
                for i, si, s in c.stmts():
                    rv = s.get("rv")
                    if rv and rv["k"] == "aggregate" and rv.get("adt") == ty:
                        fm = dict(zip(rv["fields"], rv["ops"]))
                        ba = at2.of_operand(fm["base"])
                        la = at2.of_operand(fm["len"])
                        if params_of(ba) == {1} and "sub" in calls_of(la) and "sub" not in calls_of(ba):
                            agg_ok = True
                if ok and agg_ok:
                    res.ok("R10-uniform-new", c.path, {"len": "high - low", "base": "low"})
                else:
                    res.fail(Finding("R10-uniform-new", c.path, "Uniform::new must store base = low and len = high - low (operands in this order)", c))
            else:
                news = [(i, t) for i, t in c.calls() if callee_name(t) == "new" and i in c.live_blocks()]
                adds2 = [(i, t) for i, t in c.calls() if (callee_fn(t) or {}).get("impl_trait") == "core::ops::Add" and i in c.live_blocks()]
                ok = False
                if len(news) == 1 and len(adds2) == 1:
                    n0 = at2.of_operand(news[0][1]["args"][0])
                    n1 = at2.of_operand(news[0][1]["args"][1])
                    a0 = at2.of_operand(adds2[0][1]["args"][0])
                    a1 = at2.of_operand(adds2[0][1]["args"][1])
                    ok = params_of(n0) == {1} and "add" in calls_of(n1) and params_of(a0) == {2} and consts_of(a1) == {1} and not params_of(a1)
                form = "new(low, high + 1)"
                if not ok and not news:
                    # the same sampler built directly: base = low, len = (high + 1) - low
                    subs = [(i, t) for i, t in c.calls() if (callee_fn(t) or {}).get("impl_trait") == "core::ops::Sub" and i in c.live_blocks()]
                    if len(subs) == 1 and len(adds2) == 1:
                        s0 = at2.of_operand(subs[0][1]["args"][0])
                        s1 = at2.of_operand(subs[0][1]["args"][1])
                        a0 = at2.of_operand(adds2[0][1]["args"][0])
                        a1 = at2.of_operand(adds2[0][1]["args"][1])
                        # (high + 1) - low   or   (high - low) + 1 (for BigInt: the magnitude of the difference, + 1)
                        one_added = consts_of(a1) == {1} and not params_of(a1)
                        form1 = params_of(s0) == {2} and "add" in calls_of(s0) and params_of(a0) == {2}
                        form2 = params_of(s0) == {2} and "add" not in calls_of(s0) and params_of(a0) == {1, 2} and "sub" in calls_of(a0)
                        term_ok = one_added and (form1 or form2) and params_of(s1) == {1} and "add" not in calls_of(s1)
                        for i, si, s_ in c.stmts():
                            rv = s_.get("rv")
                            if term_ok and rv and rv["k"] == "aggregate" and rv.get("adt") == ty:
                                fm = dict(zip(rv["fields"], rv["ops"]))
                                ba = at2.of_operand(fm["base"])
                                la = at2.of_operand(fm["len"])
                                if params_of(ba) == {1} and not ({"add", "sub"} & calls_of(ba)) and {"sub", "add"} <= calls_of(la):
                                    ok = True
                                    form = "base = low, len = (high + 1) - low" if form1 else "base = low, len = (high - low) + 1"
                if ok:
                    res.ok("R10-uniform-new", c.path, {"term": form})
                else:
                    res.fail(Finding("R10-uniform-new", c.path, "new_inclusive must be new(low, high + 1) (or build base = low, len = (high + 1) - low = (high - low) + 1 directly)", c))
    res.clause("R10: RandomBits forwards self.bits; Uniform*::sample = base + below(len) with base = low, len = high - low (inclusive: high + 1)")


def check_gen_bits(ctx, res, config="all"):
    """gen_bits: fill the whole u32 slice from the RNG, then (only when rem > 0) shift the *last* word right by 32 - rem;
    no other write to the words (value stability of the documented stream function)"""
    from . import r4

    facts = ctx.facts(config)
    bs = facts.find(suffix="bigrand::gen_bits")
    if len(bs) != 1:
        res.fail(Finding("R10-anchor-lost", "gen_bits", "not found", file="src/bigrand.rs", line=0))
        return
    b = bs[0]
    errs = []
    fills = [(i, t) for i, t in b.calls() if callee_name(t) == "fill" and i in b.live_blocks()]
    if len(fills) != 1:
        errs.append("expected exactly one rng.fill(data)")
    else:
        rr = core.Flow(b).roots_of_operand(fills[0][1]["args"][1])
        if not any(r[0] == "param" and r[1] == 2 and not [f for f in r[2] if f.startswith("#sub")] for r in rr):
            errs.append("fill does not cover the whole word slice")
    # writes to the words
    writes = [(i, si, s) for i, si, s in b.stmts() if s["k"] == "assign" and s["place"]["local"] == 2 and any(e["k"] == "deref" for e in s["place"]["proj"])]
    other_mut = [callee_name(t) for i, t in b.calls() if i in b.live_blocks() and callee_name(t) not in ("fill", "len") and any((core.op_place(a) or {}).get("local") is not None and b.local_ty(core.op_place(a)["local"]).startswith("&mut [u32]") for a in t["args"])]
    if other_mut:
        errs.append("the words are also modified by %s" % other_mut)
    if len(writes) != 1:
        errs.append("expected exactly one in-place update of a word, found %d" % len(writes))
    else:
        i, si, s = writes[0]
        rv = s["rv"]
        if not (rv["k"] == "binop" and rv["op"] in ("Shr", "ShrUnchecked")):
            errs.append("the top word is not updated by a right shift")
        else:
            # guarded by rem > 0
            tl, atoms = tests_of(b)
            guarded = False
            for t in tl:
                c = t.cond
                if c is not None and c.kind == "cmp" and params_of(c.a) == {3} and consts_of(c.b) == {0}:
                    edge = {"Gt": t.t, "Ne": t.t, "Eq": t.f, "Le": t.f}.get(c.op)
                    if edge is not None and b.edge_dominates((t.bb, edge), i):
                        guarded = True
            if not guarded:
                errs.append("the shift is not restricted to rem > 0 (for rem = 0 a shift by 32 would zero or overflow the word)")
            # amount = 32 - rem, index = len - 1
            try:
                for rem in range(1, 32):
                    amt = r4.eval_int(b, rv["b"], {3: rem})
                    if amt != 32 - rem:
                        errs.append("shift amount for rem=%d is %d, expected %d" % (rem, amt, 32 - rem))
                        break
            except r4.CantEval as e:
                errs.append("cannot evaluate the shift amount (%s)" % e)
            idx = [e for e in s["place"]["proj"] if e["k"] == "index"]
            if not idx:
                errs.append("the shifted word is not selected by index")
            else:
                il = idx[0]["local"]
                fl = core.Flow(b)
                last_ok = False
                for r in fl.roots_of_local(il):
                    if r[0] == "binop":
                        rv2 = b.blocks[r[1]]["stmts"][r[2]]["rv"]
                        if rv2["op"].startswith("Sub") and core.op_const(rv2["b"]) == 1:
                            ra = fl.roots_of_operand(rv2["a"])
                            for q in ra:
                                if q[0] == "call" and (q[2] or "").endswith("::len"):
                                    lt = b.blocks[q[1]]["term"]
                                    if any(z[0] == "param" and z[1] == 2 for z in fl.roots_of_operand(lt["args"][0])):
                                        last_ok = True
                if not last_ok:
                    errs.append("the shifted word is not the last one (index len - 1)")
    if errs:
        res.fail(Finding("R10-gen-bits", b.path, "; ".join(errs), b))
    else:
        res.ok("R10-gen-bits", b.path, {"fill": "whole slice", "top_word": "data[len-1] >>= 32 - rem, only for rem > 0"})
    res.clause("R10: gen_bits fills every word from the RNG and only shifts the last word right by 32 - rem when rem > 0")


def check_fixpoint_invariant(ctx, res, config="all"):
    """Newton driver `fixpoint(x, max_bits, f)`: whenever the iterate x and the candidate xn are compared, xn = f(x) for the
    *current* x - every path from an update of x to a comparison of (x, xn) recomputes xn by calling f(&x)"""
    facts = ctx.facts(config)
    bs = facts.find(suffix="biguint::fixpoint")
    if len(bs) != 1:
        res.fail(Finding("R10-anchor-lost", "fixpoint", "biguint::fixpoint not found", file="src/biguint.rs", line=0))
        return
    b = core.inline_private(facts, bs[0])  # the two phases may live in private helpers
    live = b.live_blocks()
    fl = core.Flow(b)
    # the candidate local: destination of f(&x) calls (directly or through a move)
    fcalls = []
    for i, t in b.calls():
        if i in live and callee_name(t) == "call" and len(t["args"]) == 2:
            rr = fl.roots_of_operand(t["args"][0])
            if any(r[0] == "param" and r[1] == 3 for r in rr):
                fcalls.append((i, t))
    if len(fcalls) < 2:
        res.note("R10-fixpoint-invariant: fewer than two applications of the iteration closure found in fixpoint (and its private helpers) - the candidate/iterate invariant is not decided for this form of the Newton driver")
        res.ok("R10-fixpoint-invariant", b.path, {"undecided": "closure applications not found"}, nontrivial=False)
        res.clause("C11: Newton driver invariant (not decided: unmodelled form)")
        return
    xn = None
    refresh = set()
    for i, t in fcalls:
        d = t["dest"]["local"]
        # follow `xn = move tmp`
        tgt = d
        for bi, si, s in b.stmts():
            if s["k"] == "assign" and not s["place"]["proj"] and s["rv"]["k"] == "use" and core.op_local(s["rv"]["op"]) == d and bi in live:
                tgt = s["place"]["local"]
                refresh.add(bi)
        if tgt == d:
            refresh.add(i)
        xn = tgt if xn is None or b.locals[tgt].get("name") else xn
    x = 1
    xdefs = [bi for bi, si, s in b.stmts() if s["k"] == "assign" and not s["place"]["proj"] and s["place"]["local"] == x and bi in live]
    compares = []
    for i, t in b.calls():
        if i in live and callee_name(t) in ("lt", "gt", "le", "ge", "cmp", "partial_cmp") and len(t["args"]) == 2:
            ls = set()
            for a in t["args"]:
                for r in fl.roots_of_operand(a):
                    if r[0] == "param" and r[1] == x:
                        ls.add("x")
                pl = core.op_place(a)
                if pl:
                    bl_ = pl["local"]
                    for d in b.defs().get(bl_, []):
                        if d[0] == "assign" and d[3]["rv"]["k"] == "ref" and d[3]["rv"]["place"]["local"] == xn:
                            ls.add("xn")
            if ls == {"x", "xn"}:
                compares.append(i)
    errs = []
    shape = []  # the driver is written in a form this rule does not model: undecided, not a violation
    if len(compares) < 2:
        shape.append("expected two loop tests comparing the iterate with the candidate, found %d" % len(compares))
    for d in xdefs:
        r = b.reachable(d, without_blocks=list(refresh - {d}))
        stale = [c for c in compares if c in r and c != d]
        if d in refresh:
            continue
        if stale:
            errs.append("after the iterate is updated (bb%d) a path reaches the loop test (bb%d) without recomputing the candidate f(&x): the test would use a stale candidate" % (d, stale[0]))
    # the callee argument of every application is the current iterate
    for i, t in fcalls:
        tup = core.op_place(t["args"][1])
        ok = False
        if tup:
            for dd in b.defs().get(tup["local"], []):
                if dd[0] == "assign" and dd[3]["rv"]["k"] == "aggregate":
                    rr = fl.roots_of_operand(dd[3]["rv"]["ops"][0])
                    if any(r[0] == "param" and r[1] == x for r in rr):
                        ok = True
        if not ok:
            shape.append("the closure is applied to something other than the iterate variable (e.g. to the candidate, which is then moved into the iterate)")
    if shape:
        res.note("R10-fixpoint-invariant: %s - the candidate/iterate invariant is not decided for this form of the Newton driver" % "; ".join(shape[:2]))
        res.ok("R10-fixpoint-invariant", b.path, {"undecided": shape[:2]}, nontrivial=False)
    elif errs:
        res.fail(Finding("R10-fixpoint-invariant", b.path, "; ".join(errs[:2]), b))
    else:
        res.ok("R10-fixpoint-invariant", b.path, {"iterate_updates": len(xdefs), "candidate_refreshes": len(refresh), "loop_tests": len(compares)})
    res.clause("C11: in the Newton driver every comparison of (x, xn) sees xn = f(x) for the current x (no stale candidate after an update of x)")
