"""usage: python3 -m nbsa.seedmatrix <patch> [props...]
Applies the patch to a scratch copy of /repo, runs the quick check of every (or the named) property there and prints one JSON
line per finding: {"property", "rule", "key", "file"}.  Used to see which properties a change makes fire, and through what."""
import json
import os
import shutil
import subprocess
import sys
import tempfile

from . import cli, core, props


def main(argv):
    patch = argv[0]
    pids = argv[1:] or sorted(props.PROPS)
    w = tempfile.mkdtemp(prefix="nbmx.", dir="/var/tmp")
    try:
        subprocess.run(["rsync", "-a", "--exclude", "target", "--exclude", ".git", core.REPO + "/", w + "/"], check=True)
        p = subprocess.run(["patch", "-p1", "-s", "-i", os.path.abspath(patch)], cwd=w, stdout=subprocess.PIPE, stderr=subprocess.STDOUT)
        if p.returncode != 0:
            print(json.dumps({"error": "patch failed"}))
            return 2
        for pid in pids:
            res, viol, _ = cli.run_property(pid, "quick", 0, repo=w, write=False)
            for f in viol:
                print(json.dumps({"property": pid, "rule": f.rule, "key": f.key, "file": f.file}))
        print(json.dumps({"done": patch}))
    finally:
        shutil.rmtree(w, ignore_errors=True)
    return 0


if __name__ == "__main__":
    sys.exit(main(sys.argv[1:]))
