#!/usr/bin/env python3
"""collect confirmed sub-agent seeds into /verif/seeded/<Cxx-k>/ with meta.json"""
import json, os, re, shutil, sys
OUT = "/verif/seeded"
JOBS = []
for p in ["C%02d" % i for i in range(1, 21)]:
    for k in (1, 2, 3):
        JOBS.append((p, k, "/tmp/seed-%s/%d" % (p, k), "/tmp/confirm/%s-%d.json" % (p, k), "/tmp/seedrun/%s-%d.txt" % (p, k), "round 1: free choice of defect"))
    for k in (1, 2):
        JOBS.append((p, k + 3, "/tmp/seed2-%s/%d" % (p, k), "/tmp/confirm2/%s-%d.json" % (p, k), "/tmp/seedrun2/%s-%d.txt" % (p, k), "round 2: asked for defects in the logic around the arithmetic (guards, dispatch, special cases, canonical form, configuration), not in digit loops"))
    for k in (1, 2):
        JOBS.append((p, k + 5, "/tmp/seed3-%s/%d" % (p, k), "/tmp/confirm3/%s-%d.json" % (p, k), "/tmp/seedrun3/%s-%d.txt" % (p, k), "round 3: asked for changes that look like maintenance work - fast paths, refactors, rerouted forms, type/cfg changes, std helpers with different edge behaviour"))
    for k in (1, 2):
        JOBS.append((p, k + 7, "/tmp/seed4-%s/%d" % (p, k), "/tmp/confirm4/%s-%d.json" % (p, k), "/tmp/seedrun4/%s-%d.txt" % (p, k), "round 4: asked for contract drift - one side of two things that are supposed to agree (sibling API forms, trait laws, wrapper vs implementation, documented return/panic conventions)"))
    for k in (1, 2):
        JOBS.append((p, k + 9, "/tmp/seed8-%s/%d" % (p, k), "/tmp/confirm8/%s-%d.json" % (p, k), "/tmp/seedrun8/%s-%d.txt" % (p, k), "round 5: asked for optimisations gone wrong - fast paths, early exits, skipped work, in-place reuse, cheaper special-case routines, dropped normalisation or guards \"the caller already did\""))
    for k in (1, 2):
        JOBS.append((p, k + 11, "/tmp/seed10-%s/%d" % (p, k), "/tmp/confirm10/%s-%d.json" % (p, k), "/tmp/seedrun10/%s-%d.txt" % (p, k), "round 6: free choice of defect again (as round 1), on the final machinery"))
    for k in (1, 2):
        JOBS.append((p, k + 13, "/tmp/seed12-%s/%d" % (p, k), "/tmp/confirm12/%s-%d.json" % (p, k), "/tmp/seedrun12/%s-%d.txt" % (p, k), "round 7: free choice once more, after the corrections of rounds 5-6"))
    for k in (1, 2):
        JOBS.append((p, k + 15, "/tmp/seed14-%s/%d" % (p, k), "/tmp/confirm14/%s-%d.json" % (p, k), "/tmp/seedrun14/%s-%d.txt" % (p, k), "round 8: free choice, with at least one change per agent that is not a local slip - cooperating edits in two functions, a shared helper or macro only one rare caller is sensitive to, a state-dependent sequence, or a difference confined to one build configuration"))
for (p, k, src, conf, run, rnd) in JOBS:
    if True:
        if not (os.path.exists(src + "/patch.diff") and os.path.exists(conf)):
            # the agent's scratch output is gone (fresh restore): keep the banked seed as it is and only refresh what the checks
            # report, if a run file for it exists
            d = os.path.join(OUT, "%s-%d" % (p, k))
            mp = os.path.join(d, "meta.json")
            if os.path.exists(mp) and os.path.exists(run):
                meta = json.load(open(mp))
                fired = []
                for ln in open(run):
                    m = re.match(r"FIRES (C\d+): (.*)", ln)
                    if m:
                        fired.append({"property": m.group(1), "rules": sorted(set(re.findall(r"rule=([A-Za-z0-9\-]+)", m.group(2))))})
                meta["reported_by"] = fired
                meta["detected"] = bool(fired)
                json.dump(meta, open(mp, "w"), indent=1)
            elif not os.path.exists(mp):
                print("skip", p, k)
            continue
        c = json.load(open(conf))
        ok_clean = c["demo_without_patch"].startswith("test result: ok")
        ok_fail = any(x in (c["demo_with_patch"] + c.get("demo_with_patch_release", "")) for x in ("FAILED", "error"))
        ok_suite = "FAILED" not in c["suite_with_patch"] and "error" not in c["suite_with_patch"]
        if not (ok_clean and ok_fail and ok_suite):
            print("NOT CONFIRMED", p, k); continue
        d = os.path.join(OUT, "%s-%d" % (p, k))
        os.makedirs(d, exist_ok=True)
        for f in ("patch.diff", "demo.rs", "notes.md"):
            shutil.copy(os.path.join(src, f), os.path.join(d, f))
        notes = open(src + "/notes.md").read()
        title = notes.strip().splitlines()[0].lstrip("# ").strip()
        fired = []
        if os.path.exists(run):
            for ln in open(run):
                m = re.match(r"FIRES (C\d+): (.*)", ln)
                if m:
                    rules = sorted(set(re.findall(r"rule=([A-Za-z0-9\-]+)", m.group(2))))
                    fired.append({"property": m.group(1), "rules": rules})
        needs = ""
        for ln in notes.splitlines():
            if re.search(r"[Tt]rigger", ln):
                needs = ln.strip("-* ").strip()
                break
        meta = {
            "property": p,
            "title": title,
            "needs_to_manifest": needs or "see notes.md",
            "produced_by": "fresh sub-agent given only the property text and a private worktree of /repo (" + rnd + ")",
            "confirmed_here": {
                "how": "nbsa/confirm_seed.sh: scratch copy of /repo; demo copied to tests/; cargo test --offline [flags from the demo header] on the clean tree, then with patch.diff applied (also --release when the demo asks for it); then the whole existing suite with the patch",
                "demo_without_patch": c["demo_without_patch"].strip(),
                "demo_with_patch": c["demo_with_patch"].strip()[:300],
                "demo_with_patch_release": c.get("demo_with_patch_release", "").strip()[:300],
                "existing_suite_with_patch": "all test binaries ok" if ok_suite else c["suite_with_patch"],
            },
            "checks_run": "nbsa/seedrun.sh: every claimed property's quick check on a scratch copy with the patch applied",
            "reported_by": fired,
            "detected": bool(fired),
        }
        json.dump(meta, open(os.path.join(d, "meta.json"), "w"), indent=1)
print("done")
