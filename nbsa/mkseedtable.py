#!/usr/bin/env python3
"""regenerate section 11 of DESIGN.md from /verif/seeded/*/meta.json"""
import glob, json, os, re
V = "/verif"
metas = []
for f in sorted(glob.glob(V + "/seeded/*/meta.json")):
    m = json.load(open(f))
    m["id"] = os.path.basename(os.path.dirname(f))
    metas.append(m)
rows = []
own = sib = 0
for m in metas:
    rules_own = sorted({r for x in m["reported_by"] if x["property"] == m["property"] for r in x["rules"]})
    rules_other = sorted({"%s:%s" % (x["property"], r) for x in m["reported_by"] if x["property"] != m["property"] for r in x["rules"]})
    if rules_own:
        own += 1
        caught = ", ".join(rules_own)
    elif rules_other:
        sib += 1
        caught = "only by a sibling property: " + ", ".join(rules_other[:3])
    else:
        caught = "-"
    title = re.sub(r"^(C\d+\s*)?(seed(ed)?\s*(defect)?\s*\d*\s*[-:—–]*\s*)", "", m["title"], flags=re.I).strip(" -:—–#")
    title = re.sub(r"^[\(\[]?C\d+[\)\]]?\s*[/-]?\s*(seed)?\s*\d*\s*[-:—–]*\s*", "", title, flags=re.I).strip(" -:—–")
    rows.append("| %s | %s | %s |" % (m["id"], title[:110].replace("|", "/"), caught))
n = len(metas)
missed = [m["id"] for m in metas if not m["reported_by"]]
text = """## 11. Seeded changes and which checks catch them

%d changes were produced by 160 fresh sub-agents in eight rounds of 20 (one agent per property and round). Round 1: three
changes each, free choice. Round 2: two each, defects in the logic *around* the arithmetic - guards, dispatch, special
cases, canonical form, configuration - rather than slips inside digit loops. Round 3: two each, changes that look like
maintenance work - fast paths, refactors, rerouted API forms, type or cfg changes, std helpers with different edge
behaviour. Round 4: two each, contract drift - one side of two things that are supposed to agree (sibling API forms, trait
laws, wrapper vs implementation, documented return and panic conventions). Round 5: two each, optimisations gone wrong -
fast paths, early exits, skipped work, in-place buffer reuse, cheaper special-case routines, normalisation or guards dropped
because "the caller already did" (the style the earlier misses had in common). Round 6: two each, free choice again, run
against the final machinery as a fresh estimate: 27 of its 40 were reported by the own property's check before anything was
changed for them, 33 after the corrections listed at the end of this section. Round 7: the same once more after those
corrections: 33 of 40 reported fresh, nothing changed for them afterwards (the C08 agent of this round also reported defect D7
of section 5 in the unmodified crate). Round 8: free choice with the request that at least one change per agent is not a
local slip - two cooperating edits that each look fine alone, a shared helper or macro that only one rare caller is sensitive
to, a state-dependent sequence of operations, or a difference confined to one build configuration: 27 of 40 reported fresh
by the own property's check, 36 after the corrections listed at the end of this section (four of them attribution only: the
finding existed under a sibling property). Each agent got only the property text and a
private worktree; every change compiles, passes the 165 baseline tests and comes with a demonstration that fails with the
change and passes without. Each was re-confirmed here in a scratch copy (`nbsa/confirm_seed.sh`: demo on the clean tree,
patch, demo again - also `--release` when the demo asks for it - then the whole suite) before being kept under
`/verif/seeded/<Cxx-k>/` (k = 1..3 round 1, 4..5 round 2, 6..7 round 3, 8..9 round 4, 10..11 round 5, 12..13 round 6, 14..15 round 7, 16..17 round 8) with `patch.diff`, `demo.rs`,
`notes.md`, `meta.json`. `nbsa/seedrun.sh <patch>` applies a change to a scratch copy and runs every claimed check;
`meta.json.reported_by` is its output on the final machinery. Independent agents sometimes hit on the same edit (the
`powsign` simplification, `BigInt::set_bit` without `normalize()`, `RandomBits` bypassing `gen_bigint`, `monty_modpow`'s
padding, by-value `div_rem`'s guard order each occur two or three times); they are kept as produced - with one exception:
after the repair of D7 (section 5) one *context* line of `seeded/C08-1/patch.diff` and of `mutants/neutral_float_sticky_exit`
was rebased onto the repaired tree (`bits -= digit_bits;`); the lines the patches add are untouched.

| seed | change (first line of the author's notes) | reported by (rules of the seed's own property) |
|---|---|---|
%s

**%d of %d** are reported by a check of the property they were written for, %d more only by a sibling property's check, %d by
none (%s). The misses are digit-, bit- or float-level arithmetic inside leaf routines (section 8): a lost carry in
`montgomery`, a carry into the longer operand's tail (three times), the Knuth D refinement, Toom-3 interpolation and operand
splitting, `sub_sign`'s trimming, result lengths in the two's-complement helpers and early exits in `bitand_neg_neg` /
`bitand_neg_pos`, chunk sizing in `to_radix_digits_le`, a power-of-two shortcut in `gcd` / `nth_root`, a debug-only overflow
in a signed remainder, a row window in `mac3`'s schoolbook leaf, a truncate-and-mask reduction for power-of-two moduli, a
branch-free digit classifier that accepts two more characters, a new `nth` override of `U32Digits`, u128 additions split into
steps or routed through the debug-asserting `add2`, a `bits() >> 5` length in Serialize (reported as undecided), the
negative-power-of-two test of `to_signed_bytes_*` reading one digit, `unwrap_or(MAX)` in a scalar remainder; from round 7:
Toom-3 split lengths without their clamps, a case-fold classifier that accepts control characters, the big-base loop guard of
`to_radix_digits_le` by digit count, a `bits() > MAX.count_ones()` early reject that
excludes iN::MIN, an early-out of `assign_from_slice` on a zero top word, `leading_zeros() <= 32` for "high half is zero";
from round 8: `d[0]` on a digit slice that one u128 caller passes empty, `c + c2` instead of `wrapping_add` in `montgomery` (debug-only, needs an all-ones carry digit), `continue` on
a zero exponent digit in `plain_modpow`, `assign_from_slice` through a
raw copy that keeps the old upper half of the last digit (reported under C15 as a new unsafe call, not under C09).
Two more (C13-2, C13-11) are bodies the abstract interpreter cannot decide; they were reported while "undecided"
made a check fail and are notes since section 12.4. The early exits in `bitand_neg_neg` (C07-12, C07-14) and the rounding
comparison of `shr_round_down` made in the amount's own type (C07-6, C07-11, C10-6, and twice more in round 8) were misses
until round 8 and are reported now (R9-carry-exit, R5-shift with the NumCast model).

Checks added or generalised because a seed was missed at first: R3c panic-site table and checked negations (C14-2, C14-3,
C01-5), R5 constructors (C09-3), BigUint^BigUint decision + oracle-side case split (C10-3, C12-2), R5 range terms (C18-1),
R5 shifts and the interpreted `shr_round_down` (C04-2, C07-1, C07-4), R1 (C04-1, C06-2, C17-2), R3a-underflow-coverage
incl. `__sub2rev` (C01-2, C01-4), R2-operand-narrowed (C12-3), R2-conversion-narrowed incl. float casts (C08-3, C08-4,
C08-5), general R8 + who-may-call + shorter-first (C20-1, C20-3, C02-4), R4-raw-slice-lengths (C15-1), R10-gen-bits
(C18-3), R10-fixpoint-invariant (C11-1), gcd zero cases (C13-4), U32Digits write sets (C14-5), parse validation order
(C06-4); after rounds 3-4: R8 mul-no-long-division (C20-2), carry must-use for adc/sbb/__sub2rev (C05-3),
R2-count-narrowed (C05-2, later C08-9), R3c-operand-overflow (C12-7), inherent root/pow/modpow and checked_add/sub/mul
targets (C11-7), R1 digits_mut seeds + denormalising helper summaries (C04-6, C07-7, C07-9), R11 montgomery operand lengths
(C05-4, C05-6, C05-9), R1-constant-cut (C01-6), serde size-hint confinement (C17-6), extended_gcd_lcm Bezout oracle
(C13-7), R2-conversion-intermediate (C08-8), R3 float-guess guard (C11-8), R7 serde declared length (C17-8); in the last
round: the float-guess constants - bit-length guards and the `bits - K` of the scaled retry decided against MAX_EXP-1
(C11-3, C16-1, C16-4, C16-8), the read set of the to_f64 digit loop (C08-1, C08-6), the non-zero typestate at gcd's common
shift (C13-6, C13-10), checked arithmetic on a digit element (C10-1, C16-11), R1 under C10 and C18 (C10-10, C18-10), R11
under C14 (C14-11), the panic-site table under the arithmetic families (C02-11), representation findings of the abstract
interpreter kept under C04 (C04-11), trailing-zero counts compared only with 0 in the count-narrowing rule (C12-11); from
round 6: unsigned-to-signed casts need an ordering test (C08-11), a value computed from a rejected candidate is not a
candidate (C18-12), near-balanced shapes in the cost recurrence (C20-13), the exact range of locally computed shift amounts
(C16-13, C07-2), "zero is the empty sequence" as a path rule (C17-12), the constructors rule under C06 (C06-12), a
trailing-zero count taken from one digit in gcd (C13-12); from round 8: a carry loop's early exit must look at every pending
carry (R9-carry-exit: C07-12, C07-14), the rounding comparison of `>>` in the amount's own type with the wrong fallback
(C07-6, C07-11, C10-6, C07-16), control-dependent `&mut` mutation in the std/no_std taint and that rule scoped under C06/C11
(C06-16), the balance of `<<` on the dividend and `>>` on the remainder around `div_rem_core`, counted across the call
(R3-div-scaling: C03-17), an emptiness test of a cursor field that a dominating `split_last` of the same unmodified field has
already answered (R9-exhaustion-test: C09-16), an overwriting slice operation on a window of mac3's accumulator
(R8-acc-overwritten: C02-17), deserialized integers as outside input of the operand-overflow rule, conversions establish no range (C17-16), and
attribution: debug-only side effects under the arithmetic properties (C03-16), new checked negations under C16 (C16-17), the
digit-step rule under C13 (C13-16), R1 under C19 (C19-16).
""" % (n, "\n".join(rows), own, n, sib, len(missed), ", ".join(missed))
s = open(V + "/DESIGN.md").read()
i0 = s.index("## 11. Seeded changes")
i1 = s.index("## 12. False alarms met")
s = s[:i0] + text + s[i1:]
open(V + "/DESIGN.md", "w").write(s)
print("own", own, "sibling", sib, "missed", len(missed), "of", n)
